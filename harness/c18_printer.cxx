// C18 -- printing terminates and leaves the stream and the printer as it found them.
// Every case runs in a forked child on a 256 MiB stack (forkrun.hpp): the child's fate gives termination; inside, the
// stream's formatting state is compared before/after, probe numbers are written through the same printer afterwards,
// the output is scanned for control bytes that no spelling accounts for, and the printer's indentation is compared
// around complete top-level declarations and statements.
#include "sweep_all.hpp"
#include "collect.hpp"
#include "progs.hpp"
#include "forkrun.hpp"
#include "gen/categories.hpp"
#include "inspect.hpp"
#include <sstream>

using namespace vh;

namespace {
enum Role { R_EXPR, R_STMT, R_DECL, R_TYPE, R_UNIT };
const char* role_name[] = { "expr", "stmt", "decl", "type", "unit" };

const char* cat_name(Category_code c)
{
   switch (c) {
#define VH_X(C) case Category_code::C: return #C;
   VH_LEAF_CATEGORIES(VH_X)
#undef VH_X
   default: return "?";
   }
}

// control bytes (0..31 except newline, and 127) occurring in the dynamic strings of a Lexicon
std::set<unsigned char> control_bytes_in(const impl::Lexicon& lex)
{
   std::set<unsigned char> s;
   for (auto& [h, lst] : Inspector::buckets(Inspector::strings(static_cast<const impl::name_factory&>(lex))))
      for (auto& str : lst) for (auto c : str.characters()) if ((c < 0x20 && c != '\n') || c == 0x7f) s.insert((unsigned char)c);
   return s;
}

// Formatting states a client's stream may be in when it is handed to the printer (0: as constructed).  Whatever the state, the
// printer leaves it as it found it; what the client writes afterwards comes out as it would have before.
constexpr int n_presets = 6;
inline void apply_preset(std::ostream& os, int preset)
{
   switch (preset) {
   case 1: os.setf(std::ios_base::hex, std::ios_base::basefield); break;
   case 2: os.setf(std::ios_base::oct, std::ios_base::basefield); break;
   case 3: os.setf(std::ios_base::hex, std::ios_base::basefield); os.setf(std::ios_base::showbase | std::ios_base::uppercase); break;
   case 4: os.setf(std::ios_base::showpos | std::ios_base::boolalpha | std::ios_base::showpoint); os.setf(std::ios_base::left, std::ios_base::adjustfield); os.setf(std::ios_base::scientific, std::ios_base::floatfield); break;
   case 5: os.unsetf(std::ios_base::basefield); os.setf(std::ios_base::internal, std::ios_base::adjustfield); os.unsetf(std::ios_base::skipws); break;      // no base selected at all
   default: break;
   }
}

struct PrintCheck {
   CaseOut& out;
   std::string label;          // "<role>:<kind>"
   Role role;
   bool complete_item;         // a complete top-level declaration / statement: indentation must be restored
   std::set<unsigned char> allowed_ctrl;
   int preset = 0;             // formatting state of the client's stream at entry (apply_preset)
   bool preset_after_printer = false;   // the client put its stream into that state AFTER it had built the Printer (a long-lived printer)
   std::string outcome;

   // f prints through the Printer it is given
   template<class F>
   void run(impl::Lexicon& lex, F f)
   {
      std::ostringstream os;
      os.fill('#'); os.precision(3);
      if (!preset_after_printer) apply_preset(os, preset);
      if (preset) out.count(preset_after_printer ? "items_printed_after_the_client_changed_its_stream_behind_a_live_printer" : "items_printed_to_a_stream_in_a_non_default_formatting_state");
      Printer pp(lex, os);
      if (preset_after_printer) { apply_preset(os, preset); os.fill('*'); os.precision(5); }
      const auto flags0 = os.flags(); const auto fill0 = os.fill(); const auto prec0 = os.precision(); const auto width0 = os.width();
      pp.print_locations = true;
      const int indent0 = pp.indent();
      outcome = "completed";
      try { f(pp); }
      catch (const std::logic_error&) { outcome = "refused"; }
      catch (const std::exception& e) { outcome = "other-exception"; out.viol("exception-not-logic-error:" + label, std::string("printing raised an exception that is not a std::logic_error: ") + typeid(e).name() + ": " + e.what()); }
      catch (...) { outcome = "other-exception"; out.viol("exception-not-logic-error:" + label, "printing raised a non-standard exception"); }
      out.count("outcome:" + outcome);
      out.eval(hash_mix(hash_bytes(label), hash_bytes(outcome)));
      // (a) stream state
      if (os.flags() != flags0) out.viol("stream-flags-changed:" + label, "the stream's formatting flags differ after printing (before " + std::to_string((long long)flags0) + ", after " + std::to_string((long long)os.flags()) + ")");
      if (os.fill() != fill0) out.viol("stream-fill-changed:" + label, "the stream's fill character differs after printing");
      if (os.precision() != prec0) out.viol("stream-precision-changed:" + label, "the stream's precision differs after printing");
      if (os.width() != width0) out.viol("stream-width-changed:" + label, "the stream's width differs after printing");
      const std::string text = os.str();
      // (b) control bytes
      for (unsigned char c : text)
         if (((c < 0x20 && c != '\n') || c == 0x7f) && !allowed_ctrl.count(c)) {
            out.viol(std::string("control-byte-not-from-a-spelling:") + (c == 0 ? "NUL" : "0x" + std::to_string(int(c))) + ":" + label,
                     "the output contains control byte " + std::to_string(int(c)) + " although no spelling in the graph contains it");
            break;
         }
      // (c) indentation
      if (complete_item && outcome == "completed" && pp.indent() != indent0)
         out.viol("indentation-not-restored:" + label, "after a complete top-level item the printer's indentation is " + std::to_string(pp.indent()) + ", it started at " + std::to_string(indent0));
      // (d') a stream that was not in its default state: what the client writes afterwards reads as it would have before
      if (preset) {
         std::ostringstream ref; ref.fill('#'); ref.precision(3); apply_preset(ref, preset); if (preset_after_printer) { ref.fill('*'); ref.precision(5); }
         ref << 255 << ' ' << 64u << ' ' << true << ' ' << 2.5;
         const auto mark = os.str().size();
         os << 255 << ' ' << 64u << ' ' << true << ' ' << 2.5;
         if (os.str().substr(mark) != ref.str()) out.viol("client-output-formatted-differently-afterwards:" + label, "after printing, the client's own output through the same stream reads '" + CaseOut::clean(os.str().substr(mark)) + "', before printing it would have read '" + CaseOut::clean(ref.str()) + "'");
      }
      // (d) numbers written afterwards through the same printer and stream are decimal (stated for a stream handed over in its default state)
      if (!preset) {
         const auto mark = os.str().size();
         auto* brk = lex.make_break();
         brk->src_locus.file = File_index { 7001 }; brk->src_locus.line = Line_number { 1234 }; brk->src_locus.column = Column_number { 89 };
         std::string probe;
         try { pp << Decl_position { 255 } << Mapping_level { 64 }; pp << xpr_stmt(*brk); probe = os.str().substr(mark); }
         catch (const std::exception& e) { probe = std::string("<exception ") + e.what() + ">"; }
         out.count("probes");
         if (probe.rfind("25564", 0) != 0 || probe.find("F7001:1234:89 ") == std::string::npos)
            out.viol("numbers-not-decimal-afterwards:" + label, "numbers written through the same printer after this item read '" + CaseOut::clean(probe.substr(0, 60)) + "' instead of 255, 64, F7001:1234:89");
      }
      // (e) every location token inside the item's own output is one of the renderings the harness planted
      last_text = text;
   }
   std::string last_text;
};

// ---- case builders -----------------------------------------------------------------------------------------------
struct SweepWorld {
   impl::Lexicon lex; impl::Translation_unit unit { lex };
   Rng rng;
   Sweep S;
   std::set<unsigned char> ctrl;
   explicit SweepWorld(std::uint64_t seed) : rng(seed), S(lex, unit, rng) { S.run_all(); ctrl = control_bytes_in(lex); }
};

void add_sweep_cases(std::vector<ForkCase>& cases, std::shared_ptr<SweepWorld> W)
{
   Collector col; collect_roots(col, W->S);
   std::map<std::string, int> per_label;
   for (auto np : col.nodes) {
      const Expr* e = dynamic_cast<const Expr*>(np);
      if (!e) continue;
      const Type* t = dynamic_cast<const Type*>(np);
      const std::string kind = cat_name(np->category);
      for (int r = R_EXPR; r <= R_TYPE; ++r) {
         if (r == R_TYPE && !t) continue;
         std::string label = std::string(role_name[r]) + ":" + kind;
         if (++per_label[label] > 6) continue;          // several instances (states) of each kind, not hundreds
         cases.push_back({ label, [W, e, t, r, label](CaseOut& out) {
            PrintCheck pc { out, label, Role(r), r == R_STMT || r == R_DECL, W->ctrl };
            pc.run(W->lex, [&](Printer& pp) {
               switch (r) {
               case R_EXPR: pp << xpr_expr(*e); break;
               case R_STMT: pp << xpr_stmt(*e); break;
               case R_DECL: pp << xpr_decl(*e, true); break;
               default: pp << xpr_type(*t); break;
               }
            });
         } });
      }
   }
   cases.push_back({ "unit:sweep", [W](CaseOut& out) { PrintCheck pc { out, "unit:sweep", R_UNIT, true, W->ctrl }; pc.run(W->lex, [&](Printer& pp) { pp << W->unit; }); } });
   for (int preset = 1; preset < n_presets; ++preset) for (int late = 0; late < 2; ++late)
      cases.push_back({ "unit:sweep:stream-preset-" + std::to_string(preset) + (late ? "-after-the-printer-was-built" : ""), [W, preset, late](CaseOut& out) { PrintCheck pc { out, "unit:sweep", R_UNIT, true, W->ctrl, preset, late != 0 }; pc.run(W->lex, [&](Printer& pp) { pp << W->unit; }); } });
}

void add_literal_cases(std::vector<ForkCase>& cases, Rng& rng, bool thorough)
{
   auto one = [&](std::string bytes, std::string label) {
      cases.push_back({ label, [bytes, label](CaseOut& out) {
         impl::Lexicon lex; const Lexicon& L = lex;
         auto* lit = lex.make_literal(L.int_type(), widen(bytes));
         std::set<unsigned char> allowed; for (unsigned char c : bytes) allowed.insert(c);
         {  PrintCheck pc { out, label, R_EXPR, false, allowed }; pc.run(lex, [&](Printer& pp) { pp << xpr_expr(*lit); }); }
         {  auto* st = lex.make_expr_stmt(*lex.make_plus(*lit, *lit)); PrintCheck pc { out, label + ":in-statement", R_STMT, true, allowed }; pc.run(lex, [&](Printer& pp) { pp << xpr_stmt(*st); }); }
         out.count("literal_spellings");
      } });
   };
   for (int b = 0; b < 256; ++b) one(std::string(1, char(b)), "literal:single-byte");
   const int pairs = thorough ? 32 * 32 : 96;
   for (int k = 0; k < pairs; ++k) { int a = thorough ? k / 32 : int(rng.below(32)), b = thorough ? k % 32 : int(rng.below(32)); one(std::string(1, char(a)) + char(b), "literal:control-pair"); }
   for (int k = 0; k < (thorough ? 2000 : 100); ++k) { std::string s; int n = int(rng.below(12)); for (int i = 0; i < n; ++i) s += char(rng.chance(50) ? rng.below(32) : rng.below(256)); one(s, "literal:random-bytes"); }
   // every control byte (and DEL, quote, backslash) directly followed by, and directly preceded by, a byte of every class an
   // escaping routine might look at: octal digits, other digits, hex letters, x, backslash, quote, another control byte, end
   {
      const int specials[] = { 0, 1, 2, 3, 4, 5, 6, 7, 8, 9, 10, 11, 12, 13, 14, 15, 16, 17, 18, 19, 20, 21, 22, 23, 24, 25, 26, 27, 28, 29, 30, 31, 127, '"', '\\', '\'' };
      const char followers[] = { '0', '1', '7', '8', '9', 'a', 'f', 'x', 'n', '\\', '"', ' ', 'Z' };
      for (int c : specials) for (char f : followers) {
         if (!thorough && rng.chance(50)) continue;
         one(std::string(1, char(c)) + f, "literal:special-then-follower");
         one(std::string(1, f) + char(c) + f + f, "literal:follower-special-followers");
      }
   }
   one("", "literal:empty");
}

void add_delimiter_and_operator_cases(std::vector<ForkCase>& cases)
{
   for (int d = 0; d <= 4; ++d) for (int shape = 0; shape < 3; ++shape) {
      std::string label = "enclosure:delimiter-" + std::to_string(d) + (shape == 0 ? ":expr" : shape == 1 ? ":list" : ":empty-list");
      cases.push_back({ label, [d, shape, label](CaseOut& out) {
         impl::Lexicon lex; const Lexicon& L = lex;
         auto* lit = lex.make_literal(L.int_type(), u8"7");
         auto* xl = lex.make_expr_list(); if (shape == 1) { xl->push_back(lit); xl->push_back(lit); }
         const Expr& inner = shape == 0 ? static_cast<const Expr&>(*lit) : static_cast<const Expr&>(*xl);
         auto* en = lex.make_enclosure(Delimiter(d), inner);
         {  PrintCheck pc { out, label, R_EXPR, false, {} }; pc.run(lex, [&](Printer& pp) { pp << xpr_expr(*en); }); }
         {  auto* st = lex.make_expr_stmt(*en); PrintCheck pc { out, label + ":in-statement", R_STMT, true, {} }; pc.run(lex, [&](Printer& pp) { pp << xpr_stmt(*st); }); }
         out.count("delimiter_cases");
      } });
   }
   const char* ops[] = { "+", "()", "new[]", "delete", "co_await", "", "<=>", "\xc3\xa9" "t", "\x80", "_x", "9", " " };
   for (auto op : ops) {
      std::string name = op; std::string label = "operator-name:" + std::string(name.empty() ? "empty" : std::isalpha((unsigned char)name[0]) ? "alphabetic" : (unsigned char)name[0] >= 0x80 ? "high-byte" : "symbolic");
      cases.push_back({ label, [name, label](CaseOut& out) {
         impl::Lexicon lex; impl::Translation_unit unit { lex }; const Lexicon& L = lex;
         auto& opn = lex.get_operator(widen(name));
         auto* id = lex.make_id_expr(opn, Optional<Type>(&L.int_type()));
         std::set<unsigned char> allowed; for (unsigned char c : name) allowed.insert(c);
         {  PrintCheck pc { out, label, R_EXPR, false, allowed }; pc.run(lex, [&](Printer& pp) { pp << xpr_expr(*id); }); }
         {  auto* v = unit.global_scope()->make_var(opn, L.int_type()); PrintCheck pc { out, label + ":declared", R_DECL, true, allowed }; pc.run(lex, [&](Printer& pp) { pp << xpr_decl(*v, true); }); }
         out.count("operator_name_cases");
      } });
   }
}

// statement nestings of a given depth, every nesting construct
const Expr* nest(impl::Lexicon& lex, impl::Region& reg, Rng& rng, int depth, const Expr& cond, std::uint32_t& loc)
{
   auto locate = [&](auto* s) { if (rng.chance(50)) { s->src_locus.file = File_index { 7001 }; s->src_locus.line = Line_number { 1234 }; s->src_locus.column = Column_number { 89 }; ++loc; } return s; };
   if (depth <= 0) return rng.chance(50) ? static_cast<const Expr*>(locate(lex.make_expr_stmt(cond))) : static_cast<const Expr*>(locate(lex.make_break()));
   switch (rng.below(11)) {
   case 0: { auto* b = lex.make_block(reg); int n = 1 + int(rng.below(2)); for (int i = 0; i < n; ++i) b->add_stmt(*nest(lex, b->lexical_region, rng, i == 0 ? depth - 1 : 0, cond, loc)); return locate(b); }
   case 1: return locate(lex.make_if(cond, *nest(lex, reg, rng, depth - 1, cond, loc)));
   case 2: return locate(lex.make_if(cond, *nest(lex, reg, rng, depth - 1, cond, loc), *nest(lex, reg, rng, 0, cond, loc)));
   case 3: return locate(lex.make_if(cond, *nest(lex, reg, rng, 0, cond, loc), *nest(lex, reg, rng, depth - 1, cond, loc)));
   case 4: { auto* s = lex.make_while(); s->control = &cond; s->stmt = nest(lex, reg, rng, depth - 1, cond, loc); return locate(s); }
   case 5: { auto* s = lex.make_do(); s->control = &cond; s->stmt = nest(lex, reg, rng, depth - 1, cond, loc); return locate(s); }
   case 6: { auto* s = lex.make_switch(); s->control = &cond; s->stmt = nest(lex, reg, rng, depth - 1, cond, loc); return locate(s); }
   case 7: { auto* s = lex.make_for(); s->init = &cond; s->cond = &cond; s->inc = &cond; s->stmt = static_cast<const Stmt*>(nest(lex, reg, rng, depth - 1, cond, loc)); return locate(s); }
   case 8: return locate(lex.make_labeled_stmt(cond, *nest(lex, reg, rng, depth - 1, cond, loc)));
   case 9: { auto* b = lex.make_block(reg); b->add_stmt(*nest(lex, b->lexical_region, rng, 0, cond, loc));
             auto* h = b->new_handler(lex.get_identifier(u8"e"), static_cast<const Lexicon&>(lex).int_type()); h->body().add_stmt(*nest(lex, h->body().lexical_region, rng, depth - 1, cond, loc));
             if (rng.chance(40)) b->new_handler(lex.get_identifier(u8"f"), static_cast<const Lexicon&>(lex).ellipsis_type());
             return locate(b); }
   default: { auto* v = reg.declare_var(lex.get_identifier(u8"it"), static_cast<const Lexicon&>(lex).int_type()); auto* s = lex.make_for_in(); s->var = v; s->seq = &cond; s->stmt = static_cast<const Stmt*>(nest(lex, reg, rng, depth - 1, cond, loc)); return locate(s); }
   }
}

void add_nesting_cases(std::vector<ForkCase>& cases, Rng& rng, bool thorough)
{
   const int n = thorough ? 600 : 40;
   for (int k = 0; k < n; ++k) {
      const int depth = k % 10 == 0 ? 200 : 1 + int(rng.below(thorough ? 60 : 14));
      const std::uint64_t seed = rng.next();
      std::string label = std::string("nesting:depth-") + (depth >= 200 ? "200" : depth > 20 ? "21-60" : depth > 5 ? "6-20" : "1-5");
      cases.push_back({ label, [depth, seed, label](CaseOut& out) {
         impl::Lexicon lex; impl::Translation_unit unit { lex }; const Lexicon& L = lex;
         Rng r(seed);
         auto* cond = lex.make_less(*lex.make_id_expr(lex.get_identifier(u8"i")), *lex.make_literal(L.int_type(), u8"10"));
         std::uint32_t located = 0;
         const Expr* s = nest(lex, *unit.global_region(), r, depth, *cond, located);
         PrintCheck pc { out, label, R_STMT, true, {} };
         pc.run(lex, [&](Printer& pp) { pp << xpr_stmt(*s); });
         // all planted locations are F7001:1234:89: any other rendering of a location is a number not written in decimal
         std::size_t pos = 0, seen = 0;
         while ((pos = pc.last_text.find("F", pos)) != std::string::npos) {
            if (pos + 1 < pc.last_text.size() && std::isdigit((unsigned char)pc.last_text[pos + 1])) {
               ++seen;
               if (pc.last_text.compare(pos, 14, "F7001:1234:89 ") != 0) { out.viol("location-number-not-decimal:" + label, "a location printed inside the item reads '" + CaseOut::clean(pc.last_text.substr(pos, 20)) + "', expected F7001:1234:89"); break; }
            }
            ++pos;
         }
         if (pc.outcome == "completed" && located > 0 && seen == 0) out.viol("location-missing:" + label, "located statements were printed without any location token although location printing is enabled");
         out.count("nesting_cases"); out.count("located_statements_printed", (long long)seen);
      } });
   }
}

// Every controlling statement (if, if-else, while, do, switch, for, for-in, labeled, handler) over every kind of controlled
// body (a null statement = expression statement of a phantom, a bare phantom, an expression statement, an empty block, a block
// with one / two statements, break, a nested controlling statement, a declaration, an unsupported construct bare / as a
// statement / in braces), alone and twice inside an enclosing block:
// each complete statement must leave the printer's indentation where it found it.
void add_body_matrix_cases(std::vector<ForkCase>& cases)
{
   for (int outer = 0; outer < 9; ++outer) for (int body = 0; body < 12; ++body) {
      std::string label = "body-matrix:" + std::to_string(outer) + "x" + std::to_string(body);
      cases.push_back({ label, [outer, body, label](CaseOut& out) {
         impl::Lexicon lex; impl::Translation_unit unit { lex }; const Lexicon& L = lex; auto& greg = *unit.global_region();
         auto* cond = lex.make_less(*lex.make_id_expr(lex.get_identifier(u8"i")), *lex.make_literal(L.int_type(), u8"10"));
         auto make_body = [&](int kind) -> const Expr* {
            switch (kind) {
            case 0: return lex.make_expr_stmt(*lex.make_phantom());
            case 1: return lex.make_phantom();
            case 2: return lex.make_expr_stmt(*lex.make_literal(L.int_type(), u8"1"));
            case 3: return lex.make_block(greg);
            case 4: { auto* b = lex.make_block(greg); b->add_stmt(*lex.make_break()); return b; }
            case 5: { auto* b = lex.make_block(greg); b->add_stmt(*lex.make_expr_stmt(*lex.make_phantom())); b->add_stmt(*lex.make_continue()); return b; }
            case 6: return lex.make_break();
            case 7: { auto* w = lex.make_while(); w->control = cond; w->stmt = lex.make_expr_stmt(*lex.make_phantom()); return w; }
            // constructs the printer does not support, as the controlled body (unbraced), as a bare expression and inside braces:
            // the print is refused, or completes with the indentation restored -- wherever the refusal is raised or handled
            case 9: return lex.make_expr_stmt(*lex.make_alignof(*lex.make_literal(L.int_type(), u8"1")));
            case 10: return lex.make_alignof(*lex.make_literal(L.int_type(), u8"1"));
            case 11: { auto* b = lex.make_block(greg); b->add_stmt(*lex.make_expr_stmt(*lex.make_alignof(*lex.make_literal(L.int_type(), u8"1")))); return b; }
            default: { auto* b = lex.make_block(greg); auto* v = b->lexical_region.scope.make_var(lex.get_identifier(u8"local"), L.int_type()); b->add_stmt(*v); return b; }
            }
         };
         auto make_outer = [&](const Expr* bd) -> const Expr* {
            auto as_stmt = [&](const Expr* e) -> const ipr::Stmt* { if (auto st = dynamic_cast<const ipr::Stmt*>(e)) return st; return lex.make_expr_stmt(*e); };
            switch (outer) {
            case 0: return lex.make_if(*cond, *bd);
            case 1: return lex.make_if(*cond, *bd, *make_body(body));
            case 2: { auto* w = lex.make_while(); w->control = cond; w->stmt = bd; return w; }
            case 3: { auto* w = lex.make_do(); w->control = cond; w->stmt = bd; return w; }
            case 4: { auto* w = lex.make_switch(); w->control = cond; w->stmt = bd; return w; }
            case 5: { auto* f = lex.make_for(); f->init = lex.make_phantom(); f->cond = cond; f->inc = lex.make_phantom(); f->stmt = as_stmt(bd); return f; }
            case 6: { auto* f = lex.make_for_in(); auto* b = lex.make_block(greg); f->var = b->lexical_region.scope.make_var(lex.get_identifier(u8"x"), L.int_type()); f->seq = cond; f->stmt = as_stmt(bd); return f; }
            case 7: return lex.make_labeled_stmt(*lex.make_id_expr(lex.get_identifier(u8"lbl")), *bd);
            default: { auto* b = lex.make_block(greg); b->add_stmt(*lex.make_break()); auto* h = b->new_handler(lex.get_identifier(u8"e"), L.int_type()); h->body().add_stmt(*bd); return b; }
            }
         };
         const Expr* alone = make_outer(make_body(body));
         { PrintCheck pc { out, label, R_STMT, true, {} }; pc.run(lex, [&](Printer& pp) { pp << xpr_stmt(*alone); }); }
         auto* enclosing = lex.make_block(greg);
         enclosing->add_stmt(*make_outer(make_body(body))); enclosing->add_stmt(*lex.make_expr_stmt(*lex.make_literal(L.int_type(), u8"2"))); enclosing->add_stmt(*make_outer(make_body(body)));
         { PrintCheck pc { out, label + ":twice-in-a-block", R_STMT, true, {} }; pc.run(lex, [&](Printer& pp) { pp << xpr_stmt(*enclosing); }); }
         out.count("body_matrix_cases");
      } });
   }
}

// Every delimiter kind x every kind of enclosed operand, printed as an enclosure, as the initializer of a construction, and as
// the initializer of a new-expression with and without placement arguments: parent x child x delimiter combinations.
void add_enclosure_matrix_cases(std::vector<ForkCase>& cases)
{
   for (int delim = 0; delim < 5; ++delim) for (int inner = 0; inner < 4; ++inner) {
      std::string label = "enclosure-matrix:" + std::to_string(delim) + "x" + std::to_string(inner);
      cases.push_back({ label, [delim, inner, label](CaseOut& out) {
         impl::Lexicon lex; impl::Translation_unit unit { lex }; const Lexicon& L = lex;
         const Expr* operand = nullptr;
         switch (inner) {
         case 0: operand = lex.make_phantom(); break;
         case 1: operand = lex.make_literal(L.int_type(), u8"7"); break;
         case 2: operand = lex.make_expr_list(); break;
         default: { auto* xl = lex.make_expr_list(); xl->push_back(lex.make_literal(L.int_type(), u8"1")); xl->push_back(lex.make_id_expr(lex.get_identifier(u8"x"))); operand = xl; break; }
         }
         auto* enc = lex.make_enclosure(Delimiter(delim), *operand);
         auto* cons = lex.make_construction(L.int_type(), *enc);
         auto* placement = lex.make_expr_list(); placement->push_back(lex.make_id_expr(lex.get_identifier(u8"buffer")));
         const Expr* items[] = { enc, cons, lex.make_new(Optional<Expr_list>(), *cons), lex.make_new(Optional<Expr_list>(placement), *cons) };
         const char* what[] = { "enclosure", "construction", "new", "placement-new" };
         for (int k = 0; k < 4; ++k) { PrintCheck pc { out, label + ":" + what[k], R_EXPR, false, {} }; pc.run(lex, [&](Printer& pp) { pp << xpr_expr(*items[k]); }); }
         out.count("enclosure_matrix_cases");
      } });
   }
}

void add_program_cases(std::vector<ForkCase>& cases, Rng& rng, bool thorough)
{
   const int n = thorough ? 1500 : 30;
   for (int k = 0; k < n; ++k) {
      const std::uint64_t seed = rng.next();
      const int preset = k % (n_presets + 2) < n_presets ? k % (n_presets + 2) : 0;
      const bool late = preset && (k / (n_presets + 2)) % 2 == 1;
      cases.push_back({ preset ? "program:stream-preset-" + std::to_string(preset) + (late ? "-after-the-printer-was-built" : "") : std::string("program"), [seed, preset, late](CaseOut& out) {
         Rng r(seed);
         GenOptions o; o.size = 4 + int(r.below(20)); o.max_depth = 2 + int(r.below(8)); o.locations = r.chance(50); o.unsupported = r.chance(40); o.control_bytes = r.chance(40); o.unnamed_udts = r.chance(40);
         Prog P = generate_program(r, o);
         impl::Lexicon lex; impl::Translation_unit unit { lex };
         Exec E(lex, unit); E.run(P);
         auto ctrl = control_bytes_in(lex);
         int idx = 0;
         for (auto& d : unit.global_namespace().scope().elements()) {
            std::string label = std::string("decl:") + cat_name(d.category) + ":generated";
            PrintCheck pc { out, label, R_DECL, true, ctrl, preset, late };
            pc.run(lex, [&](Printer& pp) { pp << xpr_decl(d, true); });
            ++idx;
         }
         for (int t : P.top) {
            const Expr& e = *E.vals[std::size_t(t)].e;
            std::string label = std::string("stmt:") + cat_name(e.category) + ":generated";
            PrintCheck pc { out, label, R_STMT, true, ctrl, preset, late };
            pc.run(lex, [&](Printer& pp) { pp << xpr_stmt(e); });
         }
         {  PrintCheck pc { out, "unit:generated", R_UNIT, true, ctrl, preset, late }; pc.run(lex, [&](Printer& pp) { pp << unit; }); }
         out.count("generated_programs"); out.count("generated_top_level_items", idx + (long long)P.top.size());
      } });
   }
}
} // namespace

// Every number the printer can be asked to write: positions and nesting levels (size_t) and file / line / column (32 bit) at
// every digit-count boundary (9, 10, 99, 100, ..., 10^k - 1, 10^k), every power of two and its neighbours, and the maxima.
// Each must come out as its decimal rendering, nothing else (no control byte, no other base, no padding).
// Lists of every length: call arguments, parameter types of a function type, template-id arguments, base classes, parameters of
// a function declared with its mapping, enumerators, statements of a block -- 0..45 items and lengths around 64, 100, 128, 256.
// Each is printed as a complete top-level item (indentation restored, no stray control bytes, numbers decimal afterwards); the
// text of n items is also compared with the text of n-1 items of the same list: it continues it (apart from the closing part).
void add_list_length_cases(std::vector<ForkCase>& cases)
{
   std::vector<int> lens; for (int n = 0; n <= 45; ++n) lens.push_back(n);
   for (int n : { 63, 64, 65, 99, 100, 101, 127, 128, 129, 255, 256, 257 }) lens.push_back(n);
   for (int n : lens) {
      std::string label = "list-length:" + std::string(n <= 45 ? "0-45" : "long");
      cases.push_back({ label + ":" + std::to_string(n), [n, label](CaseOut& out) {
         impl::Lexicon lex; impl::Translation_unit unit { lex }; const Lexicon& L = lex;
         auto& greg = *unit.global_region();
         std::vector<const Expr*> lits; std::vector<const Type*> tys; std::vector<const Name*> ids;
         const Type* base_t[] = { &L.int_type(), &L.char_type(), &L.double_type(), &lex.get_pointer(L.int_type()), &lex.get_reference(L.char_type()) };
         for (int i = 0; i < n; ++i) { lits.push_back(lex.make_literal(L.int_type(), widen(std::to_string(i)))); tys.push_back(base_t[i % 5]); ids.push_back(&lex.get_identifier(widen("a" + std::to_string(i)))); }
         auto run = [&](const char* shape, Role role, auto&& f) { PrintCheck pc { out, label + ":" + shape, role, true, {} }; pc.run(lex, f); out.count("list_length_items_printed"); };
         // call with n arguments, as a statement
         {  auto* args = lex.make_expr_list(); for (auto e : lits) args->push_back(e);
            auto* call = lex.make_call(*lex.make_id_expr(lex.get_identifier(u8"f")), *args); auto* st = lex.make_expr_stmt(*call);
            run("call-arguments", R_STMT, [&](Printer& pp) { pp << xpr_stmt(*st); }); }
         // variable of a function type with n parameter types; a pointer to it; the same with an exception specification of n types
         {  impl::Warehouse<Type> w; for (auto t : tys) w.push_back(*t);
            auto& prod = lex.get_product(w); auto& ft = lex.get_function(prod, L.void_type()); auto& fts = lex.get_function(prod, L.void_type(), lex.get_sum(w));
            auto* v = unit.global_scope()->make_var(lex.get_identifier(u8"fn"), ft); auto* pv = unit.global_scope()->make_var(lex.get_identifier(u8"pfn"), lex.get_pointer(fts));
            run("function-parameter-types", R_DECL, [&](Printer& pp) { pp << xpr_decl(*v, true); });
            run("exception-specification-types", R_DECL, [&](Printer& pp) { pp << xpr_decl(*pv, true); });
            auto* tv = unit.global_scope()->make_var(lex.get_identifier(u8"tup"), prod);
            run("product-components", R_DECL, [&](Printer& pp) { pp << xpr_decl(*tv, true); }); }
         // template-id with n arguments, as an expression statement
         {  auto* args = lex.make_expr_list(); for (int i = 0; i < n; ++i) args->push_back(i % 2 ? static_cast<const Expr*>(tys[std::size_t(i)]) : lits[std::size_t(i)]);
            auto& tid = lex.get_template_id(*lex.make_id_expr(lex.get_identifier(u8"tmpl")), *args); auto* st = lex.make_expr_stmt(*lex.make_id_expr(tid));
            run("template-id-arguments", R_STMT, [&](Printer& pp) { pp << xpr_stmt(*st); }); }
         // class with n bases and n fields, declared
         {  auto* k = lex.make_class(greg); k->id = &lex.get_identifier(u8"K");
            for (int i = 0; i < n; ++i) { auto* b = lex.make_class(greg); b->id = ids[std::size_t(i)]; k->declare_base(*b); k->declare_field(*ids[std::size_t(i)], *tys[std::size_t(i)]); }
            auto* d = unit.global_scope()->make_typedecl(lex.get_identifier(u8"K"), L.class_type()); d->init = k;
            run("bases-and-members", R_DECL, [&](Printer& pp) { pp << xpr_decl(*d, true); }); }
         // enumeration with n enumerators
         {  auto* en = lex.make_enum(greg, Enum::Kind::Scoped); en->id = &lex.get_identifier(u8"E"); for (int i = 0; i < n; ++i) en->add_member(*ids[std::size_t(i)]);
            auto* d = unit.global_scope()->make_typedecl(lex.get_identifier(u8"E"), L.enum_type()); d->init = en;
            run("enumerators", R_DECL, [&](Printer& pp) { pp << xpr_decl(*d, true); }); }
         // function declared with a mapping of n parameters and a body of n statements
         {  impl::Warehouse<Type> w; for (auto t : tys) w.push_back(*t);
            auto& ft = lex.get_function(lex.get_product(w), L.void_type());
            auto* m = lex.make_mapping(greg, Mapping_level{ 0 }); for (int i = 0; i < n; ++i) m->param(*ids[std::size_t(i)], *tys[std::size_t(i)]);
            auto* blk = lex.make_block(m->parameters().region()); for (int i = 0; i < n; ++i) blk->add_stmt(*lex.make_expr_stmt(*lits[std::size_t(i)]));
            m->body = blk; m->typing = &ft;
            auto* fd = unit.global_scope()->make_fundecl(lex.get_identifier(u8"g"), ft); fd->data.emplace<1>(m);
            run("parameters-and-body-statements", R_DECL, [&](Printer& pp) { pp << xpr_decl(*fd, true); }); }
         // the whole unit in one go
         run("unit", R_UNIT, [&](Printer& pp) { pp << unit; });
         out.count("list_length_cases");
      } });
   }
}

static void number_cases(std::vector<ForkCase>& cases)
{
   std::vector<unsigned long long> vals { 0, 1, 7, 8, 9 };
   for (unsigned long long p = 10; ; p *= 10) { vals.push_back(p - 1); vals.push_back(p); vals.push_back(p + 1); if (p > ~0ull / 10) break; }
   for (int b = 3; b < 64; ++b) { vals.push_back((1ull << b) - 1); vals.push_back(1ull << b); }
   vals.push_back(~0ull); vals.push_back(~0ull - 1); vals.push_back(4000000000ull); vals.push_back(4294967295ull); vals.push_back(4294967296ull);
   ForkCase fc; fc.label = "numbers:every-width";
   fc.run = [vals](CaseOut& out) {
      impl::Lexicon lex; const Lexicon& L = lex;
      for (auto v : vals) {
         {  std::ostringstream os; Printer pp(L, os);
            pp << Decl_position { std::size_t(v) } << Mapping_level { std::size_t(v) };
            const std::string want = std::to_string(std::size_t(v)) + std::to_string(std::size_t(v));
            out.count("numbers_checked", 2);
            if (os.str() != want) out.viol("number-not-rendered-in-decimal:position-or-level", "Decl_position / Mapping_level " + std::to_string(v) + " were written as '" + CaseOut::clean(os.str().substr(0, 50)) + "' (" + std::to_string(os.str().size()) + " bytes)"); }
         if (v <= 0xffffffffull) {
            for (int which = 0; which < 3; ++which) {
               auto* brk = lex.make_break();
               brk->src_locus.file = File_index { which == 0 ? std::uint32_t(v) : 7 }; brk->src_locus.line = Line_number { which == 1 ? std::uint32_t(v) : 5 }; brk->src_locus.column = Column_number { which == 2 ? std::uint32_t(v) : 3 };
               if (brk->src_locus.file == File_index { 0 } || brk->src_locus.line == Line_number { 0 }) continue;       // 0 means "no location"
               std::ostringstream os; Printer pp(L, os); pp.print_locations = true;
               pp << xpr_stmt(*brk);
               std::string want = "F" + std::to_string(std::uint32_t(brk->src_locus.file)) + ":" + std::to_string(std::uint32_t(brk->src_locus.line));
               if (std::uint32_t(brk->src_locus.column) != 0) want += ":" + std::to_string(std::uint32_t(brk->src_locus.column));
               out.count("numbers_checked");
               if (os.str().rfind(want + " ", 0) != 0) out.viol("number-not-rendered-in-decimal:location", "a location with " + std::string(which == 0 ? "file" : which == 1 ? "line" : "column") + " " + std::to_string(v) + " was written as '" + CaseOut::clean(os.str().substr(0, 50)) + "', expected to start with '" + want + " '");
            }
         }
      }
      for (int preset = 1; preset < n_presets; ++preset) {
         std::ostringstream os; apply_preset(os, preset); const auto flags0 = os.flags();
         Printer pp(L, os); pp.print_locations = true;
         auto* brk = lex.make_break(); brk->src_locus.file = File_index { 7001 }; brk->src_locus.line = Line_number { 1234 }; brk->src_locus.column = Column_number { 89 };
         pp << Decl_position { 255 } << Mapping_level { 64 } << xpr_stmt(*brk);
         out.count("numbers_written_to_a_stream_in_a_non_default_formatting_state", 5);
         if (os.flags() != flags0) out.viol("stream-flags-changed:numbers:stream-preset", "writing a position, a level and a location to a stream whose formatting state was not the default changed the stream's flags (before " + std::to_string((long long)flags0) + ", after " + std::to_string((long long)os.flags()) + ")");
      }
      out.eval(0x6e756d62);
   };
   cases.push_back(std::move(fc));
}

static void body(Ctx& C)
{
   C.rule("a case = one item offered to the printer: every node of the all-factories sweep (and of what those nodes hand out) as expression, statement, declaration "
          "and, for types, as type; literals over every single byte, control-byte pairs and random bytes; every delimiter; operator names of every shape; statement "
          "nestings to depth 200 over every nesting construct with handlers, else-branches and labels; generated programs with refused constructs, control bytes and "
          "unnamed types; each in a forked child on a 256 MiB stack; distinct = distinct (role, kind, outcome) triples");
   C.assume("graphs are finite with nesting depth <= 200, so exhausting a 256 MiB stack means recursion unrelated to the graph; the decimal clause is judged on streams handed over in their default state; streams handed over in another formatting state (hex, oct, showbase/uppercase, showpos/boolalpha/scientific, no base) are only required to come back as they were");
   std::vector<ForkCase> cases;
   Rng rng(C.base_seed * 0x9E3779B97F4A7C15ull + 18);     // the SAME case list in every worker (the run's seed, not the worker's): workers share it by index
   // workers share the work by index
   const int sweeps = C.thorough ? 4 : 1;
   for (int s = 0; s < sweeps; ++s) add_sweep_cases(cases, std::make_shared<SweepWorld>(rng.next()));
   add_literal_cases(cases, rng, C.thorough);
   add_delimiter_and_operator_cases(cases);
   add_nesting_cases(cases, rng, C.thorough);
   add_body_matrix_cases(cases);
   add_enclosure_matrix_cases(cases);
   add_list_length_cases(cases);
   add_program_cases(cases, rng, C.thorough);
   std::vector<ForkCase> mine;
   for (std::size_t i = 0; i < cases.size(); ++i) if (int(i % std::size_t(C.workers)) == C.worker) mine.push_back(std::move(cases[i]));
   number_cases(mine);                                     // every worker: cheap
   C.count("cases", (long long)mine.size());
   auto st = run_cases_forked(C, mine, 120);
   (void)st;
   for (auto k : { "outcome:completed", "outcome:refused", "probes", "literal_spellings", "delimiter_cases", "operator_name_cases", "nesting_cases", "generated_programs", "located_statements_printed", "cases_completed", "numbers_checked", "body_matrix_cases", "enclosure_matrix_cases", "list_length_cases", "items_printed_to_a_stream_in_a_non_default_formatting_state", "items_printed_after_the_client_changed_its_stream_behind_a_live_printer", "numbers_written_to_a_stream_in_a_non_default_formatting_state" }) C.need(k);
   C.sample(J().s("case", "expr:Demotion").s("what", "a sweep node of kind Demotion offered as xpr_expr; outcome must be completed or refused(logic_error)").str());
   C.sample(J().s("case", "literal:single-byte 0x01").s("what", "literal whose spelling is byte 1, then 255/64/F7001:1234:89 through the same printer").str());
   C.sample(J().s("case", "nesting:depth-200").s("what", "200 nested if/while/switch/for/labeled/try constructs printed as one statement; indentation restored").str());
}

int main(int argc, char** argv) { return guarded_main(argc, argv, body); }
