// C19 -- destroying a Lexicon frees all its memory; live use never touches dead storage.
// Per iteration: live-heap bytes before; build Lexicon + units + modules, run an everything+growth workload, print,
// destroy in language order; live-heap bytes after must equal before, and LeakSanitizer's recoverable check must be
// silent.  The whole run is under ASan+UBSan (reports fatal), so any touch of dead or out-of-object storage aborts.
// With --valgrind-mode (plain build under memcheck) the same workload runs without the sanitizer interface calls.
#include "sweep_all.hpp"
#include "progs.hpp"
#include "inspect.hpp"
#include "successive.hpp"
#include <sstream>
#include <new>
#include <memory>
#include <fstream>
#include <regex>

#if defined(__SANITIZE_ADDRESS__)
extern "C" std::size_t __sanitizer_get_current_allocated_bytes();
extern "C" int __lsan_do_recoverable_leak_check();
#define VH_HAVE_ASAN 1
#else
#define VH_HAVE_ASAN 0
#endif

using namespace vh;

namespace {
struct Tally { long long tall_tables = 0, tallest_table = 0, decomposed_parts = 0, extension_sets = 0, refused = 0, mirror_requests = 0, unit_names_read = 0, exact_fills = 0, threshold = 0, factory_calls = 0, strings = 0, string_bytes = 0, pools = 0, printed_bytes = 0, units = 0, regions = 0, steps = 0, substitution_queries = 0, deep_nests = 0, deep_nests_beyond_80_columns = 0; };

// the workload of one Lexicon life; everything it allocates dies with this scope
// the Lexicon of every ordinary life is built in this one storage slot (the address a constructor may have remembered)
alignas(impl::Lexicon) unsigned char lexicon_slot[sizeof(impl::Lexicon)];
struct InSlot {                                  // destroyed after everything declared later in the life (units, sweep, modules)
   impl::Lexicon* p;
   InSlot() : p(new (lexicon_slot) impl::Lexicon) { }
   ~InSlot() { p->~Lexicon(); }
};

void one_life(std::uint64_t seed, int flavour, Tally& T)
{
   Rng rng(seed);
   InSlot in_slot;
   impl::Lexicon& lex = *in_slot.p;
   impl::Translation_unit unit { lex };
   const Lexicon& L = lex;
   std::ostringstream os;
   // the same requests at the start and at the end of every life (this Lexicon occupies the storage of the previous one)
   auto mirror = [&] { T.mirror_requests += mirror_requests(lex, [&](const std::string& k, const std::string& m) { ctx().viol(k, m + " (a Lexicon that occupies the storage of an earlier, destroyed one)"); }); };
   mirror();
   if (flavour % 4 != 3) {
      // every factory once or twice, with shadows kept alive until the end of the life
      Sweep S(lex, unit, rng);
      S.run_all();
      if (flavour % 2) S.run_all();
      T.factory_calls += (long long)S.made.size();
      for (auto& m : S.made) { Ck ck; Sweep::run_check(m, ck); }
      Printer pp(L, os);
      for (auto& m : S.made) if (auto e = dynamic_cast<const Expr*>(m.node)) { try { pp << xpr_expr(*e); } catch (const std::logic_error&) { } }
   }
   {  // a generated program, built, printed (with and without locations)
      GenOptions o; o.size = 5 + int(rng.below(flavour % 5 == 0 ? 120 : 25)); o.max_depth = 2 + int(rng.below(6)); o.locations = true; o.unsupported = rng.chance(30); o.control_bytes = rng.chance(30); o.noise = true;
      Prog P = generate_program(rng, o);
      Exec E(lex, unit); E.run(P);
      T.steps += (long long)P.steps.size();
      for (int loc = 0; loc < 2; ++loc) {
         for (auto& d : unit.global_namespace().scope().elements()) { Printer pp(L, os); pp.print_locations = loc; try { pp << xpr_decl(d, true); } catch (const std::logic_error&) { } }
         Printer pp(L, os); try { pp << unit; } catch (const std::logic_error&) { }
      }
   }
   {  // statements nested 20..75 blocks deep (indentation far beyond one line's worth of columns), printed as a statement, inside a
      // function body and inside nested namespaces; what the printer reads to indent must be live storage at any depth
      const int depth = 20 + (flavour * 7 + ctx().worker) % 56;
      impl::Block* outer = lex.make_block(*unit.global_region()); impl::Block* cur = outer;
      for (int d = 0; d < depth; ++d) { auto* in = lex.make_block(cur->lexical_region); in->add_stmt(*lex.make_expr_stmt(*lex.make_literal(L.int_type(), widen(std::to_string(d))))); cur->add_stmt(*in); cur = in; }
      impl::Namespace* nsp = nullptr; impl::Region* reg = unit.global_region();
      for (int d = 0; d < depth / 2; ++d) { nsp = lex.make_namespace(*reg); nsp->id = &lex.get_identifier(widen("deep" + std::to_string(d))); auto* td = reg->declare_alias(lex.get_identifier(widen("deep" + std::to_string(d))), *nsp); (void)td; reg = &nsp->body; }
      reg->declare_var(lex.get_identifier(u8"innermost"), L.int_type());
      for (int loc = 0; loc < 2; ++loc) {
         Printer pp(L, os); pp.print_locations = loc;
         try { pp << xpr_stmt(*outer); } catch (const std::logic_error&) { }
         try { pp << unit; } catch (const std::logic_error&) { }
      }
      ++T.deep_nests; if (depth >= 27) ++T.deep_nests_beyond_80_columns;
   }
   {  // substitutions of every size from 0 to 33 bindings (every capacity boundary of a small flat container on the way), bound in
      // ascending, descending or random parameter order, and applied after every binding to every parameter of the pool: the bound
      // ones, and unbound ones that lie below, between and above the bound ones in memory
      auto* m = lex.make_mapping(*unit.global_region(), Mapping_level{ 0 });
      std::vector<const Parameter*> ps;
      for (int i = 0; i < 36; ++i) ps.push_back(m->param(lex.get_identifier(widen("sp" + std::to_string(i))), L.int_type()));
      std::vector<const Parameter*> by_addr = ps; std::sort(by_addr.begin(), by_addr.end(), std::less<const Parameter*>());
      auto* g = lex.make_general_substitution();
      std::vector<const Parameter*> order(by_addr.begin() + 1, by_addr.end() - 2);          // the lowest and the two highest stay unbound
      if (flavour % 3 == 1) std::reverse(order.begin(), order.end());
      if (flavour % 3 == 2) for (std::size_t i = order.size(); i > 1; --i) std::swap(order[i - 1], order[rng.below(i)]);
      std::map<const Parameter*, const Expr*> model;
      const Substitution& sub = *g;
      for (std::size_t k = 0; k <= order.size(); ++k) {
         for (auto p : ps) { auto it = model.find(p); const Expr* want = it != model.end() ? it->second : static_cast<const Expr*>(p); ++T.substitution_queries; if (&sub[*p] != want) ctx().viol("substitution:wrong-answer", "a general substitution of " + std::to_string(model.size()) + " bindings gave a wrong answer"); }
         if (k < order.size()) { const Expr* v = lex.make_literal(L.int_type(), widen(std::to_string(k))); g->subst(*order[k], *v); model[order[k]] = v; }
      }
   }
   if (flavour % 3 == 0) {
      // strings: every small length, pool roll-overs, oversize words, equal re-interning
      const auto& arena = Inspector::arena(Inspector::strings(static_cast<const impl::name_factory&>(lex)));
      std::string w;
      for (int n = 0; n < 200; ++n) { w.assign(std::size_t(n), char('a' + n % 26)); lex.get_string(widen(w)); ++T.strings; T.string_bytes += n; }
      const int target_pools = 2 + int(rng.below(3));
      long long serial = 0;
      while (Inspector::arena_pools(arena) < target_pools && serial < 400) {
         w = "w" + std::to_string(serial++); w.resize(20000 + rng.below(45000), char('a' + serial % 26));
         lex.get_identifier(widen(w)); ++T.strings; T.string_bytes += (long long)w.size();
      }
      for (std::size_t n : { std::size_t(65535), std::size_t(65536), std::size_t(65537), std::size_t(1 << 20), std::size_t((1 << 20) + 1), std::size_t(2500000) }) {
         w.assign(n, char('A' + n % 26)); lex.get_string(widen(w)); lex.get_string(widen(w)); T.strings += 2; T.string_bytes += (long long)n;
         lex.get_string(widen("after" + std::to_string(n)));
      }
      // every length around the allocator's two thresholds (oversize test at 65536 bytes; byte capacity of a pool 2^20 less
      // the 8-byte length field), shared out over the lives by `flavour`
      for (std::size_t n = 65536 - 24; n <= 65536 + 40; ++n) if (n % 16 == std::size_t(flavour / 3 + ctx().worker * 7) % 16) { w.assign(n, char('a' + n % 26)); lex.get_string(widen(w)); ++T.strings; T.string_bytes += (long long)n; ++T.threshold; }
      for (std::size_t n = (1u << 20) - 40; n <= (1u << 20) + 24; ++n) if (n % 16 == std::size_t(flavour / 3 + ctx().worker * 7) % 16) { w.assign(n, char('a' + n % 26)); lex.get_string(widen(w)); lex.get_string(widen("t" + std::to_string(n))); ++T.strings; T.string_bytes += (long long)n; ++T.threshold; }
      T.pools += Inspector::arena_pools(arena);
   }
   if (flavour % 4 == 1) {
      // every unified type table grows; scopes with many overload sets; deep regions
      std::vector<const Type*> ts { &L.int_type(), &L.char_type(), &L.double_type() };
      for (int i = 0; i < 600; ++i) {
         const Type& t = *ts[rng.below(ts.size())];
         const Type* n = nullptr;
         switch (i % 8) {
         case 0: n = &lex.get_pointer(t); break; case 1: n = &lex.get_reference(t); break; case 2: n = &lex.get_rvalue_reference(t); break;
         case 3: n = &lex.get_qualified(Qualifiers(1 + rng.below(7)), t); break; case 4: n = &lex.get_array(t, *lex.make_literal(L.int_type(), widen(std::to_string(i)))); break;
         case 5: { impl::Warehouse<Type> w; for (int k = 0; k < int(rng.below(5)); ++k) w.push_back(*ts[rng.below(ts.size())]); auto& p = lex.get_product(w); n = &lex.get_function(p, t); lex.get_sum(w); lex.get_forall(p, t); break; }
         case 6: n = &lex.get_as_type(*lex.make_literal(t, widen(std::to_string(i)))); break;
         default: n = &lex.get_decltype(*lex.make_id_expr(lex.get_identifier(widen("d" + std::to_string(i))))); break;
         }
         ts.push_back(n);
      }
      impl::Region* r = unit.global_region();
      for (int d = 0; d < 300; ++d) { r = r->make_subregion(); r->declare_var(lex.get_identifier(widen("v" + std::to_string(d % 40))), *ts[rng.below(ts.size())]); ++T.regions; }
      auto* cls = lex.make_class(*unit.global_region());
      for (int i = 0; i < 400; ++i) { cls->declare_field(lex.get_identifier(widen("f" + std::to_string(i))), *ts[rng.below(ts.size())]); if (i % 7 == 0) cls->declare_base(*cls); }
      auto* en = lex.make_enum(*unit.global_region(), Enum::Kind::Scoped);
      for (int i = 0; i < 3000; ++i) en->add_member(lex.get_identifier(widen("e" + std::to_string(i))));
      auto* mp = lex.make_mapping(*unit.global_region(), Mapping_level { 1 });
      for (int i = 0; i < 500; ++i) mp->param(lex.get_identifier(widen("p" + std::to_string(i))), *ts[rng.below(ts.size())]);
      auto* sub = lex.make_general_substitution();
      for (auto& p : mp->parameters().elements()) sub->subst(p, *ts[rng.below(ts.size())]);
   }
   if (flavour % 5 == 2) {
      // modules with many units, each with its own global namespace, destroyed before the Lexicon
      std::list<impl::Module> modules;
      for (int m = 0; m < 4; ++m) {
         modules.emplace_back(lex);
         auto& mod = modules.back();
         mod.stems.components.push_back(&lex.get_identifier(widen("mod" + std::to_string(m))));
         int nu = 1 + int(rng.below(12));
         for (int u = 0; u < nu; ++u) { auto* mu = mod.make_unit(); mu->global_scope()->make_var(lex.get_identifier(u8"x"), L.int_type()); mu->global_region()->make_subregion(); ++T.units;
            if (auto id = util::view<Identifier>(mu->global_namespace().name())) { volatile std::size_t k = id->string().characters().size(); (void)k; ++T.unit_names_read; } }
         if (auto id = util::view<Identifier>(mod.iface.global_namespace().name())) { volatile std::size_t k = id->string().characters().size(); (void)k; ++T.unit_names_read; }
         mod.iface.global_scope()->make_var(lex.get_identifier(u8"exported"), L.int_type());
      }
      std::list<impl::Translation_unit> more;
      for (int u = 0; u < 5; ++u) { more.emplace_back(lex); more.back().global_scope()->make_typedecl(lex.get_identifier(u8"T"), L.class_type()); ++T.units; }
   }
   {  // requests the library refuses (each is documented to raise): the client catches and carries on.  Whatever a refused
      // request had begun to build is returned with everything else when the Lexicon dies.
      auto refused = [&](auto f) { try { f(); } catch (...) { ++T.refused; } };
      const Type* base[] = { &L.int_type(), &lex.get_pointer(L.char_type()), &lex.get_qualified(Qualifiers(1 + rng.below(7)), L.double_type()), &lex.get_as_type(*lex.make_literal(L.int_type(), u8"7")) };
      const int reps = 2 + int(rng.below(7));
      for (int i = 0; i < reps; ++i) for (auto t : base) refused([&] { (void)&lex.get_qualified(Qualifiers{ }, *t); });
      for (auto w : { u8"not-a-specifier", u8"int", u8"Const", u8"" }) {
         refused([&] { (void)L.specifiers(Basic_specifier{ lex.get_logogram(lex.get_string(w)) }); });
         refused([&] { (void)L.qualifiers(Basic_qualifier{ lex.get_logogram(lex.get_string(w)) }); });
      }
      auto& members = unit.global_scope()->elements();
      for (std::size_t k : { members.size(), members.size() + 1, ~std::size_t(0) }) refused([&] { (void)&*members.position(k); });
      { impl::Warehouse<Type> none; auto& p = lex.get_product(none); refused([&] { (void)&*p.operand().position(0); }); refused([&] { (void)&p[1]; }); }
      refused([&] { (void)&lex.make_id_expr(lex.get_identifier(u8"untyped"))->type(); });
      refused([&] { (void)&lex.make_phantom()->type(); });
      refused([&] { (void)&lex.make_class(*unit.global_region())->name(); });
      refused([&] { (void)&unit.global_scope()->make_var(lex.get_identifier(u8"no_initializer"), L.int_type())->initializer().get(); });
      refused([&] { auto* cls = lex.make_class(*unit.global_region()); (void)&cls->declare_base(*cls)->initializer().get(); });
   }
   {  // specifier and qualifier sets carrying coordinates outside the Lexicon's own basis (the interface keeps both spaces open
      // for extensions: a vendor's qualifier, a front end's private specifier bit): decomposed directly, and decomposed by the
      // printer for a declaration and a qualified type that carry them.  Every single bit, and random masks.
      long long parts = 0;
      for (int b = 0; b < 64; ++b) {
         parts += (long long)L.decompose(Specifiers(std::uintptr_t(1) << b)).size() + (long long)L.decompose(Qualifiers(std::uintptr_t(1) << b)).size();
         parts += (long long)L.decompose(Specifiers((std::uintptr_t(1) << b) | std::uintptr_t(rng.next()))).size() + (long long)L.decompose(Qualifiers((std::uintptr_t(1) << b) | std::uintptr_t(rng.next() & 0xff))).size();
      }
      parts += (long long)L.decompose(Specifiers(~std::uintptr_t(0))).size() + (long long)L.decompose(Qualifiers(~std::uintptr_t(0))).size();
      T.decomposed_parts += parts; T.extension_sets += 4 * 64 + 2;
      auto* holder = lex.make_namespace(*unit.global_region());
      for (int k = 0; k < 6; ++k) {
         const std::uintptr_t sbits = (std::uintptr_t(1) << (18 + rng.below(46))) | std::uintptr_t(rng.below(1 << 18)), qbits = (std::uintptr_t(1) << (3 + rng.below(61))) | std::uintptr_t(rng.below(8));
         auto* v = holder->body.scope.make_var(lex.get_identifier(widen("ext" + std::to_string(k))), lex.get_qualified(Qualifiers(qbits), k % 2 ? L.int_type() : static_cast<const Type&>(lex.get_pointer(L.char_type()))));
         v->specifiers(Specifiers(sbits));
         Printer pp(L, os); try { pp << xpr_decl(*v, true); } catch (const std::logic_error&) { }
         try { pp << xpr_type(v->type()); } catch (const std::logic_error&) { }
         T.extension_sets += 2;
      }
   }
   mirror();
   // what every unit of this life is named by (nodes the unit itself fetched from the Lexicon when it was built)
   {
      auto touch_name = [&](const ipr::Translation_unit& u) { auto& n = u.global_namespace().name(); if (auto id = util::view<Identifier>(n)) { volatile std::size_t k = id->string().characters().size(); (void)k; } volatile auto c = u.global_namespace().type().category; (void)c; ++T.unit_names_read; };
      touch_name(unit);
   }
   T.printed_bytes += (long long)os.str().size();
}

// two Lexicons whose lives overlap; the older one is destroyed first, the younger one is then used (shadows re-read, printed)
// and destroyed: everything a Lexicon hands out must live in that Lexicon or in the process-wide constants
void two_overlapping_lives(std::uint64_t seed, Tally& T)
{
   Rng ra(seed), rb(seed ^ 0x9e3779b97f4a7c15ull);
   auto la = std::make_unique<impl::Lexicon>(); auto ua = std::make_unique<impl::Translation_unit>(*la);
   auto sa = std::make_unique<Sweep>(*la, *ua, ra); sa->run_all();
   auto lb = std::make_unique<impl::Lexicon>(); auto ub = std::make_unique<impl::Translation_unit>(*lb);
   auto sb = std::make_unique<Sweep>(*lb, *ub, rb); sb->run_all();
   T.factory_calls += (long long)(sa->made.size() + sb->made.size());
   sa.reset(); ua.reset(); la.reset();
   std::ostringstream os;
   for (auto& m : sb->made) { Ck ck; Sweep::run_check(m, ck); }
   { const Lexicon& L = *lb; Printer pp(L, os); for (auto& m : sb->made) if (auto e = dynamic_cast<const Expr*>(m.node)) { try { pp << xpr_expr(*e); } catch (const std::logic_error&) { } } try { pp << *ub; } catch (const std::logic_error&) { } }
   sb->run_all();
   for (auto& m : sb->made) { Ck ck; Sweep::run_check(m, ck); }
   T.printed_bytes += (long long)os.str().size();
   sb.reset(); ub.reset(); lb.reset();
}

// a Lexicon whose string pools are filled exactly to their last granule: by one word of 2^20 - 8 bytes interned first, and
// by 8-byte words only (one granule each) until two pools have rolled over; then destroyed
void exact_fill_life(std::uint64_t seed, int variant, Tally& T)
{
   Rng rng(seed);
   impl::Lexicon lex;
   if (variant % 2 == 0) {
      std::string w((std::size_t(1) << 20) - 8, char('a' + seed % 26));
      lex.get_string(widen(w)); ++T.strings; T.string_bytes += (long long)w.size();
      for (int i = 0; i < 50; ++i) { lex.get_identifier(widen("after" + std::to_string(i))); ++T.strings; }
   } else {
      char buf[9];
      for (int i = 0; i < 140000; ++i) { std::snprintf(buf, sizeof buf, "%08x", unsigned(i) * 2654435761u); lex.get_string(util::word_view(reinterpret_cast<const char8_t*>(buf), 8)); }
      T.strings += 140000; T.string_bytes += 8 * 140000;
   }
   const auto& arena = Inspector::arena(Inspector::strings(static_cast<const impl::name_factory&>(lex)));
   T.pools += Inspector::arena_pools(arena);
   ++T.exact_fills;
}

// A Lexicon ONE of whose tables grows very large (hundreds of thousands of entries) with its keys arriving in strictly descending,
// strictly ascending or organ-pipe order of what the table sorts by (operand addresses / spellings): the tallest and the most
// lopsided trees the unification tables can become.  Destroyed like any other: every node of the table is returned.
void tall_table_life(std::uint64_t seed, int variant, long long entries, Tally& T)
{
   Rng rng(seed);
   impl::Lexicon lex; impl::Translation_unit unit { lex };
   const int order = variant % 3, table = (variant / 3) % 3;
   auto arrange = [&](auto& v) {                // ascending as built; descending; organ pipe
      std::sort(v.begin(), v.end());
      if (order == 1) std::reverse(v.begin(), v.end());
      else if (order == 2) { auto w = v; std::size_t lo = 0, hi = w.size(); for (std::size_t i = 0; i < w.size(); ++i) v[i] = (i % 2 == 0) ? w[lo++] : w[--hi]; }
   };
   if (table == 0) {                            // pointer types over place-holder types, by pointee address
      std::vector<const Type*> ts; ts.reserve(std::size_t(entries));
      for (long long i = 0; i < entries; ++i) ts.push_back(&lex.get_auto());
      arrange(ts);
      for (auto t : ts) lex.get_pointer(*t);
   } else if (table == 1) {                     // identifiers, by spelling
      std::vector<std::string> ws; ws.reserve(std::size_t(entries));
      char buf[16];
      for (long long i = 0; i < entries; ++i) { std::snprintf(buf, sizeof buf, "t%09lld", i); ws.emplace_back(buf); }
      arrange(ws);
      for (auto& w : ws) lex.get_identifier(widen(w));
      T.strings += entries;
   } else {                                     // one scope's overload sets, by name address
      std::vector<const Name*> ns; ns.reserve(std::size_t(entries / 4));
      char buf[16];
      for (long long i = 0; i < entries / 4; ++i) { std::snprintf(buf, sizeof buf, "s%09lld", i); ns.push_back(&lex.get_identifier(widen(std::string(buf)))); }
      arrange(ns);
      auto* holder = lex.make_namespace(*unit.global_region());
      const Lexicon& L = lex;
      for (auto n : ns) holder->body.scope.make_var(*n, L.int_type());
   }
   T.factory_calls += 2 * entries; ++T.tall_tables; T.tallest_table = std::max(T.tallest_table, table == 2 ? entries / 4 : entries);
}

// keys for the leak report blocks this process has written so far (log_path=$VERIF_OUTDIR/san.<pid>)
std::vector<std::pair<std::string, std::string>> leak_keys(std::size_t& consumed)
{
   std::vector<std::pair<std::string, std::string>> out;
   const char* od = std::getenv("VERIF_OUTDIR");
   if (!od) return out;
   std::ifstream in(std::string(od) + "/san." + std::to_string(getpid()));
   std::string all((std::istreambuf_iterator<char>(in)), std::istreambuf_iterator<char>());
   std::string fresh = all.substr(std::min(consumed, all.size()));
   consumed = all.size();
   static const std::regex block("(Direct|Indirect) leak of [0-9]+ byte\\(s\\) in [0-9]+ object\\(s\\) allocated from:\n((?:\\s+#[0-9]+ [^\n]*\n)+)");
   for (auto it = std::sregex_iterator(fresh.begin(), fresh.end(), block); it != std::sregex_iterator(); ++it) {
      std::string frames = (*it)[2];
      std::string fn = "no-ipr-frame";
      std::smatch m;
      if (std::regex_search(frames, m, std::regex("in (ipr::[^\n]*?) (/|\\()"))) fn = m[1];
      // strip template arguments and parameter lists: a stable name of the allocating function
      std::string flat; int depth = 0;
      for (char c : fn) { if (c == '<') ++depth; else if (c == '>') --depth; else if (depth == 0) { if (c == '(') break; flat += c; } }
      out.emplace_back(std::string((*it)[1]) == "Direct" ? "direct:" + flat : "indirect:" + flat, it->str().substr(0, 600));
   }
   return out;
}
} // namespace

static void body(Ctx& C)
{
   bool valgrind_mode = false;
   if (const char* v = std::getenv("VERIF_VALGRIND_MODE")) valgrind_mode = *v == '1';
   C.rule("a case = one Lexicon life: construction of Lexicon, units and modules, an everything+growth workload (all-factories sweep with shadows re-read, a generated program "
          "built and printed with and without locations, strings across pool roll-overs and oversize sizes, every unified type table grown, deep regions, large member lists, "
          "substitutions, modules with many units), then destruction in language order; live-heap bytes after must equal before and LeakSanitizer's recoverable leak check must be "
          "silent; ASan+UBSan reports are fatal throughout; distinct = distinct (seed, flavour)");
   C.assume("single-threaded; the harness allocates nothing that outlives a life between the two readings; one warm-up life is run first so that one-time library initialisation (locale, iostream) is not counted");
   Rng seeds(C.seed);
   const int lives = valgrind_mode ? 12 : (C.thorough ? 1500 : 40);
   Tally T;
   std::size_t consumed = 0;
   { Tally warm; one_life(seeds.next(), 0, warm); one_life(seeds.next(), 1, warm); one_life(seeds.next(), 2, warm); }
#if VH_HAVE_ASAN
   (void)__lsan_do_recoverable_leak_check();       // whatever the warm-up left is reported once, below, through the keys
   {
      auto ks = leak_keys(consumed);
      for (auto& [k, text] : ks) C.viol("leak:" + k, "LeakSanitizer: memory allocated on behalf of a Lexicon is still allocated after its destruction (" + k + ")", J().s("report", text).str());
   }
#endif
   const long long tall_entries = valgrind_mode ? 20000 : (C.thorough ? 700000 : 300000);
   for (int i = 0; i < lives; ++i) {
      const std::uint64_t seed = seeds.next();
      const int flavour = i;
#if VH_HAVE_ASAN
      const std::size_t b0 = __sanitizer_get_current_allocated_bytes();
#endif
      if (flavour == 2) tall_table_life(seed, C.worker + (C.thorough ? int(seed % 9) : 0), tall_entries, T);
      else if (flavour % 5 == 4) two_overlapping_lives(seed, T); else if (flavour % 7 == 6) exact_fill_life(seed, flavour / 7, T); else one_life(seed, flavour, T);      // (nothing of the harness's own is allocated between the two readings)
#if VH_HAVE_ASAN
      const std::size_t b1 = __sanitizer_get_current_allocated_bytes();
      const int leaked = __lsan_do_recoverable_leak_check();
      if (b1 != b0)
         C.viol("retained-bytes-after-destruction", "live heap grew by " + std::to_string((long long)b1 - (long long)b0) + " bytes across the life of a Lexicon (construction, use, destruction)",
                J().n("seed", (long long)seed).n("flavour", flavour % 60).n("bytes_before", (long long)b0).n("bytes_after", (long long)b1).str());
      if (leaked) {
         auto ks = leak_keys(consumed);
         if (ks.empty()) C.viol("leak:unparsed-report", "LeakSanitizer reported leaks after a Lexicon was destroyed");
         for (auto& [k, text] : ks) C.viol("leak:" + k, "LeakSanitizer: memory allocated on behalf of a Lexicon is still allocated after its destruction (" + k + ")", J().s("report", text).str());
      }
      C.count("byte_accounting_checks"); C.count("lsan_checks");
#endif
      C.count("lexicon_lives"); if (flavour % 5 == 4) C.count("overlapping_lexicon_pairs");
      C.eval(hash_mix(seed, std::uint64_t(flavour)));
#if VH_HAVE_ASAN
      if (i < 3) C.sample(J().s("kind", "lexicon-life").n("seed", (long long)seed).n("flavour", flavour).n("live_heap_bytes_before", (long long)b0).n("live_heap_bytes_after_destruction", (long long)b1)
                          .n("lsan_reported", leaked).n("factory_calls_so_far", T.factory_calls).n("strings_interned_so_far", T.strings).n("printed_bytes_so_far", T.printed_bytes).str(), 3);
#endif
      // LeakSanitizer symbolises every block of every report: once the same defect has been witnessed on several lives
      // further lives only repeat it (and are slow); stop, the violation is already recorded
      if (C.total_viols >= 12 && i >= 3) { C.count("stopped_early_after_repeated_violations"); break; }
   }
   C.count("factory_calls", T.factory_calls); C.count("strings_interned", T.strings); C.count("string_bytes", T.string_bytes); C.count("string_pools_at_destruction", T.pools);
   C.count("printed_bytes", T.printed_bytes); C.count("extra_units_and_module_units", T.units); C.count("nested_regions", T.regions); C.count("program_steps", T.steps); C.count("strings_at_allocator_threshold_lengths", T.threshold); C.count("lives_filling_string_pools_exactly", T.exact_fills); C.count("unit_names_read", T.unit_names_read); C.count("mirror_requests_at_both_ends_of_a_life", T.mirror_requests); C.count("requests_refused_during_a_life", T.refused); C.count("lives_with_one_very_large_table", T.tall_tables); C.maxi("largest_single_table_destroyed", T.tallest_table); C.count("specifier_and_qualifier_sets_with_extension_coordinates_decomposed_or_printed", T.extension_sets); C.count("names_obtained_by_decomposition", T.decomposed_parts); C.count("substitutions_of_every_size_applied_to_bound_and_unbound_parameters", T.substitution_queries); C.count("deeply_nested_items_printed", T.deep_nests); C.count("items_printed_with_indentation_beyond_80_columns", T.deep_nests_beyond_80_columns);
   for (auto k : { "lexicon_lives", "factory_calls", "strings_interned", "string_pools_at_destruction", "printed_bytes", "extra_units_and_module_units", "nested_regions", "program_steps" }) C.need(k);
   C.need("overlapping_lexicon_pairs"); C.need("items_printed_with_indentation_beyond_80_columns"); C.need("substitutions_of_every_size_applied_to_bound_and_unbound_parameters"); C.need("lives_filling_string_pools_exactly"); C.need("unit_names_read"); C.need("mirror_requests_at_both_ends_of_a_life"); C.need("requests_refused_during_a_life"); C.need("lives_with_one_very_large_table"); C.need("specifier_and_qualifier_sets_with_extension_coordinates_decomposed_or_printed");
   if (!valgrind_mode) { C.need("byte_accounting_checks"); C.need("lsan_checks"); }
}

int main(int argc, char** argv) { return guarded_main(argc, argv, body); }
