// Requests whose operands are process-wide constants (or spellings), so that the very same request can be made of one Lexicon
// after another.  `mirror_requests` makes every such request, checks that the answer is a live node of the right shape, makes
// another request of the same constructor, repeats the first and checks that the same node comes back.  Called at the start
// and at the end of a Lexicon's life, it makes each constructor's first request in a new Lexicon equal to its last request in
// the previous one: whatever a constructor remembers across Lexicons (per thread, per address) shows.
#ifndef VERIF_SUCCESSIVE_HPP
#define VERIF_SUCCESSIVE_HPP
#include "common.hpp"
#include "reserved.hpp"
#include <ipr/impl>
#include <functional>
namespace vh {
// report(key, message) on a discrepancy; returns the number of requests made
inline long long mirror_requests(ipr::impl::Lexicon& lex, const std::function<void(const std::string&, const std::string&)>& report)
{
   using namespace ipr;
   const Lexicon& L = lex;
   long long n = 0;
   auto twice = [&](const char* what, auto first, auto other, auto usable) {
      const auto* a = &first(); usable(*a);
      (void)&other();
      const auto* b = &first(); usable(*b);
      n += 3;
      if (a != b) report(std::string("successive:not-unified:") + what, std::string(what) + ": the same request, repeated after one other request of the same constructor, returned another node (the first answer did not come from this Lexicon's own table)");
   };
   auto& i = L.int_type(); auto& c = L.char_type(); auto& t = L.true_value(); auto& f = L.false_value();
   twice("get_pointer", [&]() -> auto& { return lex.get_pointer(i); }, [&]() -> auto& { return lex.get_pointer(c); }, [&](auto& x) { if (&x.points_to() != &i) report("successive:operand:get_pointer", "get_pointer(int) does not point to int"); });
   twice("get_reference", [&]() -> auto& { return lex.get_reference(i); }, [&]() -> auto& { return lex.get_reference(c); }, [&](auto& x) { if (&x.refers_to() != &i) report("successive:operand:get_reference", "get_reference(int) does not refer to int"); });
   twice("get_rvalue_reference", [&]() -> auto& { return lex.get_rvalue_reference(i); }, [&]() -> auto& { return lex.get_rvalue_reference(c); }, [&](auto& x) { if (&x.refers_to() != &i) report("successive:operand:get_rvalue_reference", "get_rvalue_reference(int) does not refer to int"); });
   twice("get_qualified", [&]() -> auto& { return lex.get_qualified(Qualifiers(1), i); }, [&]() -> auto& { return lex.get_qualified(Qualifiers(2), i); }, [&](auto& x) { if (&x.main_variant() != &i || std::uintptr_t(x.qualifiers()) != 1) report("successive:operand:get_qualified", "get_qualified(const, int) is not const int"); });
   twice("get_array", [&]() -> auto& { return lex.get_array(i, t); }, [&]() -> auto& { return lex.get_array(i, f); }, [&](auto& x) { if (&x.element_type() != &i || &x.bound() != &t) report("successive:operand:get_array", "get_array(int, true) does not report its operands"); });
   twice("get_ptr_to_member", [&]() -> auto& { return lex.get_ptr_to_member(i, c); }, [&]() -> auto& { return lex.get_ptr_to_member(c, i); }, [&](auto& x) { if (&x.containing_type() != &i || &x.member_type() != &c) report("successive:operand:get_ptr_to_member", "get_ptr_to_member(int, char) does not report its operands"); });
   twice("get_as_type", [&]() -> auto& { return lex.get_as_type(t); }, [&]() -> auto& { return lex.get_as_type(f); }, [&](auto& x) { if (&x.expr() != &t) report("successive:operand:get_as_type", "get_as_type(true) does not report its operand"); });
   twice("get_conversion", [&]() -> auto& { return lex.get_conversion(i); }, [&]() -> auto& { return lex.get_conversion(c); }, [&](auto& x) { if (&x.target() != &i) report("successive:operand:get_conversion", "get_conversion(int) does not report its operand"); });
   twice("get_ctor_name", [&]() -> auto& { return lex.get_ctor_name(i); }, [&]() -> auto& { return lex.get_ctor_name(c); }, [&](auto& x) { if (&x.object_type() != &i) report("successive:operand:get_ctor_name", "get_ctor_name(int) does not report its operand"); });
   twice("get_dtor_name", [&]() -> auto& { return lex.get_dtor_name(i); }, [&]() -> auto& { return lex.get_dtor_name(c); }, [&](auto& x) { if (&x.object_type() != &i) report("successive:operand:get_dtor_name", "get_dtor_name(int) does not report its operand"); });
   twice("get_string", [&]() -> auto& { return lex.get_string(u8"mirror word"); }, [&]() -> auto& { return lex.get_string(u8"mirror other"); }, [&](auto& x) { if (narrow(x.characters()) != "mirror word") report("successive:operand:get_string", "get_string does not return the characters asked for"); });
   twice("get_identifier", [&]() -> auto& { return lex.get_identifier(u8"mirror_id"); }, [&]() -> auto& { return lex.get_identifier(u8"mirror_i2"); }, [&](auto& x) { if (narrow(x.string().characters()) != "mirror_id") report("successive:operand:get_identifier", "get_identifier does not return the spelling asked for"); });
   twice("get_identifier(empty)", [&]() -> auto& { return lex.get_identifier(u8""); }, [&]() -> auto& { return lex.get_identifier(u8"x"); }, [&](auto& x) { if (!x.string().characters().empty()) report("successive:operand:get_identifier", "get_identifier(\"\") is not spelled empty"); });
   twice("get_operator", [&]() -> auto& { return lex.get_operator(u8"<=>"); }, [&]() -> auto& { return lex.get_operator(u8"+"); }, [&](auto& x) { if (narrow(x.opname().characters()) != "<=>") report("successive:operand:get_operator", "get_operator does not return the spelling asked for"); });
   twice("get_literal", [&]() -> auto& { return lex.get_literal(i, u8"42"); }, [&]() -> auto& { return lex.get_literal(c, u8"42"); }, [&](auto& x) { if (&x.type() != &i || narrow(x.string().characters()) != "42") report("successive:operand:get_literal", "get_literal(int, 42) does not report its operands"); });
   twice("get_linkage", [&]() -> auto& { return lex.get_linkage(u8"Java"); }, [&]() -> auto& { return lex.get_linkage(u8"Fortran"); }, [&](auto& x) { if (narrow(x.language().what().characters()) != "Java") report("successive:operand:get_linkage", "get_linkage(Java) is not spelled Java"); });
   twice("get_calling_convention", [&]() -> auto& { return lex.get_calling_convention(u8"cdecl"); }, [&]() -> auto& { return lex.get_calling_convention(u8"stdcall"); }, [&](auto& x) { if (narrow(x.name().what().characters()) != "cdecl") report("successive:operand:get_calling_convention", "get_calling_convention(cdecl) is not spelled cdecl"); });
   twice("get_transfer_from_linkage", [&]() -> auto& { return lex.get_transfer_from_linkage(L.c_linkage()); }, [&]() -> auto& { return lex.get_transfer_from_linkage(lex.get_linkage(u8"Java")); }, [&](auto& x) { if (!(x.linkage() == L.c_linkage())) report("successive:operand:get_transfer_from_linkage", "the transfer for C linkage does not report C linkage"); });
   {  impl::Warehouse<Type> w; w.push_back(i); impl::Warehouse<Type> w2; w2.push_back(c);
      twice("get_product", [&]() -> auto& { return lex.get_product(w); }, [&]() -> auto& { return lex.get_product(w2); }, [&](auto& x) { if (x.size() != 1 || &x[0] != &i) report("successive:operand:get_product", "get_product({int}) does not report its element"); });
      twice("get_sum", [&]() -> auto& { return lex.get_sum(w); }, [&]() -> auto& { return lex.get_sum(w2); }, [&](auto& x) { if (x.size() != 1 || &x[0] != &i) report("successive:operand:get_sum", "get_sum({int}) does not report its element"); });
      impl::Warehouse<Type> w0;
      twice("get_product(empty)", [&]() -> auto& { return lex.get_product(w0); }, [&]() -> auto& { return lex.get_product(w2); }, [&](auto& x) { if (x.size() != 0) report("successive:operand:get_product", "the empty product has elements"); });
      auto& p = lex.get_product(w);
      twice("get_function", [&]() -> auto& { return lex.get_function(p, i); }, [&]() -> auto& { return lex.get_function(p, c); }, [&](auto& x) { if (&x.source() != &p || &x.target() != &i) report("successive:operand:get_function", "get_function does not report its operands"); });
      twice("get_forall", [&]() -> auto& { return lex.get_forall(p, i); }, [&]() -> auto& { return lex.get_forall(p, c); }, [&](auto& x) { if (&x.source() != &p || &x.target() != &i) report("successive:operand:get_forall", "get_forall does not report its operands"); }); }
   {  auto& id = lex.get_identifier(u8"mirror_id");
      twice("get_symbol", [&]() -> auto& { return lex.get_symbol(id, i); }, [&]() -> auto& { return lex.get_symbol(id, c); }, [&](auto& x) { if (&x.name() != &id || &x.type() != &i) report("successive:operand:get_symbol", "get_symbol does not report its operands"); });
      twice("get_label", [&]() -> auto& { return lex.get_label(id); }, [&]() -> auto& { return lex.get_label(lex.get_identifier(u8"mirror_i2")); }, [&](auto& x) { if (&x.name() != &id) report("successive:operand:get_label", "get_label does not report its name"); });
      twice("get_suffix", [&]() -> auto& { return lex.get_suffix(id); }, [&]() -> auto& { return lex.get_suffix(lex.get_identifier(u8"mirror_i2")); }, [&](auto& x) { if (&x.name() != &id) report("successive:operand:get_suffix", "get_suffix does not report its identifier"); });
      twice("get_this", [&]() -> auto& { return lex.get_this(i); }, [&]() -> auto& { return lex.get_this(c); }, [&](auto& x) { if (&x.type() != &i) report("successive:operand:get_this", "get_this(int) does not report its type"); }); }
   return n;
}
}
#endif
