// C16 -- substitutions behave as finite maps from parameters to expressions.
// Monitor: binding history vs std::map reference model, queried for every parameter of the pool
// (inside and outside the domain) after every binding.
#include "sweep_all.hpp"
#include <map>

using namespace vh;
using namespace ipr;

static void body(Ctx& C)
{
   C.rule("a case = one substitution history: a pool of 1..200 parameters over several mappings (some at one level), lambdas, requires-"
          "expressions and function declarators (look-alike parameters: same name, type, level and position in different lists), a sequence of 0..2000 bindings with ~30% rebinding, including binding a parameter to itself and to another "
          "parameter; after every binding every parameter of the pool is queried and compared with a std::map model (latest binding, "
          "else the parameter itself); single look-ups are interleaved with the bindings (of the parameter about to be bound, right before and right after, repeated, of others); elementary substitutions: one binding, every pool parameter queried; non-trivial = >= 2 parameters");
   C.need("elementary_queries_in_domain"); C.need("elementary_queries_outside_domain"); C.need("general_queries_in_domain");
   C.need("general_queries_outside_domain"); C.need("rebindings"); C.need("self_bindings"); C.need("parameter_lists"); C.need("parameters_with_a_default"); C.need("chained_bindings"); C.need("histories_binding_values_of_every_factory_kind");
   C.need("lookup_of_an_unbound_parameter_right_before_its_first_binding"); C.need("lookup_of_a_bound_parameter_right_before_its_rebinding"); C.need("lookup_right_after_the_binding"); C.need("same_lookup_repeated"); C.need("values_handed_over_as_parameters"); C.need("values_that_are_parameters_already_in_the_domain"); C.need("one_parameter_asked_of_several_substitutions_in_turn"); C.need("lookup_of_another_parameter");
   std::set<int> value_kinds;
   Rng seeds(C.seed);
   const int nhist = C.thorough ? 6000 : 120;
   for (int h = 0; h < nhist; ++h) {
      Rng rng(seeds.next());
      impl::Lexicon lex;
      impl::Translation_unit unit { lex };
      const Lexicon& L = lex;
      auto& greg = *unit.global_region();
      // parameter pool over several lists
      std::vector<const Parameter*> pool;
      int np = rng.chance(8) ? 200 : 1 + int(rng.below(24));
      int nlists = 1 + int(rng.below(4));
      std::vector<impl::Mapping*> maps;
      for (int i = 0; i < nlists; ++i) maps.push_back(lex.make_mapping(greg, Mapping_level{ std::size_t(i) }));
      // parameter lists of every kind of owner, several of each, some at the SAME nesting level: parameters of different lists
      // that agree in name, type, level and position are still different parameters (lambdas and mappings own their parameter
      // region, requires-expressions and function declarators do not)
      std::vector<impl::Parameter_list*> others;
      for (int i = 0; i < 2 + int(rng.below(2)); ++i) others.push_back(&lex.make_lambda(greg, Mapping_level{ 7 })->inputs);
      for (int i = 0; i < 2 + int(rng.below(3)); ++i) others.push_back(&lex.make_requires(greg, Mapping_level{ std::size_t(8 + i % 2) })->formals);
      for (int i = 0; i < 2 + int(rng.below(2)); ++i) others.push_back(&greg.make_function_morphism(greg, Mapping_level{ 0 })->inputs);
      if (rng.chance(50)) for (int i = 0; i < 2; ++i) maps.push_back(lex.make_mapping(greg, Mapping_level{ 1 }));       // two more mappings at one level
      const int nmaps = int(maps.size());
      const Type* tys[] = { &L.int_type(), &L.typename_type(), &L.double_type() };
      for (int i = 0; i < np; ++i) {
         std::string s = "p" + std::to_string(i % 5);        // names repeat across lists on purpose
         auto& id = lex.get_identifier(std::u8string_view(reinterpret_cast<const char8_t*>(s.data()), s.size()));
         int which = int(rng.below(std::uint64_t(nmaps) + others.size()));
         const Type& t = *tys[rng.below(3)];
         if (which < nmaps) pool.push_back(maps[std::size_t(which)]->param(id, t));
         else pool.push_back(others[std::size_t(which - nmaps)]->add_member(id, t));
      }
      {  // make sure look-alikes exist: the first parameter of every list (same position 0), same name and type
         auto& id0 = lex.get_identifier(u8"p0");
         for (auto m : maps) if (m->parameters().size() == 0) pool.push_back(m->param(id0, L.int_type()));
         for (auto o : others) if (o->size() == 0) pool.push_back(o->add_member(id0, L.int_type()));
         C.count("parameter_lists", (long long)(maps.size() + others.size()));
      }
      // some parameters carry a default argument (a value, or another parameter): a substitution knows nothing about defaults
      {
         std::vector<const Expr*> defaults;
         for (int i = 0; i < 4; ++i) { std::string d = "default" + std::to_string(i); defaults.push_back(lex.make_literal(L.int_type(), std::u8string_view(reinterpret_cast<const char8_t*>(d.data()), d.size()))); }
         for (auto p : pool) if (rng.chance(40)) { const_cast<impl::Parameter*>(static_cast<const impl::Parameter*>(p))->init = rng.chance(80) ? defaults[rng.below(4)] : static_cast<const Expr*>(rng.pick(pool)); C.count("parameters_with_a_default"); }
      }
      np = int(pool.size());
      std::vector<const Expr*> values;
      for (int i = 0; i < 12; ++i) { std::string s = std::to_string(i); values.push_back(lex.make_literal(L.int_type(), std::u8string_view(reinterpret_cast<const char8_t*>(s.data()), s.size()))); }
      values.push_back(&L.int_type()); values.push_back(&L.true_value()); values.push_back(lex.make_phantom());
      // values of every kind the factories make (the all-factories sweep run in this Lexicon): a substitution hands back the very
      // expression that was bound, whatever kind of node it is -- a type, the type-view of an expression, a name, a declaration
      if (h % 3 == 0) {
         Sweep S(lex, unit, rng); S.run_all();
         for (auto& m : S.made) if (m.node) if (auto e = dynamic_cast<const Expr*>(m.node)) { values.push_back(e); value_kinds.insert(int(e->category)); }
         for (auto e : S.P.exprs) { values.push_back(&lex.get_as_type(*e)); values.push_back(&lex.get_as_type(*e, lex.get_transfer(lex.get_linkage(u8"C"), lex.get_calling_convention(u8"")))); }
         for (auto q : pool) if (rng.chance(30)) values.push_back(&lex.get_as_type(*q));
         C.count("histories_binding_values_of_every_factory_kind");
      }
      auto where = [&](int step) { return J().n("history", h).n("parameters", np).n("step", step).str(); };
      // -- elementary substitutions
      struct Elem { const Substitution* s; const Parameter* p; const Expr* v; };
      std::vector<Elem> elems;
      for (int e = 0; e < 6; ++e) {
         const Parameter& p = (e % 2 && !elems.empty()) ? *elems.back().p : *rng.pick(pool);      // pairs binding the same parameter to different values
         const Parameter* evp = rng.chance(25) ? rng.pick(pool) : nullptr;
         if (rng.chance(10)) evp = &p;
         const Expr* v = evp ? static_cast<const Expr*>(evp) : rng.pick(values);
         const Substitution& s = evp ? (e % 2 ? *lex.make_elementary_substitution(p, *evp) : *lex.make_elementary_substitution(p, static_cast<const impl::Parameter&>(*evp))) : *lex.make_elementary_substitution(p, *v);
         elems.push_back({ &s, &p, v });
         for (auto q : pool) {
            const Expr& r = s[*q];
            if (q == &p) { C.count("elementary_queries_in_domain"); if (&r != v) C.viol("elementary:bound-parameter-not-mapped-to-value", "an elementary substitution does not yield its value for its parameter", where(-1)); }
            else { C.count("elementary_queries_outside_domain"); if (&r != static_cast<const Expr*>(q)) C.viol("elementary:other-parameter-changed", "an elementary substitution changed a parameter outside its domain", where(-1)); }
         }
      }
      // the same parameter asked of different substitutions in turn: what one answered says nothing about the next
      for (int k = 0; k < 40; ++k) {
         const Parameter* q = rng.chance(50) ? rng.pick(elems).p : rng.pick(pool);
         for (int j = 0; j < 3; ++j) {
            const Elem& e = rng.pick(elems);
            const Expr* want = q == e.p ? e.v : static_cast<const Expr*>(q);
            C.count("one_parameter_asked_of_several_substitutions_in_turn");
            if (&(*e.s)[*q] != want) C.viol("elementary:alternating-substitutions", "an elementary substitution asked right after another one for the same parameter gave a wrong answer", where(-2));
         }
      }
      // -- general substitution
      impl::General_substitution& g = *lex.make_general_substitution();
      impl::General_substitution& untouched = *lex.make_general_substitution();
      impl::General_substitution& g2 = *lex.make_general_substitution();
      std::map<const Parameter*, const Expr*> model, model2;
      int steps = rng.chance(5) ? 2000 : int(rng.below(60));
      if (np > 100) steps = std::min(steps, 300);
      auto query_all = [&](int step) {
         const Substitution& s = g;
         for (auto q : pool) {
            const Expr& r = s[*q];
            auto it = model.find(q);
            if (it != model.end()) { C.count("general_queries_in_domain"); if (&r != it->second) C.viol("general:not-latest-binding", "a general substitution does not yield the latest binding of a parameter", where(step)); }
            else { C.count("general_queries_outside_domain"); if (&r != static_cast<const Expr*>(q)) C.viol("general:unbound-parameter-changed", "a general substitution changed a parameter it does not bind", where(step)); }
            if (&static_cast<const Substitution&>(untouched)[*q] != static_cast<const Expr*>(q)) C.viol("general:independent-substitution-affected", "binding in one substitution changed another", where(step));
         }
      };
      // a single look-up is an operation of the history too: the answer for q must be the model's whatever was asked just before
      // (the same parameter, another one, nothing) and whatever was bound since
      auto query_one = [&](const Parameter* q, int step, const char* when) {
         const Expr& r = static_cast<const Substitution&>(g)[*q];
         auto it = model.find(q);
         const Expr* want = it != model.end() ? it->second : static_cast<const Expr*>(q);
         C.count(when);
         if (&r != want) C.viol(std::string("general:single-lookup:") + when, "a look-up placed between bindings does not yield the latest binding (or the parameter itself when unbound)", where(step));
      };
      query_all(0);
      for (int i = 0; i < steps; ++i) {
         const Parameter* p = (!model.empty() && rng.chance(30)) ? std::next(model.begin(), rng.below(model.size()))->first : rng.pick(pool);
         // look-ups right before the binding: of the parameter about to be bound (unbound or bound so far), of others, repeated
         const int before = int(rng.below(4));
         if (before >= 1) query_one(p, i, model.count(p) ? "lookup_of_a_bound_parameter_right_before_its_rebinding" : "lookup_of_an_unbound_parameter_right_before_its_first_binding");
         if (before == 2) query_one(p, i, "same_lookup_repeated");
         if (before == 3) { query_one(rng.pick(pool), i, "lookup_of_another_parameter"); if (rng.chance(50)) query_one(p, i, "same_lookup_repeated"); }
         // the value is often a parameter itself, handed over under its own static type (ipr::Parameter, impl::Parameter) as a client
         // holding a parameter would write it: one already in the domain (renaming chains, swaps), one outside it, the bound one
         const Parameter* vp = nullptr;
         if (rng.chance(30)) vp = (!model.empty() && rng.chance(60)) ? std::next(model.begin(), rng.below(model.size()))->first : rng.pick(pool);
         const Expr* v = vp ? static_cast<const Expr*>(vp) : rng.pick(values);
         if (rng.chance(8)) { vp = p; v = p; C.count("self_bindings"); }
         if (model.count(p)) C.count("rebindings");
         if (vp && model.count(vp)) C.count("values_that_are_parameters_already_in_the_domain");
         // what subst returns is the substitution itself: further bindings may be given through it (chained calls)
         static unsigned long form = 0;
         auto&& ret = !vp ? g.subst(*p, *v) : (++form % 3 == 0) ? g.subst(*p, static_cast<const Expr&>(*vp)) : (form % 3 == 1) ? g.subst(*p, *vp) : g.subst(*p, static_cast<const impl::Parameter&>(*vp));
         if (vp) C.count("values_handed_over_as_parameters");
         if (static_cast<const void*>(&ret) != static_cast<const void*>(&g)) C.viol("general:subst-return", "subst does not return the substitution itself", where(i));
         model[p] = v;
         // a second general substitution living beside the first: bound to other values, asked in turn with the first
         if (rng.chance(30)) {
            const Parameter* p2 = rng.chance(50) ? p : rng.pick(pool); const Expr* v2 = rng.pick(values);
            if (rng.chance(50)) { g2.subst(*p2, *v2); model2[p2] = v2; }
            auto it2 = model2.find(p); const Expr* want2 = it2 != model2.end() ? it2->second : static_cast<const Expr*>(p);
            C.count("one_parameter_asked_of_several_substitutions_in_turn");
            if (&static_cast<const Substitution&>(g2)[*p] != want2) C.viol("general:second-substitution", "a second general substitution gave a wrong answer for a parameter just bound in the first", where(i));
         }
         // ... and right after it, before anything else is asked
         if (before >= 1 || rng.chance(50)) query_one(p, i, "lookup_right_after_the_binding");
         if (rng.chance(30)) { const Parameter* q = rng.pick(pool); query_one(q, i, "lookup_of_another_parameter"); query_one(p, i, "lookup_right_after_the_binding"); }
         if (rng.chance(25)) {
            const Parameter* p2 = rng.pick(pool); const Expr* v2 = rng.pick(values); const Parameter* p3 = rng.pick(pool); const Expr* v3 = rng.pick(values);
            g.subst(*p2, *v2).subst(*p3, *v3);
            model[p2] = v2; model[p3] = v3; C.count("chained_bindings", 2);
         }
         C.count("bindings");
         if (steps <= 100 || i % 16 == 0) query_all(i + 1);
      }
      query_all(steps);
      C.eval(hash_mix(rng.next(), hash_mix(np, steps)), np >= 2);
      C.maxi("node_kinds_of_bound_values", (long long)value_kinds.size());
      if (h == 0) C.sample(J().s("kind", "history").n("parameters", np).n("lists", nlists + 2).n("bindings", steps).n("bound_at_end", (long long)model.size()).str());
   }
}

int main(int argc, char** argv) { return guarded_main(argc, argv, body); }
