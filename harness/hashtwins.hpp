// Pairs of different, equally long words with the same std::hash<u8string_view> value, obtained by inverting the per-block step
// of libstdc++'s 64-bit byte hash (f(k) = shift_mix(k*mul)*mul; flipping bit 63 of f() on two blocks leaves the hash unchanged).
// Every pair is verified with std::hash before it is handed out; on another hash the list is empty (callers report that).
#ifndef VERIF_HASHTWINS_HPP
#define VERIF_HASHTWINS_HPP
#include <cstdint>
#include <cstring>
#include <functional>
#include <string>
#include <string_view>
#include <utility>
#include <vector>
namespace vh {
inline std::vector<std::pair<std::string, std::string>> hash_twins(std::uint64_t seed, int count)
{
   constexpr std::uint64_t MUL = (std::uint64_t(0xc6a4a793UL) << 32) + 0x5bd1e995UL;
   auto shift_mix = [](std::uint64_t v) { return v ^ (v >> 47); };
   std::uint64_t IM = MUL; for (int i = 0; i < 6; ++i) IM *= 2 - MUL * IM;
   auto f = [&](std::uint64_t k) { return shift_mix(k * MUL) * MUL; };
   auto finv = [&](std::uint64_t d) { return shift_mix(d * IM) * IM; };
   std::vector<std::pair<std::string, std::string>> out;
   std::hash<std::u8string_view> hs;
   for (int i = 0; i < count * 4 && int(out.size()) < count; ++i) {
      std::uint64_t k1 = (seed += 0x9E3779B97F4A7C15ull) * 0xBF58476D1CE4E5B9ull, k2 = (seed += 0x9E3779B97F4A7C15ull) * 0x94D049BB133111EBull;
      std::uint64_t t1 = finv(f(k1) ^ (std::uint64_t(1) << 63)), t2 = finv(f(k2) ^ (std::uint64_t(1) << 63));
      std::string a(16, '\0'), b(16, '\0');
      std::memcpy(a.data(), &k1, 8); std::memcpy(a.data() + 8, &k2, 8); std::memcpy(b.data(), &t1, 8); std::memcpy(b.data() + 8, &t2, 8);
      std::string tail = i % 3 == 0 ? "" : i % 3 == 1 ? "_x" : "tail";
      a += tail; b += tail;
      auto va = std::u8string_view(reinterpret_cast<const char8_t*>(a.data()), a.size()), vb = std::u8string_view(reinterpret_cast<const char8_t*>(b.data()), b.size());
      if (a != b && hs(va) == hs(vb)) out.emplace_back(a, b);
   }
   return out;
}

// A word of the SAME LENGTH and the same std::hash<u8string_view> value as `target`, different from it (empty when the target has
// fewer than 9 bytes - its hash then involves no block that could absorb a change - or when this platform's hash is another one).
// The last byte is replaced by `last`; the first 8-byte block is then solved for, running the hash backwards from the target's
// state before the final mixing.  The result is verified with std::hash before it is handed out.
inline std::string same_length_hash_twin(const std::string& target, unsigned char last)
{
   constexpr std::uint64_t MUL = (std::uint64_t(0xc6a4a793UL) << 32) + 0x5bd1e995UL, SEED = 0xc70f6907UL;
   auto shift_mix = [](std::uint64_t v) { return v ^ (v >> 47); };
   std::uint64_t IM = MUL; for (int i = 0; i < 6; ++i) IM *= 2 - MUL * IM;
   auto f = [&](std::uint64_t k) { return shift_mix(k * MUL) * MUL; };
   auto finv = [&](std::uint64_t d) { return shift_mix(d * IM) * IM; };
   const std::size_t n = target.size();
   if (n < 9 || static_cast<unsigned char>(target[n - 1]) == last) return "";
   auto tail_of = [&](const std::string& w) { std::uint64_t t = 0; for (std::size_t j = n; j-- > (n & ~std::size_t(7)); ) t = (t << 8) + static_cast<unsigned char>(w[j]); return t; };
   // state of the target before the final mixing
   std::uint64_t h = SEED ^ (std::uint64_t(n) * MUL);
   for (std::size_t i = 0; i + 8 <= n; i += 8) { std::uint64_t k; std::memcpy(&k, target.data() + i, 8); h = (h ^ f(k)) * MUL; }
   if (n & 7) { h ^= tail_of(target); h *= MUL; }
   std::string w = target; w[n - 1] = char(last);
   // backwards through the twin's tail and its blocks 2.. to the state required after block 1
   std::uint64_t s = h;
   if (n & 7) { s = (s * IM) ^ tail_of(w); }
   for (std::size_t i = (n & ~std::size_t(7)); i > 8; i -= 8) { std::uint64_t k; std::memcpy(&k, w.data() + i - 8, 8); s = (s * IM) ^ f(k); }
   const std::uint64_t h0 = SEED ^ (std::uint64_t(n) * MUL);
   const std::uint64_t k1 = finv((s * IM) ^ h0);
   std::memcpy(w.data(), &k1, 8);
   std::hash<std::u8string_view> hs;
   auto v = [](const std::string& x) { return std::u8string_view(reinterpret_cast<const char8_t*>(x.data()), x.size()); };
   if (w == target || hs(v(w)) != hs(v(target))) return "";
   return w;
}
}
#endif
