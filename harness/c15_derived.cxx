// C15 -- derived interface operations agree with the primitives they are defined from.
// Both sides are evaluated on the same node and compared by identity / value.  Nodes come from the
// all-factories sweep (and everything those nodes hand out) plus purpose-built states: empty / singleton /
// many members, with and without handlers, with and without initializer.
#include "sweep_all.hpp"
#include "collect.hpp"

using namespace vh;

namespace {
struct Mon {
   Ctx& C;
   std::set<std::string> kinds_seen;

   void bad(const std::string& key, const std::string& msg) { C.viol(key, msg); }

   // Sequence<T>: emptiness, size, begin/end, position, iteration
   template<class T>
   void seq(const char* owner, const Sequence<T>& s)
   {
      C.count("sequence_checks");
      const std::size_t n = s.size();
      kinds_seen.insert(std::string("seq:") + owner + (n == 0 ? ":empty" : n == 1 ? ":singleton" : ":many"));
      C.eval(hash_mix(hash_bytes(owner), n));
      if (s.empty() != (n == 0)) bad(std::string("sequence:empty-vs-size:") + owner, "empty() disagrees with size() == 0 (size " + std::to_string(n) + ")");
      if (!(s.begin() == s.position(0))) bad(std::string("sequence:begin-vs-position0:") + owner, "begin() is not position(0)");
      if (!(s.end() == s.position(n))) bad(std::string("sequence:end-vs-position-size:") + owner, "end() is not position(size())");
      if ((s.begin() == s.end()) != (n == 0)) bad(std::string("sequence:begin-eq-end:") + owner, "begin() == end() disagrees with size() == 0");
      // an iterator is a (sequence, position) pair: equal positions of one sequence are equal iterators, different positions
      // are not, and no position of this sequence equals the same position of ANOTHER sequence object of the same length
      {
         struct Other final : Sequence<T> { std::size_t n; explicit Other(std::size_t k) : n(k) { } typename Sequence<T>::Index size() const override { return n; } const T& get(typename Sequence<T>::Index) const override { throw std::logic_error("an element of the harness's stand-in sequence was read"); } };
         const Other other(n);
         C.count("iterator_equality_checks");
         for (std::size_t i : { std::size_t(0), n / 2, n }) {
            if (!(s.position(i) == s.position(i)) || s.position(i) != s.position(i)) bad(std::string("sequence:iterator-equality:same-position-unequal:") + owner, "two iterators at the same position of one sequence do not compare equal");
            if (s.position(i) == other.position(i) || !(s.position(i) != other.position(i))) bad(std::string("sequence:iterator-equality:other-sequence-equal:") + owner, "an iterator compares equal to the iterator at the same position of another sequence object");
            if (i != n - i && (s.position(i) == s.position(n - i) || !(s.position(i) != s.position(n - i)))) bad(std::string("sequence:iterator-equality:different-positions-equal:") + owner, "iterators at different positions of one sequence compare equal");
         }
         if (s.begin() == other.begin() || s.end() == other.end()) bad(std::string("sequence:iterator-equality:other-sequence-equal:") + owner, "begin() / end() compare equal to those of another sequence object of the same length");
         // position(i) is the pair (sequence, i) for every i, also beyond the current end (such an iterator is not dereferenced):
         // it is what end() becomes after i - size() increments, and no two of them are equal
         {  auto e1 = s.end(); ++e1; auto e2 = e1; ++e2;
            if (!(s.position(n + 1) == e1) || !(s.position(n + 2) == e2) || s.position(n + 1) == s.end() || s.position(n + 1) == s.position(n + 2) || s.position(n + 3) == s.position(n))
               bad(std::string("sequence:position-beyond-end:") + owner, "position(size() + k) is not end() advanced k times (or compares equal to another position)"); }
      }
      std::size_t steps = 0;
      auto it = s.begin();
      const std::size_t cap = std::min<std::size_t>(n, 600);
      for (; steps < cap && it != s.end(); ++it, ++steps) {
         const T* a = &*it; const T* b = &*s.position(steps); const T* c = it.operator->();
         if (a != b || a != c) { bad(std::string("sequence:iteration-vs-position:") + owner, "element " + std::to_string(steps) + " reached by iteration is not the one at position(" + std::to_string(steps) + ")"); break; }
      }
      if (n <= 600) {
         if (steps != n || it != s.end()) bad(std::string("sequence:iteration-count:") + owner, "iteration from begin() to end() visits " + std::to_string(steps) + " elements, size() is " + std::to_string(n));
         if (std::size_t(std::distance(s.begin(), s.end())) != n) bad(std::string("sequence:distance:") + owner, "distance(begin, end) != size()");
      }
      // backwards from end
      if (n > 0) {
         auto e = s.end(); --e;
         if (&*e != &*s.position(n - 1)) bad(std::string("sequence:decrement:") + owner, "--end() is not the last element");
         auto p = s.begin(); auto q = p++; if (!(q == s.begin()) || !(p == s.position(1))) bad(std::string("sequence:postincrement:") + owner, "post-increment misbehaves");
      }
      // a random walk of one and the same iterator object over the sequence with all four moves (++it, it++, --it, it--),
      // dereferenced (both * and ->) before and after every move: it always designates the element at its index
      if (n >= 2) {
         std::size_t idx = n / 2; auto w = s.position(idx);
         std::uint64_t x = 0x9e3779b97f4a7c15ull * (n + 1);
         for (int k = 0; k < 40; ++k) {
            if (&*w != &*s.position(idx) || w.operator->() != &*s.position(idx)) { bad(std::string("sequence:walk:before-move:") + owner, "an iterator does not designate the element at its index"); break; }
            x ^= x << 13; x ^= x >> 7; x ^= x << 17;
            int mv = int(x % 4);
            if ((mv < 2 && idx + 1 >= n) || (mv >= 2 && idx == 0)) mv = (mv + 2) % 4;
            const char* name = mv == 0 ? "pre-increment" : mv == 1 ? "post-increment" : mv == 2 ? "pre-decrement" : "post-decrement";
            if (mv == 0) { ++w; ++idx; } else if (mv == 1) { auto old = w++; if (&*old != &*s.position(idx)) { bad(std::string("sequence:walk:returned-copy:") + owner, "the copy returned by a post-increment does not designate the old element"); break; } ++idx; }
            else if (mv == 2) { --w; --idx; } else { auto old = w--; if (&*old != &*s.position(idx)) { bad(std::string("sequence:walk:returned-copy:") + owner, "the copy returned by a post-decrement does not designate the old element"); break; } --idx; }
            C.count("iterator_walk_moves");
            if (&*w != &*s.position(idx) || w.operator->() != &*s.position(idx)) { bad(std::string("sequence:walk:after-") + name + ":" + owner, std::string("after a ") + name + " of an iterator that had been dereferenced, it does not designate the element at its new index"); break; }
         }
      }
      // The standard iterator algorithms, which choose their implementation by the iterator's declared category (single steps for a
      // bidirectional iterator, one jump for a random-access one), forwards and through std::reverse_iterator: a jump of k lands
      // where k single steps land.  Whatever arithmetic the iterator itself offers (+=, -=, +, -, [], difference, <) is judged the
      // same way when it exists.
      if (n >= 1) {
         using It = decltype(s.begin());
         auto at = [&](std::size_t i) { return &*s.position(i); };
         const std::size_t ks[] = { 0, 1, 2, n / 2, n - 1 };
         for (std::size_t k : ks) {
            if (k >= n) continue;
            C.count("iterator_jumps");
            if (&*std::next(s.begin(), std::ptrdiff_t(k)) != at(k)) bad(std::string("sequence:jump:next:") + owner, "std::next(begin(), k) is not position(k)");
            if (&*std::prev(s.end(), std::ptrdiff_t(k + 1)) != at(n - 1 - k)) bad(std::string("sequence:jump:prev:") + owner, "std::prev(end(), k+1) is not position(size-1-k)");
            { auto it = s.position(n - 1); std::advance(it, -std::ptrdiff_t(k)); if (&*it != at(n - 1 - k)) bad(std::string("sequence:jump:advance-backwards:") + owner, "std::advance(it, -k) from the last element is not position(size-1-k)"); }
            if (std::distance(s.begin(), s.position(k)) != std::ptrdiff_t(k)) bad(std::string("sequence:jump:distance:") + owner, "distance(begin(), position(k)) != k");
            auto rb = std::make_reverse_iterator(s.end());
            if (&*std::next(rb, std::ptrdiff_t(k)) != at(n - 1 - k)) bad(std::string("sequence:jump:reverse-next:") + owner, "std::next(reverse begin, k) is not position(size-1-k)");
            { auto r = rb; std::advance(r, std::ptrdiff_t(k)); auto single = rb; for (std::size_t j = 0; j < k; ++j) ++single; if (&*r != &*single) bad(std::string("sequence:jump:reverse-advance:") + owner, "a reverse iterator advanced by k is not where k single steps lead"); }
            { auto re = std::make_reverse_iterator(s.begin()); if (&*std::prev(re, std::ptrdiff_t(k + 1)) != at(k)) bad(std::string("sequence:jump:reverse-prev:") + owner, "std::prev(reverse end, k+1) is not position(k)"); }
            if constexpr (requires(It i, std::ptrdiff_t d) { i += d; i -= d; }) {
               C.count("iterator_arithmetic_checks");
               { It i = s.begin(); i += std::ptrdiff_t(k); if (&*i != at(k)) bad(std::string("sequence:arithmetic:+=:") + owner, "begin() += k is not position(k)"); }
               { It i = s.end(); i -= std::ptrdiff_t(k + 1); if (&*i != at(n - 1 - k)) bad(std::string("sequence:arithmetic:-=:") + owner, "end() -= k+1 is not position(size-1-k)"); }
               { It i = s.position(n - 1); i += -std::ptrdiff_t(k); if (&*i != at(n - 1 - k)) bad(std::string("sequence:arithmetic:+=negative:") + owner, "+= -k from the last element is not position(size-1-k)"); }
               { It i = s.position(0); i -= -std::ptrdiff_t(k); if (&*i != at(k)) bad(std::string("sequence:arithmetic:-=negative:") + owner, "-= -k from the first element is not position(k)"); }
            }
            if constexpr (requires(It i, std::ptrdiff_t d) { i + d; i - d; }) {
               if (&*(s.begin() + std::ptrdiff_t(k)) != at(k)) bad(std::string("sequence:arithmetic:+:") + owner, "begin() + k is not position(k)");
               if (&*(s.end() - std::ptrdiff_t(k + 1)) != at(n - 1 - k)) bad(std::string("sequence:arithmetic:-:") + owner, "end() - (k+1) is not position(size-1-k)");
            }
            if constexpr (requires(It i, std::ptrdiff_t d) { i[d]; }) { if (&s.begin()[std::ptrdiff_t(k)] != at(k)) bad(std::string("sequence:arithmetic:[]:") + owner, "begin()[k] is not position(k)"); }
            if constexpr (requires(It i, It j) { i - j; }) {
               if ((s.position(k) - s.begin()) != std::ptrdiff_t(k) || (s.begin() - s.position(k)) != -std::ptrdiff_t(k) || (s.end() - s.begin()) != std::ptrdiff_t(n)) bad(std::string("sequence:arithmetic:difference:") + owner, "the difference of two iterators is not the difference of their positions");
            }
            if constexpr (requires(It i, It j) { i < j; i > j; i <= j; i >= j; }) {
               const bool lt = s.begin() < s.position(k), gt = s.position(k) > s.begin(), le = s.begin() <= s.position(k), ge = s.position(k) >= s.begin();
               if (lt != (k > 0) || gt != (k > 0) || !le || !ge || s.end() < s.begin() || !(s.end() > s.position(k))) bad(std::string("sequence:arithmetic:order:") + owner, "the order of two iterators is not the order of their positions");
            }
         }
      }
   }
   template<class A, class B>
   void same_seq(const char* what, const Sequence<A>& a, const Sequence<B>& b)
   {
      C.count("derived_checks");
      if (a.size() != b.size()) { bad(std::string("derived:") + what + ":size", std::string(what) + ": sizes differ (" + std::to_string(a.size()) + " vs " + std::to_string(b.size()) + ")"); return; }
      auto ia = a.begin(); auto ib = b.begin();
      for (std::size_t i = 0; i < a.size() && i < 600; ++i, ++ia, ++ib)
         if (static_cast<const Node*>(&*ia) != static_cast<const Node*>(&*ib)) { bad(std::string("derived:") + what + ":element", std::string(what) + ": element " + std::to_string(i) + " differs"); return; }
   }
   void same(const char* what, const void* a, const void* b)
   {
      C.count("derived_checks");
      if (a != b) bad(std::string("derived:") + what, std::string(what) + ": the convenience operation does not return what its defining primitive returns");
   }
   void eq(const char* what, long long a, long long b)
   {
      C.count("derived_checks");
      if (a != b) bad(std::string("derived:") + what, std::string(what) + ": " + std::to_string(a) + " vs " + std::to_string(b));
   }
   template<class F, class G> void same_or_both_throw(const char* what, F f, G g)
   {
      const void* a = nullptr; const void* b = nullptr; bool ta = false, tb = false;
      try { a = f(); } catch (const std::logic_error&) { ta = true; }
      try { b = g(); } catch (const std::logic_error&) { tb = true; }
      C.count("derived_checks");
      if (ta != tb) bad(std::string("derived:") + what + ":one-side-refuses", std::string(what) + ": one side raises logic_error, the other returns");
      else if (!ta && a != b) bad(std::string("derived:") + what, std::string(what) + ": the convenience operation does not return what its defining primitive returns");
   }

   template<class P> void product_like(const char* what, const P& p)
   {
      kinds_seen.insert(what);
      seq(what, p.elements());
      eq((std::string(what) + ".size").c_str(), (long long)p.size(), (long long)p.elements().size());
      same((std::string(what) + ".elements-vs-operand").c_str(), &p.elements(), &p.operand());
      for (std::size_t i = 0; i < p.size() && i < 600; ++i) same((std::string(what) + ".operator[]").c_str(), &p[i], &*p.elements().position(i));
   }
   template<class U> void udt(const char* what, const U& u)
   {
      kinds_seen.insert(what);
      same((std::string(what) + ".scope-vs-region.bindings").c_str(), &u.scope(), &u.region().bindings());
      seq((std::string(what) + ".members").c_str(), u.members());
      scope((std::string(what) + ".scope").c_str(), u.scope());
   }
   template<class U> void udt_decl_members(const char* what, const U& u)
   {
      udt(what, u);
      same((std::string(what) + ".members-vs-scope.elements").c_str(), &u.members(), &u.scope().elements());
      same_seq((std::string(what) + ".members-vs-region.bindings.elements").c_str(), u.members(), u.region().bindings().elements());
   }
   void scope(const char* what, const Scope& s)
   {
      seq(what, s.elements());
      eq((std::string(what) + ".size").c_str(), (long long)s.size(), (long long)s.elements().size());
      C.count("derived_checks", 2);
      if (!(s.begin() == s.elements().begin())) bad(std::string("derived:") + what + ".begin", "Scope::begin() is not elements().begin()");
      if (!(s.end() == s.elements().end())) bad(std::string("derived:") + what + ".end", "Scope::end() is not elements().end()");
   }
   void type_linkage(const Type& t)
   {
      same_or_both_throw("Type.linkage-vs-transfer.linkage", [&] { return (const void*)&t.linkage(); }, [&] { return (const void*)&t.transfer().linkage(); });
   }

   void node(const Node& n)
   {
      struct V : Constant_visitor<No_op> {
         Mon& m; explicit V(Mon& mm) : m(mm) { }
         void visit(const Type& t) override { m.type_linkage(t); }
         void visit(const String& s) override
         {
            m.kinds_seen.insert("String"); m.C.count("derived_checks", 3);
            if (s.size() != s.characters().size()) m.bad("derived:String.size", "String::size() != characters().size()");
            if (s.begin() != s.characters().begin() || s.end() != s.characters().end()) m.bad("derived:String.begin-end", "String::begin()/end() are not those of characters()");
            if (!(s == s)) m.bad("derived:String.eq-reflexive", "a String does not equal itself");
         }
         void visit(const Product& p) override { m.type_linkage(p); m.product_like("Product", p); }
         void visit(const Sum& p) override { m.type_linkage(p); m.product_like("Sum", p); }
         void visit(const Expr_list& l) override
         {
            m.kinds_seen.insert("Expr_list"); m.seq("Expr_list", l.elements());
            m.eq("Expr_list.size", (long long)l.size(), (long long)l.elements().size()); m.same("Expr_list.elements-vs-operand", &l.elements(), &l.operand());
         }
         void visit(const Scope& s) override { m.kinds_seen.insert("Scope"); m.scope("Scope", s); }
         void visit(const Parameter_list& l) override
         {
            m.kinds_seen.insert("Parameter_list"); m.seq("Parameter_list", l.elements());
            m.eq("Parameter_list.size", (long long)l.size(), (long long)l.elements().size());
            m.C.count("derived_checks", 2);
            if (!(l.begin() == l.elements().begin())) m.bad("derived:Parameter_list.begin", "Parameter_list::begin() is not elements().begin()");
            if (!(l.end() == l.elements().end())) m.bad("derived:Parameter_list.end", "Parameter_list::end() is not elements().end()");
         }
         void visit(const Region& r) override { m.kinds_seen.insert("Region"); m.seq("Region.body", r.body()); m.scope("Region.bindings", r.bindings()); }
         void visit(const Namespace& u) override { m.type_linkage(u); m.udt_decl_members("Namespace", u); }
         void visit(const Class& u) override { m.type_linkage(u); m.udt_decl_members("Class", u); m.seq("Class.bases", u.bases());
            for (auto& b : u.bases()) { m.kinds_seen.insert("Base_type"); m.same_or_both_throw("Base_type.name-vs-type.name", [&] { return (const void*)&b.name(); }, [&] { return (const void*)&b.type().name(); }); } }
         void visit(const Union& u) override { m.type_linkage(u); m.udt_decl_members("Union", u); }
         void visit(const Enum& u) override { m.type_linkage(u); m.udt("Enum", u); m.same_seq("Enum.members-vs-region.bindings.elements", u.members(), u.region().bindings().elements()); }
         void visit(const Closure& u) override { m.type_linkage(u); m.udt("Closure", u); }
         void visit(const Block& b) override
         {
            const auto nh = b.handlers().size();
            m.kinds_seen.insert(nh == 0 ? "Block:no-handler" : nh == 1 ? "Block:one-handler" : "Block:many-handlers");
            m.same("Block.body-vs-region.body", &b.body(), &b.region().body());
            m.seq("Block.body", b.body()); m.seq("Block.handlers", b.handlers());
            m.C.count("derived_checks");
            if (b.try_block() != (nh > 0))
               m.bad(nh > 0 ? "derived:Block.try_block:false-with-handlers" : "derived:Block.try_block:true-without-handlers",
                     "Block::try_block() is " + std::string(b.try_block() ? "true" : "false") + " for a block with " + std::to_string(nh) + " handlers");
         }
         void visit(const Template& t) override
         {
            m.kinds_seen.insert("Template");
            m.same_or_both_throw("Template.parameters-vs-mapping.parameters", [&] { return (const void*)&t.parameters(); }, [&] { return (const void*)&t.mapping().parameters(); });
            m.same_or_both_throw("Template.result-vs-mapping.result", [&] { return (const void*)&t.result(); }, [&] { return (const void*)&t.mapping().result(); });
         }
         void visit(const Parameter& p) override
         {
            m.kinds_seen.insert(p.initializer().is_valid() ? "Parameter:with-default" : "Parameter:no-default");
            m.C.count("derived_checks", 2);
            auto d = p.default_value(); auto i = p.initializer();
            if (d.is_valid() != i.is_valid()) m.bad("derived:Parameter.default_value:presence", "default_value() and initializer() disagree on presence");
            else if (d.is_valid() && &d.get() != &i.get()) m.bad("derived:Parameter.default_value", "default_value() is not initializer()");
            m.same_or_both_throw("Parameter.lexical_region-vs-home_region", [&] { return (const void*)&p.lexical_region(); }, [&] { return (const void*)&p.home_region(); });
         }
         void visit(const Alias& a) override { m.kinds_seen.insert("Alias"); m.same_or_both_throw("Alias.lexical_region-vs-home_region", [&] { return (const void*)&a.lexical_region(); }, [&] { return (const void*)&a.home_region(); }); }
         void visit(const Field& a) override { m.kinds_seen.insert("Field"); m.same_or_both_throw("Field.lexical_region-vs-home_region", [&] { return (const void*)&a.lexical_region(); }, [&] { return (const void*)&a.home_region(); }); }
         void visit(const Bitfield& a) override { m.kinds_seen.insert("Bitfield"); m.same_or_both_throw("Bitfield.lexical_region-vs-home_region", [&] { return (const void*)&a.lexical_region(); }, [&] { return (const void*)&a.home_region(); }); }
         void visit(const EH_parameter& p) override { m.kinds_seen.insert("EH_parameter"); m.C.count("derived_checks"); if (p.initializer().is_valid()) m.bad("derived:EH_parameter.initializer", "an exception parameter reports an initializer"); }
         void visit(const Mapping& mp) override { m.kinds_seen.insert("Mapping"); m.seq("Mapping.parameters", mp.parameters().elements()); }
         void visit(const Lambda& l) override { m.kinds_seen.insert("Lambda"); m.seq("Lambda.attributes", l.attributes()); m.seq("Lambda.captures", l.captures()); }
         void visit(const Requires& r) override { m.kinds_seen.insert("Requires"); m.seq("Requires.body", r.body()); }
         void visit(const Overload& o) override { m.kinds_seen.insert("Overload"); }
      };
      V v(*this);
      C.count("nodes_checked");
      n.accept(v);
   }
};

// purpose-built states: 0 / 1 / many members
void states(Mon& M, Rng& rng, int many)
{
   impl::Lexicon lex; impl::Translation_unit unit { lex };
   const Lexicon& L = lex;
   Pools P(lex, unit, rng);
   Collector col;
   for (int n : { 0, 1, 2, many }) {
      auto& greg = *unit.global_region();
      // block with n body statements and (n % 4) or n handlers
      for (int nh : { 0, 1, n }) {
         auto* b = lex.make_block(greg);
         for (int i = 0; i < n; ++i) b->add_stmt(*rng.pick(P.stmts));
         for (int i = 0; i < nh; ++i) b->new_handler(*P.idents[i % 10], P.T());
         col.add(*b);
      }
      auto* cls = lex.make_class(greg); auto* un = lex.make_union(greg); auto* ns = lex.make_namespace(greg); auto* en = lex.make_enum(greg, Enum::Kind::Legacy);
      auto* cl = lex.make_closure(greg);
      for (int i = 0; i < n; ++i) {
         cls->declare_field(*P.idents[i % 10], P.T()); cls->declare_base(*P.a_class);
         un->declare_field(*P.idents[i % 10], P.T());
         ns->declare_var(*P.idents[i % 10], P.T());
         en->add_member(*P.idents[i % 10]);
      }
      col.add(*cls); col.add(*un); col.add(*ns); col.add(*en); col.add(*cl);
      impl::Warehouse<Type> w; for (int i = 0; i < n; ++i) w.push_back(P.T());
      col.add(lex.get_product(w)); col.add(lex.get_sum(w));
      auto* xl = lex.make_expr_list(); for (int i = 0; i < n; ++i) xl->push_back(&P.X());
      col.add(*xl);
      auto* map = lex.make_mapping(greg, Mapping_level{ 2 });
      for (int i = 0; i < n; ++i) { auto* p = map->param(*P.idents[i % 10], P.T()); if (i % 2) p->init = &P.X(); col.add(*p); }
      map->body = &P.X();
      col.add(*map); col.add(map->parameters());
      auto* sub = greg.make_subregion(); for (int i = 0; i < n; ++i) { sub->declare_var(*P.idents[i % 10], P.T()); }
      col.add(*sub);
      // types with explicit transfers
      auto& xf = lex.get_transfer(lex.get_linkage(u8"C"), lex.get_calling_convention(n % 2 ? u8"stdcall" : u8""));
      col.add(lex.get_function(lex.get_product(w), P.T(), xf));
      col.add(lex.get_as_type(P.X(), xf));
   }
   for (auto p : { &L.int_type(), &L.void_type(), &L.typename_type(), &L.class_type(), &L.namespace_type() }) col.add(*p);
   for (std::size_t i = 0; i < col.nodes.size() && col.nodes.size() < 30000; ++i) col.expand(*col.nodes[i]);
   for (auto n : col.nodes) M.node(*n);
}

// Iterators are (sequence, position) pairs: the ones taken before a sequence grew still are what begin(), position(i) and
// the old end() were defined as -- equal to the iterators of those positions taken afterwards, able to walk to the new end()
// and to read the elements added since.
template<class T, class Grow>
void across_growth(Mon& M, const char* owner, const Sequence<T>& s, int before, int added, Grow grow)
{
   auto& C = M.C;
   for (int i = 0; i < before; ++i) grow();
   const std::size_t n0 = s.size();
   auto b0 = s.begin(); auto e0 = s.end(); auto m0 = s.position(n0 / 2);
   auto beyond0 = s.position(n0 + 1);           // a position the sequence does not have yet (never dereferenced until it does)
   if (n0 > 0) (void)&*b0;                      // an iterator that had been dereferenced
   for (int i = 0; i < added; ++i) grow();
   const std::size_t n1 = s.size();
   C.count("iterators_compared_across_growth");
   C.eval(hash_mix(hash_bytes(owner), hash_mix(n0, n1)));
   auto bad = [&](const char* what, const std::string& msg) { M.bad(std::string("sequence:across-growth:") + what + ":" + owner, msg + " (size " + std::to_string(n0) + " -> " + std::to_string(n1) + ")"); };
   if (n1 != n0 + std::size_t(added)) { bad("size", "size() did not grow by the number of elements added"); return; }
   if (!(b0 == s.begin()) || b0 != s.position(0)) bad("begin", "begin() taken before the sequence grew is not begin() / position(0) any more");
   if (!(e0 == s.position(n0)) || (e0 == s.end()) != (added == 0)) bad("end", "end() taken before the sequence grew is not position(old size)");
   if (!(m0 == s.position(n0 / 2))) bad("position", "position(i) taken before the sequence grew is not position(i) any more");
   if (!(beyond0 == s.position(n0 + 1))) bad("position-beyond-the-old-end", "position(old size + 1), taken before the sequence grew, is not position(old size + 1) afterwards");
   if (added >= 2) { try { if (&*beyond0 != &*s.position(n0 + 1)) bad("position-beyond-the-old-end", "position(old size + 1), taken before the sequence grew, does not designate the second element added"); } catch (const std::exception& e) { bad("raised", std::string("reading the second element added through position(old size + 1) taken before the growth raised ") + e.what()); } }
   std::size_t steps = 0; auto it = b0;
   try {
      while (it != s.end() && steps <= n1 + 2) { if (&*it != &*s.position(steps)) { bad("walk", "walking on from an iterator taken before the growth reaches another element than position(i)"); break; } ++it; ++steps; }
      if (steps != n1) bad("walk-count", "walking from the begin() taken before the growth to the current end() visits " + std::to_string(steps) + " elements");
      if (added > 0 && &*e0 != &*s.position(n0)) bad("old-end-element", "the old end() does not designate the first element added");
      if (std::size_t(std::distance(b0, s.end())) != n1) bad("distance", "distance(old begin, end) != size()");
   } catch (const std::exception& e) { bad("raised", std::string("reading an element that exists through an iterator taken before the growth raised ") + e.what()); }
}

void growth(Mon& M, Rng& rng)
{
   impl::Lexicon lex; impl::Translation_unit unit { lex };
   Pools P(lex, unit, rng);
   auto& greg = *unit.global_region();
   for (int before : { 0, 1, 2, 7 + int(rng.below(40)) }) for (int added : { 1, 2, 1 + int(rng.below(30)) }) {
      int k = 0;
      auto id = [&]() -> const Identifier& { return lex.get_identifier(widen("g" + std::to_string(k++))); };
      { auto* ns = lex.make_namespace(greg); across_growth(M, "Namespace.members", ns->scope().elements(), before, added, [&] { ns->declare_var(id(), P.T()); }); }
      { auto* cls = lex.make_class(greg); across_growth(M, "Class.members", cls->scope().elements(), before, added, [&] { cls->declare_field(id(), P.T()); }); }
      { auto* cls = lex.make_class(greg); across_growth(M, "Class.bases", cls->bases(), before, added, [&] { cls->declare_base(*P.a_class); }); }
      { auto* en = lex.make_enum(greg, Enum::Kind::Legacy); across_growth(M, "Enum.members", en->members(), before, added, [&] { en->add_member(id()); }); }
      { auto* b = lex.make_block(greg); across_growth(M, "Block.body", b->body(), before, added, [&] { b->add_stmt(*rng.pick(P.stmts)); }); }
      { auto* b = lex.make_block(greg); across_growth(M, "Block.handlers", b->handlers(), before, added, [&] { b->new_handler(id(), P.T()); }); }
      { auto* xl = lex.make_expr_list(); across_growth(M, "Expr_list", xl->operand(), before, added, [&] { xl->push_back(&P.X()); }); }
      { auto* map = lex.make_mapping(greg, Mapping_level{ 1 }); across_growth(M, "Parameter_list", map->parameters().elements(), before, added, [&] { map->param(id(), P.T()); }); }
      { auto* map = lex.make_mapping(greg, Mapping_level{ 1 }); across_growth(M, "Parameter_list.type", static_cast<const Product&>(map->parameters().type()).operand(), before, added, [&] { map->param(id(), P.T()); }); }
      { auto* sub = greg.make_subregion(); across_growth(M, "Region.bindings", sub->bindings().elements(), before, added, [&] { sub->declare_var(id(), P.T()); }); }
   }
}

// equality is an equivalence that holds exactly for equal spellings
void equalities(Mon& M, Rng& rng)
{
   Ctx& C = M.C;
   impl::Lexicon lex;
   const Lexicon& L = lex;
   std::vector<std::string> sp { "C", "C++", "", "Java", "c", "C+", "cdecl", "stdcall", "C++ ", "x", "const", "volatile", "static", "int", "virtual", "inline", "Fortran", "fastcall", "C\0x", "\x01" };
   sp[18] = std::string("C\0x", 3);
   for (auto w : basic_specifier_words) if (std::find(sp.begin(), sp.end(), narrow(w)) == sp.end()) sp.push_back(narrow(w));
   for (auto w : basic_qualifier_words) if (std::find(sp.begin(), sp.end(), narrow(w)) == sp.end()) sp.push_back(narrow(w));
   while (sp.size() < 48) { std::string s; int len = int(rng.below(6)); for (int i = 0; i < len; ++i) s += char(rng.chance(80) ? 'a' + rng.below(4) : rng.below(256)); sp.push_back(s); }
   struct Val { std::string sp; const Logogram* g; const Linkage* l1; const Linkage* l2; const Calling_convention* c; };
   std::vector<Val> vals;
   std::deque<Linkage> own_l; std::deque<Calling_convention> own_c;
   std::deque<impl::Logogram> own_g; std::deque<Linkage> own_gl; std::deque<Calling_convention> own_gc;   // over a second Logogram object of the same word
   for (auto& s : sp) {
      Val v; v.sp = s;
      v.g = &lex.get_logogram(lex.get_string(widen(s)));
      v.l1 = &lex.get_linkage(widen(s)); v.l2 = &lex.get_linkage(lex.get_string(widen(s)));
      v.c = &lex.get_calling_convention(widen(s));
      vals.push_back(v);
      own_l.emplace_back(*v.g); own_c.emplace_back(*v.g);          // client-made values over the same logogram
      own_g.emplace_back(v.g->what()); own_gl.emplace_back(own_g.back()); own_gc.emplace_back(own_g.back());
   }
   // the library's own basic specifier / qualifier values (what decompose hands out) for the spellings that are basic names
   std::vector<std::vector<Basic_specifier>> lib_s(sp.size()); std::vector<std::vector<Basic_qualifier>> lib_q(sp.size());
   // (obtained from the named accessors, so that nothing here depends on the name -> set mapping, which is C10's subject)
   {
      const Specifiers named_s[] = { L.export_specifier(), L.static_specifier(), L.extern_specifier(), L.mutable_specifier(), L.thread_local_specifier(), L.register_specifier(), L.inline_specifier(),
         L.constexpr_specifier(), L.consteval_specifier(), L.virtual_specifier(), L.abstract_specifier(), L.explicit_specifier(), L.friend_specifier(), L.typedef_specifier(), L.public_specifier(),
         L.protected_specifier(), L.private_specifier() };
      const Qualifiers named_q[] = { L.const_qualifier(), L.volatile_qualifier(), L.restrict_qualifier() };
      Specifiers all_s { }; for (auto x : named_s) all_s |= x;
      Qualifiers all_q { }; for (auto x : named_q) all_q |= x;
      for (auto& b : L.decompose(all_s)) for (std::size_t i = 0; i < sp.size(); ++i) if (narrow(b.logogram().what().characters()) == sp[i]) { lib_s[i].push_back(b); C.count("library_made_basic_specifiers"); }
      for (auto& b : L.decompose(all_q)) for (std::size_t i = 0; i < sp.size(); ++i) if (narrow(b.logogram().what().characters()) == sp[i]) { lib_q[i].push_back(b); C.count("library_made_basic_qualifiers"); }
   }
   auto check = [&](const char* what, bool e, bool ne, bool same) {
      C.count("equality_pairs");
      if (e != same) C.viol(std::string("equality:") + what + (same ? ":equal-spellings-unequal" : ":different-spellings-equal"), std::string(what) + " operator== disagrees with spelling equality");
      if (ne == e) C.viol(std::string("equality:") + what + ":ne-not-negation", std::string(what) + " operator!= is not the negation of operator==");
   };
   const std::size_t n = vals.size();
   for (std::size_t i = 0; i < n; ++i)
      for (std::size_t j = 0; j < n; ++j) {
         const bool same = vals[i].sp == vals[j].sp;
         C.eval(hash_mix(hash_bytes(vals[i].sp), hash_bytes(vals[j].sp)), i != j);
         check("logogram", *vals[i].g == *vals[j].g, *vals[i].g != *vals[j].g, same);
         check("linkage", *vals[i].l1 == *vals[j].l2, *vals[i].l1 != *vals[j].l2, same);
         check("linkage", own_l[i] == *vals[j].l1, own_l[i] != *vals[j].l1, same);
         check("calling_convention", *vals[i].c == *vals[j].c, *vals[i].c != *vals[j].c, same);
         check("calling_convention", own_c[i] == *vals[j].c, own_c[i] != *vals[j].c, same);
         check("logogram", own_g[i] == *vals[j].g, own_g[i] != *vals[j].g, same);
         check("linkage", own_gl[i] == *vals[j].l1, own_gl[i] != *vals[j].l1, same);
         check("linkage", *vals[j].l2 == own_gl[i], *vals[j].l2 != own_gl[i], same);
         check("calling_convention", own_gc[i] == *vals[j].c, own_gc[i] != *vals[j].c, same);
         Basic_specifier a { *vals[i].g }, b { *vals[j].g };
         Basic_qualifier qa { *vals[i].g }, qb { *vals[j].g };
         check("basic_specifier", a == b, a != b, same);
         check("basic_qualifier", qa == qb, qa != qb, same);
         // library-made against client-made and against library-made, both ways round
         for (auto& la : lib_s[i]) { check("basic_specifier", la == b, la != b, same); check("basic_specifier", b == la, b != la, same); for (auto& lb : lib_s[j]) check("basic_specifier", la == lb, la != lb, same); }
         for (auto& la : lib_q[i]) { check("basic_qualifier", la == qb, la != qb, same); check("basic_qualifier", qb == la, qb != la, same); for (auto& lb : lib_q[j]) check("basic_qualifier", la == lb, la != lb, same); }
      }
   // the constants
   check("linkage", L.c_linkage() == *vals[0].l1, L.c_linkage() != *vals[0].l1, true);
   check("linkage", L.cxx_linkage() == *vals[1].l1, L.cxx_linkage() != *vals[1].l1, true);
   check("linkage", L.cxx_linkage() == L.c_linkage(), L.cxx_linkage() != L.c_linkage(), false);
   // transfers: all pairs of (linkage, convention) pairs over a sub-pool
   std::vector<std::pair<std::pair<std::size_t, std::size_t>, const Transfer*>> ts;
   for (std::size_t i = 0; i < n; i += 3) for (std::size_t j = 0; j < n; j += 4) ts.push_back({ { i, j }, &lex.get_transfer(*vals[i].l1, *vals[j].c) });
   ts.push_back({ { 1, 2 }, &impl::cxx_transfer() });
   for (std::size_t i = 0; i < n; i += 7) for (std::size_t j = 1; j < n; j += 9) ts.push_back({ { i, j }, &lex.get_transfer(own_gl[i], own_gc[j]) });
   for (std::size_t i = 0; i < n; i += 5) ts.push_back({ { i, 2 }, &lex.get_transfer_from_linkage(*vals[i].l2) });
   for (std::size_t j = 0; j < n; j += 5) ts.push_back({ { 1, j }, &lex.get_transfer_from_convention(*vals[j].c) });
   for (auto& a : ts) for (auto& b : ts) {
      const bool same = vals[a.first.first].sp == vals[b.first.first].sp && vals[a.first.second].sp == vals[b.first.second].sp;
      check("transfer", *a.second == *b.second, *a.second != *b.second, same);
      C.count("derived_checks", 2);
      if (&a.second->linkage() != &a.second->first() || &a.second->convention() != &a.second->second()) C.viol("derived:Transfer.linkage-convention", "Transfer::linkage()/convention() are not first()/second()");
   }
   // equivalence laws on the sample (symmetry, transitivity) for logograms and linkages
   for (std::size_t i = 0; i < n; ++i) for (std::size_t j = 0; j < n; ++j) {
      if ((*vals[i].l1 == *vals[j].l1) != (*vals[j].l1 == *vals[i].l1)) C.viol("equality:linkage:not-symmetric", "Linkage == is not symmetric");
      if ((*vals[i].g == *vals[j].g) != (*vals[j].g == *vals[i].g)) C.viol("equality:logogram:not-symmetric", "Logogram == is not symmetric");
   }
}
} // namespace

static void body(Ctx& C)
{
   C.rule("a case = (kind of node or sequence owner, state): every convenience operation of the interface (empty/size/begin/end/position of every Sequence "
          "reachable; size/operator[] of Product and Sum; size/begin/end of Scope, Parameter_list, Expr_list; Udt::scope and members vs region; "
          "Block::body and try_block vs region().body() and handlers(); Template::parameters/result vs mapping(); Parameter::default_value vs "
          "initializer(); Type::linkage vs transfer().linkage(); lexical_region vs home_region where the interface defines it so; String size/begin/end vs "
          "characters()) is evaluated together with its defining primitive on the same node and compared by identity/value; ==/!= on Logogram, Linkage, "
          "Calling_convention, Transfer, Basic_specifier, Basic_qualifier are compared with spelling equality over all pairs of a 40-spelling pool; "
          "distinct = (owner kind, size) for sequences, (spelling, spelling) for equality pairs");
   C.assume("definitions are those written in <ipr/interface>; within one Lexicon equal spellings are the same String node");
   Mon M { C };
   Rng seeds(C.seed);
   const int iters = C.thorough ? 400 : 6;
   for (int it = 0; it < iters; ++it) {
      Rng rng(seeds.next());
      {
         impl::Lexicon lex; impl::Translation_unit unit { lex };
         Sweep S(lex, unit, rng);
         S.run_all();
         Collector col; collect_roots(col, S);
         for (auto n : col.nodes) M.node(*n);
      }
      states(M, rng, it % 3 == 0 ? 300 : 5 + int(rng.below(60)));
      equalities(M, rng);
      growth(M, rng);
   }
   for (auto k : { "Block:no-handler", "Block:one-handler", "Block:many-handlers", "Product", "Sum", "Expr_list", "Scope", "Parameter_list", "Region", "Namespace", "Class", "Union", "Enum",
                   "Closure", "Template", "Parameter:with-default", "Parameter:no-default", "Alias", "Field", "Bitfield", "String", "Base_type",
                   "seq:Product:empty", "seq:Product:singleton", "seq:Product:many", "seq:Block.handlers:empty", "seq:Block.handlers:many", "seq:Class.members:many", "seq:Enum.members:many" })
      if (!M.kinds_seen.count(k)) C.inconclusive(std::string("state never observed: ") + k);
   C.maxi("kinds_and_states_seen", (long long)M.kinds_seen.size());
   std::string list = "["; for (auto& k : M.kinds_seen) { if (list.size() > 1) list += ","; list += jstr(k); } C.extra("kinds_and_states", list + "]");
   C.sample(J().s("case", "Block with 3 handlers: try_block() vs handlers().size() > 0; body() vs region().body()").str());
   C.sample(J().s("case", "Linkage(\"C\") == Linkage(get_string(\"C\")) and != Linkage(\"c\")").str());
   C.need("sequence_checks"); C.need("derived_checks"); C.need("equality_pairs"); C.need("iterator_walk_moves"); C.need("iterator_jumps"); C.need("iterator_equality_checks"); C.need("iterators_compared_across_growth"); C.need("nodes_checked"); C.need("library_made_basic_specifiers", 17); C.need("library_made_basic_qualifiers", 3);
}

int main(int argc, char** argv) { return guarded_main(argc, argv, body); }
