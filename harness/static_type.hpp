// Pass a node to a factory under its most-derived interface type, the way client code chains factory calls
// (`get_qualified(q2, get_qualified(q1, t))` passes a `const Qualified&`).  Overload resolution inside the library
// then sees what a client's call would see, not just `const Type&`.
#ifndef VERIF_STATIC_TYPE_HPP
#define VERIF_STATIC_TYPE_HPP
#include <ipr/impl>
#include <ipr/traversal>
namespace vh {
// f is a generic callable returning R for any `const X&` with X derived from ipr::Type
template<class R, class F>
inline R with_static_type(const ipr::Type& t, F&& f)
{
   using namespace ipr;
   struct V : Constant_visitor<No_op> {
      F& f; R r { };
      bool done = false;
      explicit V(F& ff) : f(ff) { }
#define VH_T(K) void visit(const K& x) final { r = f(x); done = true; }
      VH_T(Array) VH_T(As_type) VH_T(Class) VH_T(Closure) VH_T(Decltype) VH_T(Enum) VH_T(Forall) VH_T(Function) VH_T(Namespace) VH_T(Pointer)
      VH_T(Product) VH_T(Ptr_to_member) VH_T(Qualified) VH_T(Reference) VH_T(Rvalue_reference) VH_T(Sum) VH_T(Tor) VH_T(Union) VH_T(Auto)
#undef VH_T
   };
   V v(f);
   t.accept(v);
   if (!v.done) return f(t);
   return v.r;
}
}
#endif
