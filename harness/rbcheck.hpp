// Generic structural validator for ipr::util::rb_tree trees (live tables and stand-alone trees).
#ifndef VERIF_RBCHECK_HPP
#define VERIF_RBCHECK_HPP
#include <ipr/utility>
#include <string>
#include <vector>
#include <cmath>
#include <cstdint>

namespace vh {
namespace rbt = ipr::util::rb_tree;

struct TreeShape { long long nodes = 0; int height = 0; };

// Walks the tree rooted at `root`, checks red-black rules and parent links, collects in-order nodes.
template<class Node>
struct TreeWalk {
   std::vector<Node*> inorder;
   std::string err;
   TreeShape sh;
   int walk(Node* n, Node* parent, int depth)
   {
      if (n == nullptr) return 1;
      if (depth > 256) { err = "depth>256 (cycle?)"; return -1; }
      if (n->parent() != parent) { err = "parent link inconsistent"; return -1; }
      ++sh.nodes;
      if (depth + 1 > sh.height) sh.height = depth + 1;
      if (n->color == rbt::Color::Red
          && ((n->left() && n->left()->color == rbt::Color::Red) || (n->right() && n->right()->color == rbt::Color::Red))) {
         err = "red node with red child"; return -1;
      }
      int bl = walk(n->left(), n, depth + 1);
      if (bl < 0) return -1;
      inorder.push_back(n);
      int br = walk(n->right(), n, depth + 1);
      if (br < 0) return -1;
      if (bl != br) { err = "black heights differ"; return -1; }
      return bl + (n->color == rbt::Color::Black ? 1 : 0);
   }
   // returns "" when the red-black shape rules hold
   std::string run(Node* root, long long expect_count)
   {
      inorder.clear(); err.clear(); sh = TreeShape{};
      if (root == nullptr) return expect_count == 0 ? "" : "null root but size() != 0";
      if (root->color != rbt::Color::Black) return "root is not black";
      if (walk(root, nullptr, 0) < 0) return err;
      if (sh.nodes != expect_count) return "linked nodes " + std::to_string(sh.nodes) + " != size() " + std::to_string(expect_count);
      double bound = 2.0 * std::log2(double(sh.nodes) + 1.0);
      if (double(sh.height) > bound + 1e-9) return "height " + std::to_string(sh.height) + " exceeds 2*log2(n+1)";
      return "";
   }
   // three-way `cmp` over Node&: in-order must be strictly monotone in one direction
   template<class Cmp>
   std::string ordered(Cmp cmp) const
   {
      int dir = 0;
      for (std::size_t i = 1; i < inorder.size(); ++i) {
         int c = cmp(*inorder[i - 1], *inorder[i]);
         c = (c > 0) - (c < 0);
         if (c == 0) return "two nodes with equal keys linked in the table";
         if (dir == 0) dir = c; else if (c != dir) return "in-order sequence not monotone under the table's key order";
      }
      return "";
   }
};
} // namespace vh
#endif
