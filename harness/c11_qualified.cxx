// C11 -- qualified types are in normal form: never an empty qualifier set, main variant never
// qualified, result independent of the order/grouping in which qualifiers were applied.
#include "common.hpp"
#include "inspect.hpp"
#include "static_type.hpp"
#include <ipr/impl>
#include <unordered_map>
#include <deque>

using namespace vh;
using namespace ipr;

struct Harness {
   impl::Lexicon lex;
   impl::Translation_unit unit { lex };
   Rng rng;
   std::vector<const Type*> base;       // unqualified types of every kind
   std::map<std::pair<std::uintptr_t, const Type*>, const Qualified*> model;

   explicit Harness(std::uint64_t seed) : rng(seed)
   {
      const Lexicon& L = lex;
      auto& greg = *unit.global_region();
      const Type* b[] = { &L.void_type(), &L.bool_type(), &L.char_type(), &L.int_type(), &L.uint_type(), &L.long_type(), &L.double_type(),
         &L.ellipsis_type(), &L.typename_type(), &L.class_type(), &L.namespace_type() };
      for (auto t : b) base.push_back(t);
      base.push_back(lex.make_class(greg)); base.push_back(lex.make_class(greg)); base.push_back(lex.make_union(greg));
      base.push_back(lex.make_enum(greg, Enum::Kind::Scoped)); base.push_back(lex.make_namespace(greg)); base.push_back(lex.make_closure(greg));
      base.push_back(&lex.get_auto());
      base.push_back(&lex.get_decltype(L.true_value()));
      base.push_back(&L.nullptr_value().type());
      base.push_back(&lex.get_pointer(L.int_type()));
      base.push_back(&lex.get_pointer(lex.get_qualified(Qualifiers(1), L.int_type())));     // pointer to const int: itself unqualified
      base.push_back(&lex.get_reference(L.char_type()));
      base.push_back(&lex.get_rvalue_reference(*base[11]));
      base.push_back(&lex.get_array(L.int_type(), *lex.make_literal(L.int_type(), u8"4")));
      base.push_back(&lex.get_array(lex.get_qualified(Qualifiers(2), L.char_type()), *lex.make_phantom()));
      impl::Warehouse<Type> w0, w1, w2;
      w1.push_back(L.int_type()); w2.push_back(L.int_type()); w2.push_back(*base[11]);
      auto& p0 = lex.get_product(w0); auto& p1 = lex.get_product(w1); auto& p2 = lex.get_product(w2);
      base.push_back(&p0); base.push_back(&p1); base.push_back(&p2);
      base.push_back(&lex.get_sum(w2));
      base.push_back(&lex.get_function(p0, L.void_type()));
      base.push_back(&lex.get_function(p2, L.int_type(), L.true_value()));
      base.push_back(&lex.get_function(p1, L.int_type(), lex.get_transfer(lex.get_linkage(u8"C"), lex.get_calling_convention(u8"cdecl"))));
      base.push_back(&lex.get_forall(p1, L.class_type()));
      base.push_back(&lex.get_ptr_to_member(*base[11], L.int_type()));
      base.push_back(&lex.get_tor(p1, lex.get_sum(w0)));
      base.push_back(&lex.get_as_type(*lex.make_id_expr(lex.get_identifier(u8"T"))));
      base.push_back(&lex.get_as_type(lex.get_identifier(u8"size_type")));
      base.push_back(&lex.get_as_type(L.true_value(), lex.get_transfer_from_linkage(lex.get_linkage(u8"Java"))));
      // unqualified nodes that *denote* a qualified type: an as-type over a qualified type, a decltype of one, a pointer to one
      auto q = [&](std::uintptr_t bits, const Type& t) -> const Type& { auto& n = lex.get_qualified(Qualifiers(bits), t); model.emplace(std::make_pair(bits, &t), &n); return n; };   // known to the model
      base.push_back(&lex.get_as_type(q(1, L.int_type())));
      base.push_back(&lex.get_as_type(q(6, lex.get_pointer(L.char_type()))));
      base.push_back(&lex.get_decltype(q(2, L.double_type())));
      base.push_back(&lex.get_pointer(q(1, L.char_type())));
      base.push_back(&lex.get_array(q(1, L.long_type()), *lex.make_literal(L.int_type(), u8"3")));
      base.push_back(&lex.get_array(q(2, L.float_type()), *lex.make_literal(L.int_type(), u8"4")));
      base.push_back(&lex.get_reference(q(3, L.int_type())));
      { impl::Warehouse<Type> w; w.push_back(q(1, L.bool_type())); base.push_back(&lex.get_function(lex.get_product(w), q(2, L.uint_type()))); }
      while (base.size() < 48) base.push_back(&lex.get_pointer(*base[base.size() - 7]));
      for (auto t : base) if (t->category == Category_code::Qualified) { ctx().inconclusive("harness: base pool contains a qualified type"); }
   }

   void refuse_empty(const Type& x, const char* what)
   {
      ctx().count("empty_set_requests");
      // the same refused request several times in a row (a refusal must not depend on what was asked just before, a refused
      // request included), through both the general entry point and the operand's most-derived static type
      for (int rep = 0; rep < 3; ++rep) {
         try {
            auto& r = lex.get_qualified(Qualifiers{}, x);
            (void)r;
            ctx().viol(std::string("empty-set-accepted:") + what + (rep ? ":repeated-request" : ""), "get_qualified with an empty qualifier set returned a node instead of refusing");
         } catch (...) { ctx().count("empty_set_refused"); }
      }
      for (int rep = 0; rep < 3; ++rep) {
         try {
            with_static_type<const Qualified*>(x, [&](const auto& y) { return &lex.get_qualified(Qualifiers{}, y); });
            ctx().viol(std::string("empty-set-accepted:") + what + (rep ? ":repeated-request" : ""), "get_qualified with an empty qualifier set returned a node instead of refusing");
         } catch (...) { ctx().count("empty_set_refused"); }
      }
   }

   // apply qualifier sets q[0..k) successively to T, check the normal form
   void run_sequence(std::size_t tidx, const std::uintptr_t* q, int k, const char* family)
   {
      const Type& T = *base[tidx];
      const Type* cur = &T;
      std::uintptr_t S = 0;
      std::uint64_t h = hash_mix(tidx, k);
      for (int i = 0; i < k; ++i) {
         S |= q[i];
         h = hash_mix(h, q[i]);
         // alternately pass the operand as `const Type&` and under its most-derived interface type (what a chained client call passes)
         const bool derived = ((h >> 7) + std::uint64_t(i)) % 2 == 0;
         const Qualified& R = derived
            ? *with_static_type<const Qualified*>(*cur, [&](const auto& x) { return &lex.get_qualified(Qualifiers(q[i]), x); })
            : lex.get_qualified(Qualifiers(q[i]), *cur);
         ctx().count(derived ? "get_qualified_calls:operand-as-most-derived-type" : "get_qualified_calls:operand-as-Type");
         ctx().count("get_qualified_calls");
         if (i > 0) ctx().count("requalifications");
         auto why = [&](const char* what) {
            std::string seq = jarr(q, q + k, [](std::uintptr_t v) { return std::to_string(v); });
            ctx().viol(std::string(what) + ":" + family, std::string(what) + " after step " + std::to_string(i + 1) + " of " + std::to_string(k),
                       J().raw("sets", seq).n("base_type_category", (long long)T.category).str());
         };
         if (R.category != Category_code::Qualified) why("not-a-qualified-node");
         if (std::uintptr_t(R.qualifiers()) != S) why("qualifiers-not-union");
         if (std::uintptr_t(R.qualifiers()) == 0) why("empty-qualifier-set");
         if (&R.main_variant() != &T) why("main-variant-not-innermost");
         if (R.main_variant().category == Category_code::Qualified) why("main-variant-is-qualified");
         auto [it, fresh] = model.emplace(std::make_pair(S, &T), &R);
         if (!fresh && it->second != &R) why("order-dependent-node");
         if (fresh) ctx().count("distinct_normal_forms");
         cur = &R;
      }
      ctx().eval(h, k >= 2);
   }

   // Operands that are qualified types this Lexicon did not make: the node another live Lexicon returned for (set, T) over a
   // process-wide built-in T, and a Qualified node the client built itself.  Qualifying one yields THIS Lexicon's node for the
   // union over T - the same node as the direct request - whether or not the request adds a qualifier the operand lacks.
   impl::Lexicon other;
   std::deque<impl::Qualified> client_made;
   void foreign_operands()
   {
      for (std::size_t ti = 0; ti < 11; ++ti) {
         const Type& T = *base[ti];
         for (std::uintptr_t have = 1; have <= 7; ++have) {
            client_made.emplace_back(impl::Qualified::Rep { Qualifiers(have), T });
            const Type* operands[] = { &other.get_qualified(Qualifiers(have), T), &client_made.back() };
            for (int src = 0; src < 2; ++src)
               for (std::uintptr_t ask = 1; ask <= 7; ++ask) {
                  const std::uintptr_t S = have | ask;
                  const Qualified& R = lex.get_qualified(Qualifiers(ask), *operands[src]);
                  ctx().count(src ? "requalifications_of_a_client_made_qualified_type" : "requalifications_of_another_lexicons_qualified_type");
                  const std::string fam = src ? "client-made-operand" : "other-lexicon-operand";
                  auto why = [&](const char* what) { ctx().viol(std::string(what) + ":" + fam, std::string(what) + " when qualifying (set " + std::to_string(ask) + ") a qualified type (set " + std::to_string(have) + ") that " + (src ? "the client built itself" : "another Lexicon returned"), J().n("have", (long long)have).n("ask", (long long)ask).str()); };
                  if (&R == operands[src]) why("foreign-node-returned");
                  if (std::uintptr_t(R.qualifiers()) != S) why("qualifiers-not-union");
                  if (&R.main_variant() != &T) why("main-variant-not-innermost");
                  auto [it, fresh] = model.emplace(std::make_pair(S, &T), &R);
                  if (!fresh && it->second != &R) why("order-dependent-node");
                  if (&lex.get_qualified(Qualifiers(S), T) != &R) why("differs-from-direct-request");
                  ctx().eval(hash_mix(hash_mix(ti, have), hash_mix(ask, std::uint64_t(src))), true);
               }
         }
      }
   }

   // Client-made operands that are NOT in normal form (a Qualified node whose main variant is a Qualified node, two and three
   // levels deep, built by hand or by a front end's own implementation of the interface): the answer is still this Lexicon's node
   // for the union of every level's set over the innermost unqualified type.
   void denormalised_operands()
   {
      for (std::size_t ti = 0; ti < base.size(); ti += 3) {
         const Type& T = *base[ti];
         for (int rep = 0; rep < 12; ++rep) {
            const std::uintptr_t l1 = 1 + rng.below(7), l2 = 1 + rng.below(7), l3 = 1 + rng.below(7), ask = 1 + rng.below(7);
            client_made.emplace_back(impl::Qualified::Rep { Qualifiers(l1), T }); const Type& inner = client_made.back();
            client_made.emplace_back(impl::Qualified::Rep { Qualifiers(l2), inner }); const Type& two = client_made.back();
            client_made.emplace_back(impl::Qualified::Rep { Qualifiers(l3), two }); const Type& three = client_made.back();
            // a library-made node as the innermost qualified level, too
            client_made.emplace_back(impl::Qualified::Rep { Qualifiers(l2), lex.get_qualified(Qualifiers(l1), T) }); const Type& over_own = client_made.back();
            model.emplace(std::make_pair(l1, &T), &lex.get_qualified(Qualifiers(l1), T));
            struct { const Type* op; std::uintptr_t all; const char* what; } cases[] = { { &two, l1 | l2, "two-levels" }, { &three, l1 | l2 | l3, "three-levels" }, { &over_own, l1 | l2, "client-level-over-own-node" } };
            for (auto& c : cases) {
               const std::uintptr_t S = c.all | ask;
               const Qualified& R = lex.get_qualified(Qualifiers(ask), *c.op);
               ctx().count("requalifications_of_a_client_made_operand_not_in_normal_form");
               const std::string fam = std::string("client-made-nested-operand:") + c.what;
               auto why = [&](const char* what) { ctx().viol(std::string(what) + ":" + fam, std::string(what) + " when qualifying (set " + std::to_string(ask) + ") a client-made qualified type nested " + c.what + " (sets " + std::to_string(l1) + "," + std::to_string(l2) + "," + std::to_string(l3) + ")", J().n("ask", (long long)ask).str()); };
               if (std::uintptr_t(R.qualifiers()) != S) why("qualifiers-not-union");
               if (&R.main_variant() != &T) why("main-variant-not-innermost");
               if (R.main_variant().category == Category_code::Qualified) why("main-variant-is-qualified");
               auto [it, fresh] = model.emplace(std::make_pair(S, &T), &R);
               if (!fresh && it->second != &R) why("order-dependent-node");
               ctx().eval(hash_mix(hash_mix(ti, S), hash_bytes(c.what)), true);
            }
         }
      }
   }

   // ... and nested far deeper than there are qualifier bits (levels that repeat or add nothing are legal for a client to build):
   // every depth from 1 to 80, then a few in the hundreds and thousands
   void deeply_nested_operands()
   {
      std::vector<int> depths; for (int d = 1; d <= 80; ++d) depths.push_back(d);
      for (int d : { 127, 128, 129, 200, 255, 256, 257, 1000, 4096 }) depths.push_back(d);
      for (std::size_t ti = 0; ti < base.size(); ti += 7) {
         const Type& T = *base[ti];
         for (int d : depths) {
            if (d > 80 && ti != 0) continue;
            std::uintptr_t all = 0; const Type* op = &T; std::uintptr_t deepest = 0, outermost = 0;
            for (int k = 0; k < d; ++k) {
               // the innermost levels carry a bit the outer ones never repeat in half of the chains (lost if the walk stops early)
               std::uintptr_t l = (k == 0 && d % 2) ? 4 : 1 + rng.below(d % 2 ? 3 : 7);
               if (k == 0) deepest = l; outermost = l;
               client_made.emplace_back(impl::Qualified::Rep { Qualifiers(l), *op }); op = &client_made.back(); all |= l;
            }
            const std::uintptr_t ask = 1 + rng.below(7), S = all | ask;
            const Qualified& R = lex.get_qualified(Qualifiers(ask), *op);
            ctx().count("requalifications_of_a_client_made_operand_nested_deeper_than_the_number_of_qualifier_bits", d > 64);
            ctx().maxi("deepest_client_made_nesting", d);
            auto why = [&](const char* what) { ctx().viol(std::string(what) + ":client-made-deeply-nested-operand", std::string(what) + " when qualifying (set " + std::to_string(ask) + ") a client-made qualified type nested " + std::to_string(d) + " levels (innermost set " + std::to_string(deepest) + ", outermost " + std::to_string(outermost) + ", union " + std::to_string(all) + ")", J().n("ask", (long long)ask).n("depth", d).str()); };
            if (std::uintptr_t(R.qualifiers()) != S) why("qualifiers-not-union");
            if (&R.main_variant() != &T) why("main-variant-not-innermost");
            if (R.main_variant().category == Category_code::Qualified) why("main-variant-is-qualified");
            auto [it, fresh] = model.emplace(std::make_pair(S, &T), &R);
            if (!fresh && it->second != &R) why("order-dependent-node");
            ctx().eval(hash_mix(hash_mix(ti, S), d), true);
         }
      }
   }

   void live_table()
   {
      const impl::type_factory& tf = lex;
      long long sz = 0;
      std::string e = check_table(Inspector::qualifieds(tf), [](auto& a, auto& b) {
         auto x = std::uintptr_t(a.first()), y = std::uintptr_t(b.first());
         if (x != y) return x < y ? -1 : 1;
         return cmp_addr(&a.second(), &b.second()); }, &sz);
      ctx().count("table_validations");
      if (!e.empty()) ctx().viol("table:qualifieds:" + e.substr(0, 40), "live qualifieds table: " + e);
      if (sz != (long long)model.size()) ctx().viol("table:qualifieds:conservation", "qualifieds table holds " + std::to_string(sz) + " nodes for " + std::to_string(model.size()) + " distinct (set,type) normal forms");
      // every stored node is in normal form
      using N = util::rb_tree::node<impl::Qualified>;
      std::vector<N*> st; if (auto r = Inspector::root(Inspector::qualifieds(tf))) st.push_back(r);
      while (!st.empty()) {
         N* n = st.back(); st.pop_back();
         if (std::uintptr_t(n->data.qualifiers()) == 0) ctx().viol("table:qualifieds:empty-set-stored", "a stored qualified type has no qualifier");
         if (n->data.main_variant().category == Category_code::Qualified) ctx().viol("table:qualifieds:nested-stored", "a stored qualified type has a qualified main variant");
         if (n->left()) st.push_back(n->left());
         if (n->right()) st.push_back(n->right());
      }
   }
};

static void body(Ctx& C)
{
   C.rule("a case = (unqualified type T, sequence of non-empty qualifier sets applied successively); non-trivial = length >= 2; "
          "exhaustive part: all sequences of non-empty subsets of {const,volatile,restrict} of length <= 4 (2800) x 40 unqualified "
          "types of every kind, interleaved with unrelated type requests; sampled part: random sequences of length <= 12 including "
          "extended high bits; every intermediate result is checked (qualifiers == union so far, main variant == T and not Qualified, "
          "same node for the same (union,T) whatever the route); empty sets are requested on every kind and must be refused");
   C.need("requalifications"); C.need("get_qualified_calls:operand-as-most-derived-type"); C.need("empty_set_refused"); C.need("table_validations"); C.need("distinct_normal_forms"); if (C.worker == 0) { C.need("requalifications_of_a_client_made_qualified_type"); C.need("requalifications_of_another_lexicons_qualified_type"); } if (C.worker == 1 % C.workers) C.need("requalifications_of_a_client_made_operand_not_in_normal_form");
   Harness H(C.seed);
   // exhaustive: sequences of non-empty subsets, length <= 4; base types split across workers
   long long job = 0;
   std::uintptr_t q[12];
   for (std::size_t ti = 0; ti < H.base.size(); ++ti) {
      if (job++ % C.workers != C.worker) continue;
      const Type& T = *H.base[ti];
      for (int len = 1; len <= 4; ++len) {
         int total = 1; for (int i = 0; i < len; ++i) total *= 7;
         for (int code = 0; code < total; ++code) {
            int c = code;
            for (int i = 0; i < len; ++i) { q[i] = 1 + c % 7; c /= 7; }
            H.run_sequence(ti, q, len, "exhaustive");
            if (code % 97 == 0) {   // unrelated requests in between
               H.lex.get_pointer(*H.base[(ti + code) % H.base.size()]);
               H.lex.get_reference(H.lex.get_qualified(Qualifiers(1 + code % 7), *H.base[(ti + 3) % H.base.size()]));
               H.model.emplace(std::make_pair(std::uintptr_t(1 + code % 7), H.base[(ti + 3) % H.base.size()]),
                               &H.lex.get_qualified(Qualifiers(1 + code % 7), *H.base[(ti + 3) % H.base.size()]));
            }
         }
      }
      C.count("base_types_exhausted");
      H.refuse_empty(T, "unqualified");
      H.refuse_empty(H.lex.get_qualified(Qualifiers(5), T), "qualified");
      H.model.emplace(std::make_pair(std::uintptr_t(5), &T), &H.lex.get_qualified(Qualifiers(5), T));
   }
   C.sample(J().s("kind", "exhaustive").s("sets", "all sequences of non-empty subsets of 3 bits, length<=4").n("base_types_total", (long long)H.base.size()).str());
   // random long sequences with extended bits
   const long long nrand = C.thorough ? 200000 : 8000;
   for (long long i = 0; i < nrand; ++i) {
      int k = 1 + int(H.rng.below(12));
      for (int j = 0; j < k; ++j) {
         q[j] = 1 + H.rng.below(7);
         if (H.rng.chance(30)) q[j] = std::uintptr_t(1) << H.rng.below(64);
         if (H.rng.chance(10)) q[j] |= std::uintptr_t(H.rng.next());
         if (q[j] == 0) q[j] = 2;
      }
      H.run_sequence(H.rng.below(H.base.size()), q, k, "random");
      if (i == 0) C.sample(J().s("kind", "random").raw("sets", jarr(q, q + k, [](std::uintptr_t v) { return std::to_string(v); })).str());
   }
   if (C.worker == 0) H.foreign_operands();
   if (C.worker == 1 % C.workers) H.denormalised_operands();
   if (C.worker == 2 % C.workers) { C.need("requalifications_of_a_client_made_operand_nested_deeper_than_the_number_of_qualifier_bits"); H.deeply_nested_operands(); }
   H.live_table();
   C.exhaustive(false);
   C.extra("exhaustive_subspace", "\"all 2800 sequences of non-empty subsets of the 3 basic qualifiers of length<=4, for each of 40 unqualified types\"");
}

int main(int argc, char** argv) { return guarded_main(argc, argv, body); }
