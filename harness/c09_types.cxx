#define VH_C09 1
#include "c02_operands.cxx"
