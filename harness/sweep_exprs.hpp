// Sweep: expression factories.
#ifndef VERIF_SWEEP_EXPRS_HPP
#define VERIF_SWEEP_EXPRS_HPP
#include "sweep_core.hpp"

namespace vh {

// Unary classic expression with optional type: both arities.
#define VH_U_OPT(fn, Cat) \
   for (int with = 0; with < 2; ++with) { \
      auto& e = P.X(); Optional<Type> t = with ? Optional<Type>(&P.T()) : Optional<Type>(); \
      auto* n = with ? lex.fn(e, t) : lex.fn(e); \
      add_node(std::string(#fn) + (with ? "(e,type)" : "(e)"), n, Category_code::Cat, [n, ep = &e, t](Ck& c) { \
         c.same("operand", &n->operand(), ep); c.type_opt(*n, t); }); }
#define VH_U_OPT_CLASSIC(fn, Cat) \
   for (int with = 0; with < 2; ++with) { \
      auto& e = P.X(); Optional<Type> t = with ? Optional<Type>(&P.T()) : Optional<Type>(); \
      auto* n = with ? lex.fn(e, t) : lex.fn(e); \
      const Expr* impl_decl = nullptr; \
      if (rng.chance(50)) { impl_decl = P.decls[rng.below(P.decls.size())]; n->op_impl = impl_decl; } \
      add_node(std::string(#fn) + (with ? "(e,type)" : "(e)"), n, Category_code::Cat, [n, ep = &e, t, impl_decl](Ck& c) { \
         c.same("operand", &n->operand(), ep); c.type_opt(*n, t); c.opt("implementation", n->implementation(), impl_decl); }); }
// Unary with mandatory type.
#define VH_U_REQ(fn, Cat) \
   { auto& e = P.X(); auto& t = P.T(); auto* n = lex.fn(e, t); \
     add_node(#fn, n, Category_code::Cat, [n, ep = &e, tp = &t](Ck& c) { c.same("operand", &n->operand(), ep); c.type_is(*n, *tp, "given"); }); }

inline void Sweep::exprs_unary()
{
   const Lexicon& L = lex;
   VH_U_OPT_CLASSIC(make_address, Address)
   VH_U_OPT_CLASSIC(make_complement, Complement)
   VH_U_OPT_CLASSIC(make_deref, Deref)
   VH_U_OPT(make_alignof, Alignof)
   VH_U_OPT(make_sizeof, Sizeof)
   VH_U_OPT(make_args_cardinality, Args_cardinality)
   VH_U_OPT(make_typeid, Typeid)
   VH_U_OPT_CLASSIC(make_not, Not)
   VH_U_OPT_CLASSIC(make_post_increment, Post_increment)
   VH_U_OPT_CLASSIC(make_post_decrement, Post_decrement)
   VH_U_OPT_CLASSIC(make_pre_increment, Pre_increment)
   VH_U_OPT_CLASSIC(make_pre_decrement, Pre_decrement)
   VH_U_OPT_CLASSIC(make_throw, Throw)
   VH_U_OPT_CLASSIC(make_unary_minus, Unary_minus)
   VH_U_OPT_CLASSIC(make_unary_plus, Unary_plus)
   VH_U_OPT_CLASSIC(make_expansion, Expansion)
   VH_U_OPT(make_noexcept, Noexcept)
   VH_U_REQ(make_demotion, Demotion)
   VH_U_REQ(make_promotion, Promotion)
   VH_U_REQ(make_read, Read)
   VH_U_REQ(make_materialization, Materialization)
   {  auto& e = P.X(); auto* n = lex.make_array_delete(e);
      add_node("make_array_delete", n, Category_code::Array_delete, [n, ep = &e](Ck& c) { c.same("operand", &n->operand(), ep); c.same("storage", &n->storage(), ep); c.type_opt(*n, {}, "never given"); c.opt("implementation", n->implementation(), (const Expr*)nullptr); }); }
   {  auto& e = P.X(); auto* n = lex.make_delete(e);
      add_node("make_delete", n, Category_code::Delete, [n, ep = &e](Ck& c) { c.same("operand", &n->operand(), ep); c.same("storage", &n->storage(), ep); c.type_opt(*n, {}, "never given"); }); }
   {  auto& e = P.X(); auto* n = lex.make_restriction(e);
      add_node("make_restriction", n, Category_code::Restriction, [n, ep = &e, bt = &L.bool_type()](Ck& c) { c.same("operand", &n->operand(), ep); c.type_is(*n, *bt, "requires-clause: bool"); }); }
   // id-expressions
   for (int with = 0; with < 2; ++with) {
      auto& nm = *rng.pick(P.names); Optional<Type> t = with ? Optional<Type>(&P.T()) : Optional<Type>();
      auto* n = with ? lex.make_id_expr(nm, t) : lex.make_id_expr(nm);
      add_node(with ? "make_id_expr(name,type)" : "make_id_expr(name)", n, Category_code::Id_expr, [n, np = &nm, t](Ck& c) {
         c.same("operand", &n->operand(), np); c.same("name", &n->name(), np); c.type_opt(*n, t); c.opt("resolution", n->resolution(), (const Expr*)nullptr); });
   }
   {  auto& d = *rng.pick(P.decls); auto* n = lex.make_id_expr(d);
      add_node("make_id_expr(decl)", n, Category_code::Id_expr, [n, dp = &d](Ck& c) {
         c.same("name", &n->name(), &dp->name()); c.type_is(*n, dp->type(), "id-expression of a declaration: that declaration's type");
         c.opt("resolution", n->resolution(), static_cast<const Expr*>(dp)); }); }
   for (int with = 0; with < 2; ++with) {
      auto& id = *rng.pick(P.idents); Optional<Type> t = with ? Optional<Type>(&P.T()) : Optional<Type>();
      auto* n = with ? lex.make_label(id, t) : lex.make_label(id);
      add_node(with ? "make_label(id,type)" : "make_label(id)", n, Category_code::Label, [n, ip = &id, t](Ck& c) { c.same("operand", &n->operand(), ip); c.same("name", &n->name(), ip); c.type_opt(*n, t); });
   }
   // enclosures: every delimiter, both arities
   for (int d = 0; d <= 4; ++d) {
      int with = int(rng.below(2));
      auto& e = P.X(); Optional<Type> t = with ? Optional<Type>(&P.T()) : Optional<Type>();
      auto* n = with ? lex.make_enclosure(Delimiter(d), e, t) : lex.make_enclosure(Delimiter(d), e);
      add_node("make_enclosure(delim=" + std::to_string(d) + ")", n, Category_code::Enclosure, [n, ep = &e, t, d](Ck& c) {
         c.same("operand", &n->operand(), ep); c.same("expr", &n->expr(), ep); c.eq("delimiters", (long long)n->delimiters(), d); c.type_opt(*n, t); });
   }
   {  auto& t = P.T(); auto* enc = lex.make_enclosure(Delimiter::Paren, P.X()); auto* n = lex.make_construction(t, *enc);
      add_node("make_construction", n, Category_code::Construction, [n, tp = &t, enc](Ck& c) { c.same("operand", &n->operand(), static_cast<const Enclosure*>(enc)); c.same("arguments", &n->arguments(), static_cast<const Enclosure*>(enc)); c.type_is(*n, *tp, "construction: the constructed type"); }); }
   {  auto* n = lex.make_expr_list(); int k = int(rng.below(5)); std::vector<const Expr*> els;
      for (int i = 0; i < k; ++i) { els.push_back(&P.X()); n->push_back(els.back()); }
      add_node("make_expr_list", n, Category_code::Expr_list, [n, els](Ck& c) {
         c.eq("size", (long long)n->size(), (long long)els.size());
         std::size_t i = 0; for (auto& x : n->elements()) { if (i < els.size()) c.same("elements[i]", &x, els[i]); ++i; }
         auto& ty = n->type(); c.eq("type.size", (long long)ty.size(), (long long)els.size(), A_TYPE);
         for (std::size_t j = 0; j < els.size() && j < ty.size(); ++j) c.same("type[i]", &ty[j], &els[j]->type(), A_TYPE); }); }
   {  auto* n = lex.make_phantom();
      add_node("make_phantom()", n, Category_code::Phantom, [n](Ck& c) { c.type_opt(*n, {}, "untyped phantom"); }); }
   {  auto& t = P.T(); auto* n = lex.make_phantom(t);
      add_node("make_phantom(type)", n, Category_code::Phantom, [n, tp = &t](Ck& c) { c.type_is(*n, *tp, "given"); }); }
   // the same generative request twice in a row, right after the client gave its own untyped phantom that very type: three
   // different nodes; the client then re-types its own node, the two typed ones keep the type they were given
   {  auto& t = P.T(); const Type* u = &P.T(); for (int k = 0; k < 8 && u == &t; ++k) u = &P.T();
      auto* own = lex.make_phantom(); own->typing = &t;
      auto* n1 = lex.make_phantom(t); auto* n2 = lex.make_phantom(t);
      own->typing = u;
      add_node("make_phantom() typed and re-typed by the client", own, Category_code::Phantom, [own, u](Ck& c) { c.type_is(*own, *u, "given"); });
      add_node("make_phantom(type) right after a client phantom of that type", n1, Category_code::Phantom, [n1, own, tp = &t](Ck& c) { c.type_is(*n1, *tp, "given"); c.yes("identity", static_cast<const void*>(n1) != static_cast<const void*>(own), "a typed phantom is the client's own phantom", A_IDENTITY); });
      add_node("make_phantom(type) twice in a row", n2, Category_code::Phantom, [n1, n2, tp = &t](Ck& c) { c.type_is(*n2, *tp, "given"); c.yes("identity", n1 != n2, "two consecutive typed phantoms are one node", A_IDENTITY); }); }
   {  auto& t = P.T(); auto* n = lex.make_eclipsis(t);
      add_node("make_eclipsis", n, Category_code::Eclipsis, [n, tp = &t](Ck& c) { c.type_is(*n, *tp, "given"); }); }
}

// Binary classic expression with optional type.
#define VH_B_OPT(fn, Cat) \
   for (int with = 0; with < 2; ++with) { \
      auto ops = P.distinct(P.exprs, 2); Optional<Type> t = with ? Optional<Type>(&P.T()) : Optional<Type>(); \
      auto* n = with ? lex.fn(*ops[0], *ops[1], t) : lex.fn(*ops[0], *ops[1]); \
      const Expr* impl_decl = nullptr; \
      if (rng.chance(50)) { impl_decl = P.decls[rng.below(P.decls.size())]; n->op_impl = impl_decl; } \
      add_node(std::string(#fn) + (with ? "(a,b,type)" : "(a,b)"), n, Category_code::Cat, [n, a = ops[0], b = ops[1], t, impl_decl](Ck& c) { \
         c.same("first", &n->first(), a); c.same("second", &n->second(), b); c.type_opt(*n, t); c.opt("implementation", n->implementation(), impl_decl); }); }
#define VH_B_OPT_SEL(fn, Cat) \
   for (int with = 0; with < 2; ++with) { \
      auto ops = P.distinct(P.exprs, 2); Optional<Type> t = with ? Optional<Type>(&P.T()) : Optional<Type>(); \
      auto* n = with ? lex.fn(*ops[0], *ops[1], t) : lex.fn(*ops[0], *ops[1]); \
      add_node(std::string(#fn) + (with ? "(a,b,type)" : "(a,b)"), n, Category_code::Cat, [n, a = ops[0], b = ops[1], t](Ck& c) { \
         c.same("first", &n->first(), a); c.same("second", &n->second(), b); c.same("base", &n->base(), a); c.same("member", &n->member(), b); c.type_opt(*n, t); }); }
#define VH_CAST(fn, Cat) \
   { auto& t = P.T(); auto& e = P.X(); auto* n = lex.fn(t, e); \
     add_node(#fn, n, Category_code::Cat, [n, tp = &t, ep = &e](Ck& c) { \
        c.same("first", &n->first(), tp); c.same("second", &n->second(), ep); c.same("expr", &n->expr(), ep); c.type_is(*n, *tp, "cast: the target type"); }); }

inline void Sweep::exprs_binary()
{
   VH_B_OPT(make_and, And) VH_B_OPT(make_assign, Assign) VH_B_OPT(make_bitand, Bitand) VH_B_OPT(make_bitand_assign, Bitand_assign)
   VH_B_OPT(make_bitor, Bitor) VH_B_OPT(make_bitor_assign, Bitor_assign) VH_B_OPT(make_bitxor, Bitxor) VH_B_OPT(make_bitxor_assign, Bitxor_assign)
   VH_B_OPT(make_comma, Comma) VH_B_OPT(make_div, Div) VH_B_OPT(make_div_assign, Div_assign) VH_B_OPT(make_equal, Equal)
   VH_B_OPT(make_greater, Greater) VH_B_OPT(make_greater_equal, Greater_equal) VH_B_OPT(make_less, Less) VH_B_OPT(make_less_equal, Less_equal)
   VH_B_OPT(make_lshift, Lshift) VH_B_OPT(make_lshift_assign, Lshift_assign) VH_B_OPT(make_minus, Minus) VH_B_OPT(make_minus_assign, Minus_assign)
   VH_B_OPT(make_modulo, Modulo) VH_B_OPT(make_modulo_assign, Modulo_assign) VH_B_OPT(make_mul, Mul) VH_B_OPT(make_mul_assign, Mul_assign)
   VH_B_OPT(make_not_equal, Not_equal) VH_B_OPT(make_or, Or) VH_B_OPT(make_plus, Plus) VH_B_OPT(make_plus_assign, Plus_assign)
   VH_B_OPT(make_rshift, Rshift) VH_B_OPT(make_rshift_assign, Rshift_assign)
   VH_B_OPT_SEL(make_array_ref, Array_ref) VH_B_OPT_SEL(make_arrow, Arrow) VH_B_OPT_SEL(make_arrow_star, Arrow_star)
   VH_B_OPT_SEL(make_dot, Dot) VH_B_OPT_SEL(make_dot_star, Dot_star)
   for (int with = 0; with < 2; ++with) {
      auto ops = P.distinct(P.exprs, 2); Optional<Type> t = with ? Optional<Type>(&P.T()) : Optional<Type>();
      auto* n = with ? lex.make_scope_ref(*ops[0], *ops[1], t) : lex.make_scope_ref(*ops[0], *ops[1]);
      add_node(with ? "make_scope_ref(a,b,type)" : "make_scope_ref(a,b)", n, Category_code::Scope_ref, [n, a = ops[0], b = ops[1], t](Ck& c) {
         c.same("first", &n->first(), a); c.same("second", &n->second(), b); c.same("scope", &n->scope(), a); c.same("member", &n->member(), b); c.type_opt(*n, t); });
   }
   for (int with = 0; with < 2; ++with) {
      auto ops = P.distinct(P.exprs, 2); Optional<Type> t = with ? Optional<Type>(&P.T()) : Optional<Type>();
      auto* n = with ? lex.make_member_init(*ops[0], *ops[1], t) : lex.make_member_init(*ops[0], *ops[1]);
      add_node(with ? "make_member_init(a,b,type)" : "make_member_init(a,b)", n, Category_code::Member_init, [n, a = ops[0], b = ops[1], t](Ck& c) {
         c.same("first", &n->first(), a); c.same("second", &n->second(), b); c.same("member", &n->member(), a); c.same("initializer", &n->initializer(), b); c.type_opt(*n, t); });
   }
   VH_CAST(make_cast, Cast) VH_CAST(make_const_cast, Const_cast) VH_CAST(make_dynamic_cast, Dynamic_cast)
   VH_CAST(make_reinterpret_cast, Reinterpret_cast) VH_CAST(make_static_cast, Static_cast)
   // literals (unified): type() is the first operand
   for (int v = 0; v < 2; ++v) {
      auto& t = P.T(); auto& s = *rng.pick(P.strings);
      const Literal* n = v ? lex.make_literal(t, s) : lex.make_literal(t, s.characters());
      add_node(v ? "make_literal(type,String)" : "make_literal(type,word)", n, Category_code::Literal, [n, tp = &t, sp = &s](Ck& c) {
         c.same("first", &n->first(), tp); c.same("second", &n->second(), sp); c.same("string", &n->string(), sp); c.type_is(*n, *tp, "literal: its type operand"); }, false);
   }
   // conversions with an explicit result type
   {  auto& e = P.X(); auto ts = P.distinct(P.types, 2); auto* n = lex.make_coercion(e, *ts[0], *ts[1]);
      add_node("make_coercion", n, Category_code::Coercion, [n, ep = &e, a = ts[0], r = ts[1]](Ck& c) { c.same("first", &n->first(), ep); c.same("second", &n->second(), a); c.same("expr", &n->expr(), ep); c.same("target", &n->target(), a); c.type_is(*n, *r, "given"); }); }
   {  auto& e = P.X(); auto ts = P.distinct(P.types, 2); auto* n = lex.make_narrow(e, *ts[0], *ts[1]);
      add_node("make_narrow", n, Category_code::Narrow, [n, ep = &e, a = ts[0], r = ts[1]](Ck& c) { c.same("expr", &n->expr(), ep); c.same("derived", &n->derived(), a); c.type_is(*n, *r, "given"); }); }
   {  auto& e = P.X(); auto ts = P.distinct(P.types, 2); auto* n = lex.make_pretend(e, *ts[0], *ts[1]);
      add_node("make_pretend", n, Category_code::Pretend, [n, ep = &e, a = ts[0], r = ts[1]](Ck& c) { c.same("expr", &n->expr(), ep); c.same("target", &n->target(), a); c.type_is(*n, *r, "given"); }); }
   {  auto& e = P.X(); auto ts = P.distinct(P.types, 2); auto* n = lex.make_widen(e, *ts[0], *ts[1]);
      add_node("make_widen", n, Category_code::Widen, [n, ep = &e, a = ts[0], r = ts[1]](Ck& c) { c.same("expr", &n->expr(), ep); c.same("base", &n->base(), a); c.type_is(*n, *r, "given"); }); }
   {  auto& e = P.X(); auto& t = P.T(); auto q = Qualifiers(1 + rng.below(7)); auto* n = lex.make_qualification(e, q, t);
      add_node("make_qualification", n, Category_code::Qualification, [n, ep = &e, q, tp = &t](Ck& c) { c.same("expr", &n->expr(), ep); c.eq("qualifiers", (long long)n->qualifiers(), (long long)q); c.type_is(*n, *tp, "given"); }); }
   {  auto ops = P.distinct(P.exprs, 2); auto* n = lex.make_rewrite(*ops[0], *ops[1]);
      add_node("make_rewrite", n, Category_code::Rewrite, [n, a = ops[0], b = ops[1]](Ck& c) { c.same("source", &n->source(), a); c.same("target", &n->target(), b); c.type_is(*n, b->type(), "rewrite: the target's type"); }); }
   {  auto ops = P.distinct(P.exprs, 2); auto* n = lex.make_where(*ops[0], *ops[1]);
      add_node("make_where(main,attendant)", n, Category_code::Where, [n, a = ops[0], b = ops[1]](Ck& c) { c.same("main", &n->main(), a); c.same("attendant", &n->attendant(), b); c.type_is(*n, a->type(), "where: the main expression's type"); }); }
   // binary folds: every category code as operation
   {  int code = int(rng.below(int(Category_code::last_code_cat)));
      for (int with = 0; with < 2; ++with) {
         auto ops = P.distinct(P.exprs, 2); Optional<Type> t = with ? Optional<Type>(&P.T()) : Optional<Type>();
         auto* n = with ? lex.make_binary_fold(Category_code(code), *ops[0], *ops[1], t) : lex.make_binary_fold(Category_code(code), *ops[0], *ops[1]);
         add_node(with ? "make_binary_fold(op,a,b,type)" : "make_binary_fold(op,a,b)", n, Category_code::Binary_fold, [n, a = ops[0], b = ops[1], t, code](Ck& c) {
            c.same("first", &n->first(), a); c.same("second", &n->second(), b); c.eq("operation", (long long)n->operation(), code); c.type_opt(*n, t); });
         code = (code + 37) % int(Category_code::last_code_cat);
      } }
}

inline void Sweep::exprs_other()
{
   const Lexicon& L = lex;
   // calls
   for (int with = 0; with < 2; ++with) {
      auto& f = P.X(); auto* args = lex.make_expr_list(); args->push_back(&P.X()); Optional<Type> t = with ? Optional<Type>(&P.T()) : Optional<Type>();
      auto* n = with ? lex.make_call(f, *args, t) : lex.make_call(f, *args);
      add_node(with ? "make_call(f,args,type)" : "make_call(f,args)", n, Category_code::Call, [n, fp = &f, args, t](Ck& c) {
         c.same("function", &n->function(), fp); c.same("args", &n->args(), static_cast<const Expr_list*>(args)); c.type_opt(*n, t); });
   }
   {  auto& e = P.X(); auto* args = lex.make_expr_list(); args->push_back(&P.T());
      const Template_id* n = rng.chance(50) ? lex.make_template_id(e, *args) : &lex.get_template_id(e, *args);
      add_node("make_template_id", n, Category_code::Template_id, [n, ep = &e, args](Ck& c) { c.same("template_name", &n->template_name(), ep); c.same("args", &n->args(), static_cast<const Expr_list*>(args)); }, false); }
   // conditional
   for (int with = 0; with < 2; ++with) {
      auto ops = P.distinct(P.exprs, 3); Optional<Type> t = with ? Optional<Type>(&P.T()) : Optional<Type>();
      auto* n = with ? lex.make_conditional(*ops[0], *ops[1], *ops[2], t) : lex.make_conditional(*ops[0], *ops[1], *ops[2]);
      add_node(with ? "make_conditional(c,a,b,type)" : "make_conditional(c,a,b)", n, Category_code::Conditional, [n, ops, t](Ck& c) {
         c.same("condition", &n->condition(), ops[0]); c.same("then_expr", &n->then_expr(), ops[1]); c.same("else_expr", &n->else_expr(), ops[2]); c.type_opt(*n, t); });
   }
   // new: placement present/absent x type present/absent x global flag
   for (int v = 0; v < 4; ++v) {
      auto* enc = lex.make_enclosure(v % 2 ? Delimiter::Brace : Delimiter::Nothing, v % 2 ? P.X() : static_cast<const Expr&>(*lex.make_phantom()));
      auto* ctor = lex.make_construction(P.T(), *enc);
      impl::Expr_list* placement = (v & 1) ? lex.make_expr_list() : nullptr;
      if (placement) placement->push_back(&P.X());
      Optional<Type> t = (v & 2) ? Optional<Type>(&P.T()) : Optional<Type>();
      Optional<Expr_list> pl = placement ? Optional<Expr_list>(placement) : Optional<Expr_list>();
      auto* n = (v & 2) ? lex.make_new(pl, *ctor, t) : lex.make_new(pl, *ctor);
      bool global = rng.chance(50); n->global = global;
      add_node("make_new(variant " + std::to_string(v) + ")", n, Category_code::New, [n, placement, ctor, t, global](Ck& c) {
         c.opt("placement", n->placement(), static_cast<const Expr_list*>(placement)); c.same("initializer", &n->initializer(), static_cast<const Construction*>(ctor));
         c.eq("global_requested", n->global_requested(), global); c.type_opt(*n, t); });
   }
   // mapping, lambda, requires
   {  auto& r = P.R(); auto lvl = Mapping_level{ std::size_t(rng.below(5)) }; auto* n = lex.make_mapping(r, lvl);
      int k = int(rng.below(4)); std::vector<const Parameter*> ps; std::vector<const Type*> ts;
      for (int i = 0; i < k; ++i) { ts.push_back(&P.T()); ps.push_back(n->param(*P.idents[i], *ts.back())); }
      bool with_body = rng.chance(70); const Expr* body = with_body ? &P.X() : nullptr; if (body) n->body = body;
      Optional<Type> t = rng.chance(50) ? Optional<Type>(&P.T()) : Optional<Type>(); n->typing = t;
      add_node("make_mapping", n, Category_code::Mapping, [n, rp = &r, lvl, ps, ts, body, t](Ck& c) {
         c.eq("parameters.level", (long long)n->parameters().level(), (long long)lvl); c.eq("parameters.size", (long long)n->parameters().size(), (long long)ps.size());
         std::size_t i = 0; for (auto& p : n->parameters()) { if (i < ps.size()) { c.same("parameters[i]", &p, ps[i]); c.eq("parameters[i].position", (long long)p.position(), (long long)i); c.same("parameters[i].type", &p.type(), ts[i]); } ++i; }
         c.same("parameters.region.enclosing", &n->parameters().region().enclosing(), static_cast<const Region*>(rp));
         if (body) c.same("result", &n->result(), body); else c.absent("result", [&] { (void)&n->result(); });
         c.type_opt(*n, t); }); }
   {  auto& r = P.R(); auto lvl = Mapping_level{ std::size_t(rng.below(5)) }; auto* n = lex.make_lambda(r, lvl);
      auto* clo = lex.make_closure(r); bool typed = rng.chance(70); if (typed) n->typing = clo;
      const Expr* body = rng.chance(50) ? &P.X() : nullptr; if (body) n->body = body;
      const Type* tgt = rng.chance(50) ? &P.T() : nullptr; n->value_type = tgt;
      const Expr* req = rng.chance(50) ? &P.X() : nullptr; n->decl_constraint = req;
      const Expr* eh = rng.chance(50) ? &P.X() : nullptr; n->eh = eh;
      auto spec = Lambda_specifiers(rng.below(8)); n->lam_spec = spec;
      add_node("make_lambda", n, Category_code::Lambda, [n, clo, typed, body, tgt, req, eh, spec, lvl](Ck& c) {
         if (typed) c.type_is(*n, *clo, "lambda: its closure type"); else c.absent("type", [&] { (void)&n->type(); }, A_TYPE);
         if (body) c.same("result", &n->result(), body); else c.absent("result", [&] { (void)&n->result(); });
         c.opt("target", n->target(), tgt); c.opt("requirement", n->requirement(), req); c.opt("eh_specification", n->eh_specification(), eh);
         c.eq("specifiers", (long long)n->specifiers(), (long long)spec); c.eq("parameters.level", (long long)n->parameters().level(), (long long)lvl);
         c.eq("captures.size", (long long)n->captures().size(), 0); c.eq("attributes.size", (long long)n->attributes().size(), 0); }); }
   {  auto& r = P.R(); auto lvl = Mapping_level{ std::size_t(rng.below(5)) }; auto* n = lex.make_requires(r, lvl);
      add_node("make_requires", n, Category_code::Requires, [n, lvl, bt = &L.bool_type()](Ck& c) {
         c.type_is(*n, *bt, "requires-expression: bool"); c.eq("parameters.level", (long long)n->parameters().level(), (long long)lvl); c.eq("body.size", (long long)n->body().size(), 0); }); }
   // where with declarations
   {  auto& r = P.R(); auto* n = lex.make_where(r); bool with_main = rng.chance(70); const Expr* main = with_main ? &P.X() : nullptr; if (main) n->result = main;
      add_node("make_where(region)", n, Category_code::Where, [n, rp = &r, main](Ck& c) {
         c.same("attendant", &n->attendant(), static_cast<const Expr*>(&n->region.bindings())); c.same("region.enclosing", &n->region.enclosing(), static_cast<const Region*>(rp));
         if (main) { c.same("main", &n->main(), main); c.type_is(*n, main->type(), "where: the main expression's type"); }
         else { c.absent("main", [&] { (void)&n->main(); }); c.absent("type", [&] { (void)&n->type(); }, A_TYPE); } }); }
   // substitutions and instantiation
   {  auto& p = *rng.pick(P.params); auto& v = P.X(); auto* s = lex.make_elementary_substitution(p, v);
      add_other("make_elementary_substitution", s, [s, pp = &p, vp = &v](Ck& c) { c.same("operator[](bound)", &(*static_cast<const Substitution*>(s))[*pp], vp); });
      auto* g = lex.make_general_substitution();
      add_other("make_general_substitution", g, [g, pp = &p](Ck& c) { c.same("operator[](unbound)", &(*static_cast<const Substitution*>(g))[*pp], static_cast<const Expr*>(pp)); });
      // a general substitution is given its operands after construction, one binding at a time: it reports the value last given
      // for each parameter (first-time bindings, a re-binding, a binding given through the returned substitution)
      {  auto* g2 = lex.make_general_substitution(); auto& p2 = *rng.pick(P.params); auto& v1 = P.X(); auto& v2 = P.X(); auto& v3 = P.X();
         g2->subst(p, v1); g2->subst(p2, v2).subst(p, v3);
         const bool same_parm = &p2 == &p;
         add_other("General_substitution::subst(rebinding)", g2, [g2, pp = &p, pq = &p2, a = &v1, b = &v2, cc = &v3, same_parm](Ck& c) {
            (void)a; c.same("operator[](rebound: latest value)", &(*static_cast<const Substitution*>(g2))[*pp], cc);
            if (!same_parm) c.same("operator[](bound once)", &(*static_cast<const Substitution*>(g2))[*pq], b); }); }
      for (int with = 0; with < 2; ++with) {
         auto& e = P.X(); auto* n = lex.make_instantiation(e, *s); const Expr* inst = with ? &P.X() : nullptr; if (inst) n->result = inst;
         add_node(with ? "make_instantiation(+instance)" : "make_instantiation", n, Category_code::Instantiation, [n, ep = &e, s, inst](Ck& c) {
            c.same("pattern", &n->pattern(), ep); c.same("substitution", &n->substitution(), static_cast<const Substitution*>(s)); c.opt("instance", n->instance(), inst);
            if (inst) c.type_is(*n, inst->type(), "instantiation: its instance's type"); else c.absent("type", [&] { (void)&n->type(); }, A_TYPE); });
      } }
   // asm / static_assert through the Lexicon (phased evaluations)
   {  auto& s = *rng.pick(P.strings); auto* n = lex.make_asm(s);
      add_node("make_asm", n, Category_code::Phased_evaluation, [n, sp = &s, vt = &L.void_type()](Ck& c) {
         c.eq("phases", (long long)n->phases(), (long long)Phases::Code_generation);
         auto a = util::view<Asm>(n->expression()); c.yes("expression", a != nullptr, "expression() is not an Asm node");
         if (a) { c.same("text", &a->text(), sp); c.type_is(*a, *vt, "asm: void"); }
         c.type_is(*n, *vt, "phased evaluation: its expression's type"); }); }
   for (int with = 0; with < 2; ++with) {
      auto& e = P.X(); const String* msg = with ? rng.pick(P.strings) : nullptr;
      auto* n = lex.make_static_assert(e, msg ? Optional<String>(msg) : Optional<String>());
      add_node(with ? "make_static_assert(e,msg)" : "make_static_assert(e)", n, Category_code::Phased_evaluation, [n, ep = &e, msg, bt = &L.bool_type()](Ck& c) {
         c.eq("phases", (long long)n->phases(), (long long)Phases::Elaboration);
         auto a = util::view<Static_assert>(n->expression()); c.yes("expression", a != nullptr, "expression() is not a Static_assert node");
         if (a) { c.same("condition", &a->condition(), ep); c.opt("message", a->message(), msg); c.type_is(*a, *bt, "static assertion: bool"); }
         c.type_is(*n, *bt, "phased evaluation: its expression's type"); });
   }
}
} // namespace vh
#endif
