// Factory registry ("sweep"): calls every linkable factory of <ipr/impl> with pairwise distinguishable
// operands and records, per produced artifact, a shadow check closure that re-verifies everything the
// interface must report about it (operands under their documented accessors, optional parts, flags,
// category, and the type rule).  Shared by C02, C05, C06, C09, C14, C15, C18, C19, C20.
#ifndef VERIF_SWEEP_CORE_HPP
#define VERIF_SWEEP_CORE_HPP
#include "common.hpp"
#include "reserved.hpp"
#include <ipr/impl>
#include <ipr/io>
#include <functional>
#include <memory>
#include <map>
#include <set>
#include <list>
#include <deque>

namespace vh {
using namespace ipr;

constexpr int A_OPERAND = 1, A_TYPE = 2, A_IDENTITY = 4;   // plain ints: ipr::operator| is a template over every enum

// Collects failed expectations of one shadow check.
struct Ck {
   std::string factory;
   std::vector<std::tuple<int, std::string, std::string>> fails;   // aspect, accessor, message
   long long checks = 0;
   const void* late_impl = nullptr;    // set when the node was given its implementation() after the fact (Sweep::annotate_late)
   void fail(int aspect, const std::string& acc, const std::string& msg) { fails.emplace_back(aspect, acc, msg); }
   void same(const char* acc, const void* got, const void* want, int aspect = A_OPERAND)
   {
      ++checks;
      if (got != want) fail(aspect, acc, std::string(acc) + "() does not return the operand it was built from");
   }
   void eq(const char* acc, long long got, long long want, int aspect = A_OPERAND)
   {
      ++checks;
      if (got != want) fail(aspect, acc, std::string(acc) + "() == " + std::to_string(got) + ", expected " + std::to_string(want));
   }
   void yes(const char* acc, bool ok, const char* msg, int aspect = A_OPERAND) { ++checks; if (!ok) fail(aspect, acc, msg); }
   // the call must raise std::logic_error (a missing part), nothing else
   template<class F> void absent(const char* acc, F f, int aspect = A_OPERAND)
   {
      ++checks;
      try { f(); fail(aspect, acc, std::string(acc) + "() returned although that part was never supplied"); }
      catch (const std::logic_error&) { }
      catch (...) { fail(aspect, acc, std::string(acc) + "() raised something that is not a std::logic_error"); }
   }
   template<class T> void opt(const char* acc, Optional<T> got, const T* want, int aspect = A_OPERAND)
   {
      ++checks;
      if (late_impl && std::strcmp(acc, "implementation") == 0) want = static_cast<const T*>(late_impl);
      if (want == nullptr) { if (got.is_valid()) fail(aspect, acc, std::string(acc) + "() is present although it was not supplied"); }
      else if (!got.is_valid()) fail(aspect, acc, std::string(acc) + "() is absent although it was supplied");
      else if (&got.get() != want) fail(aspect, acc, std::string(acc) + "() is not the supplied operand");
   }
   // type rule helpers (aspect A_TYPE)
   template<class N> void type_is(const N& n, const Type& t, const char* rule)
   {
      ++checks;
      // a type that was passed to the factory is an operand as well as the subject of the type rule
      const int aspect = std::strcmp(rule, "given") == 0 ? (A_TYPE | A_OPERAND) : A_TYPE;
      try { if (&n.type() != &t) fail(aspect, "type", std::string("type() is not the type its kind prescribes (") + rule + ")"); }
      catch (const std::exception& e) { fail(aspect, "type", std::string("type() raised ") + e.what() + " although the kind prescribes a type (" + rule + ")"); }
   }
   template<class N> void type_opt(const N& n, Optional<Type> t, const char* rule = "given")
   {
      if (t.is_valid()) type_is(n, t.get(), rule);
      else absent("type", [&] { (void)&n.type(); }, A_TYPE);
   }
};

struct Made {
   std::string factory;                 // factory (and variant) that produced it
   const Node* node = nullptr;          // null for artifacts that are not ipr::Node (forms, attributes, tokens, units ...)
   const void* address = nullptr;       // identity of the artifact
   Category_code cat = Category_code::Unknown;
   bool generative = true;              // false for unified results (get_*, literals, template-ids)
   std::function<void(Ck&)> check;      // shadow
   const void* late_impl = nullptr;     // implementation() recorded after construction, if any
};

// Distinguishable operand pools inside one Lexicon.
struct Pools {
   impl::Lexicon& lex;
   impl::Translation_unit& unit;
   Rng& rng;
   std::vector<const Expr*> exprs;          // pairwise distinct, each with a defined type()
   std::vector<const Type*> types;          // pairwise distinct
   std::vector<const Identifier*> idents;
   std::vector<const Name*> names;
   std::vector<const String*> strings;
   std::vector<impl::Region*> regions;
   std::vector<const Decl*> decls;
   std::vector<const Parameter*> params;
   std::vector<const Var*> vars;
   std::vector<const Stmt*> stmts;
   std::vector<const Template*> templates;
   impl::Class* a_class = nullptr;

   Pools(impl::Lexicon& l, impl::Translation_unit& u, Rng& r) : lex(l), unit(u), rng(r)
   {
      const Lexicon& L = lex;
      auto& greg = *unit.global_region();
      regions.push_back(&greg);
      for (int i = 0; i < 3; ++i) regions.push_back(greg.make_subregion());
      regions.push_back(regions[1]->make_subregion());
      const Type* b[] = { &L.int_type(), &L.bool_type(), &L.char_type(), &L.double_type(), &L.long_type(), &L.void_type(), &L.uint_type(), &L.float_type() };
      for (auto t : b) types.push_back(t);
      a_class = lex.make_class(greg);
      types.push_back(a_class);
      types.push_back(&lex.get_pointer(L.int_type())); types.push_back(&lex.get_reference(L.char_type()));
      types.push_back(&lex.get_qualified(Qualifiers(1), L.int_type()));
      for (int i = 0; i < 10; ++i) {
         std::string s = "id" + std::to_string(i);
         idents.push_back(&lex.get_identifier(widen(s)));
         names.push_back(idents.back());
         strings.push_back(&lex.get_string(widen("str" + std::to_string(i))));
      }
      a_class->id = idents[9];
      names.push_back(&lex.get_operator(u8"+")); names.push_back(&lex.get_conversion(L.bool_type())); names.push_back(&lex.get_ctor_name(*a_class));
      for (int i = 0; i < 16; ++i) exprs.push_back(lex.make_literal(*types[i % 8], widen(std::to_string(100 + i))));
      for (int i = 0; i < 4; ++i) exprs.push_back(lex.make_id_expr(*idents[i], *types[(i + 3) % 8]));
      // declarations
      auto* sc = unit.global_scope();
      for (int i = 0; i < 4; ++i) {
         auto* v = sc->make_var(*idents[i], *types[i]);
         v->decl_data.master_data->home = &greg; v->lexreg = &greg; v->decl_data.master_data->langlinkage = &L.cxx_linkage();
         vars.push_back(v); decls.push_back(v);
      }
      {  // a redeclaration (same name, same type, same scope): master() is the first declaration, not the node itself
         auto* v = sc->make_var(*idents[0], *types[0]);
         v->decl_data.master_data->home = &greg; v->lexreg = &greg;
         vars.push_back(v); decls.push_back(v);
      }
      auto* m = lex.make_mapping(greg, Mapping_level{ 1 });
      for (int i = 0; i < 4; ++i) { auto* p = m->param(*idents[4 + i], *types[i]); params.push_back(p); decls.push_back(p); }
      m->body = exprs[0];
      for (int i = 0; i < 4; ++i) stmts.push_back(lex.make_expr_stmt(*exprs[i]));
      impl::Warehouse<Type> w; w.push_back(L.typename_type());
      auto& fa = lex.get_forall(lex.get_product(w), L.class_type());
      for (int i = 0; i < 2; ++i) {
         auto* t = sc->make_primary_template(*idents[8 - i], fa);
         t->decl_data.master_data->home = &greg; t->lexreg = &greg;
         templates.push_back(t);
      }
      for (int i = 0; i < 2; ++i) {     // and a redeclaration of each template
         auto* t = sc->make_primary_template(*idents[8 - i], fa);
         t->lexreg = &greg;
         templates.push_back(t);
      }
   }
   // k distinct picks from a pool
   template<class T> std::vector<T> distinct(const std::vector<T>& pool, int k)
   {
      std::vector<T> v(pool);
      for (std::size_t i = v.size(); i > 1; --i) std::swap(v[i - 1], v[rng.below(i)]);
      v.resize(std::size_t(k));
      return v;
   }
   const Expr& X() { return *rng.pick(exprs); }
   const Type& T() { return *rng.pick(types); }
   impl::Region& R() { return *rng.pick(regions); }
};

struct Sweep {
   impl::Lexicon& lex;
   impl::Translation_unit& unit;
   Rng& rng;
   Pools P;
   std::vector<Made> made;
   impl::attr_factory attrs;                    // stand-alone factories (not part of the Lexicon)
   impl::capture_spec_factory captures;
   // the capture specifications made, by interface class (they are not nodes: no visitor of ours reaches them)
   std::vector<const ipr::Capture_specification::Default*> default_captures; std::vector<const ipr::Capture_specification::Implicit_object*> object_captures;
   std::vector<const ipr::Capture_specification::Enclosing_local*> local_captures; std::vector<const ipr::Capture_specification::Binding*> binding_captures;
   std::vector<const ipr::Capture_specification::Expansion*> expansion_captures;
   std::deque<impl::Token> tokens;
   std::deque<impl::Comment> comments;
   std::deque<impl::Annotation> annotations;
   std::list<impl::Module> modules;
   std::vector<std::pair<const void*, std::function<const ipr::Expr*(const ipr::Expr*)>>> classic;   // nodes that can record a user-supplied implementation
   bool twins_unavailable = false;            // the platform hash is not the one the twin generator inverts
   long long twin_requests = 0;               // requests made with operand twins (sweep_neighbours.hpp)

   Sweep(impl::Lexicon& l, impl::Translation_unit& u, Rng& r) : lex(l), unit(u), rng(r), P(l, u, r) { }

   template<class N>
   Made& add_node(const std::string& factory, const N* n, Category_code cat, std::function<void(Ck&)> check, bool generative = true)
   {
      Made m; m.factory = factory; m.node = n; m.address = static_cast<const Node*>(n); m.cat = cat; m.generative = generative; m.check = std::move(check);
      made.push_back(std::move(m));
      // classic operations (and literals, conversions) can be told, at any later time, which user-supplied operation implements them
      using W = std::conditional_t<std::is_same_v<N, ipr::Literal>, impl::Literal, N>;
      if constexpr (requires (W* p, Optional<ipr::Expr> o) { p->op_impl = o; })
         classic.emplace_back(made.back().address, [w = const_cast<W*>(static_cast<const W*>(n))](const ipr::Expr* e) -> const ipr::Expr* {
            if (!w->op_impl.is_valid()) w->op_impl = e;
            return &w->op_impl.get(); });
      return made.back();
   }
   // Record an implementation() on every classic node that has none yet (what a front end does once overload resolution is
   // done): every other accessor, type() included, must answer as before; the shadows then expect the recorded expression.
   long long annotate_late()
   {
      long long done = 0;
      std::map<const void*, const void*> now;
      for (auto& [addr, set] : classic) { now[addr] = set(P.decls[rng.below(P.decls.size())]); ++done; }
      for (auto& m : made) { auto it = now.find(m.address); if (it != now.end()) m.late_impl = it->second; }
      return done;
   }
   Made& add_other(const std::string& factory, const void* addr, std::function<void(Ck&)> check)
   {
      Made m; m.factory = factory; m.address = addr; m.check = std::move(check);
      made.push_back(std::move(m));
      return made.back();
   }
   void exprs_unary(); void exprs_binary(); void exprs_other();
   void stmts(); void directives(); void types_and_names(); void decls_and_regions(); void forms(); void attributes_captures_units(); void unified_neighbours();
   void run_all()
   {
      exprs_unary(); exprs_binary(); exprs_other(); stmts(); directives(); types_and_names(); decls_and_regions(); forms(); attributes_captures_units(); unified_neighbours();
   }
   // run the shadow of one artifact; returns failures through Ck
   static void run_check(const Made& m, Ck& ck)
   {
      ck.factory = m.factory; ck.late_impl = m.late_impl;
      if (m.node) { ++ck.checks; if (m.node->category != m.cat) ck.fail(A_OPERAND, "category", "category code is not that of the node's interface class"); }
      try { if (m.check) m.check(ck); }
      catch (const std::exception& e) { ck.fail(A_OPERAND, "shadow", std::string("an accessor raised unexpectedly: ") + e.what()); }
   }
};
} // namespace vh
#endif
