// C20 -- Lexicons are isolated: independent instances can be used from different threads.
// Rounds of T threads, each with its own Lexicon (+ unit, extra units, module), released together by a barrier and
// running an everything+growth life (all-factories sweep with shadows re-read, a generated construction program built
// and printed with locations, reserved words / constants / linkages / transfers, growth of every unified table).
// Three oracles:  (1) ThreadSanitizer report blocks (counted by the driver from the log; any block is a violation);
// (2) trace equality: the address-free trace of every life must equal the trace of the same life run alone beforehand;
// (3) sharing: an address handed out to two Lexicons must be an immutable process-wide constant (storage of the
//     executable that is not writable, or a node reachable from the Lexicon's constant accessors).
// The only monitor state shared between threads is two relaxed atomics (ticket, inside) used to measure overlap; relaxed,
// so the monitor adds no happens-before edge that could hide a race.  No fork in this harness.
#include "sweep_all.hpp"
#include "progs.hpp"
#include "collect.hpp"
#include "successive.hpp"
#include <optional>
#include <thread>
#include <atomic>
#include <memory>
#include <sstream>
#include <fstream>
#include <condition_variable>
#include <mutex>
#include <sched.h>
#include <time.h>

using namespace vh;

namespace {
std::atomic<std::uint32_t> g_ticket { 0 };
std::atomic<int> g_inside { 0 };

struct Barrier {
   std::mutex m; std::condition_variable cv; int waiting = 0, n; int generation = 0;
   explicit Barrier(int k) : n(k) { }
   void wait() { std::unique_lock<std::mutex> l(m); int g = generation; if (++waiting == n) { waiting = 0; ++generation; cv.notify_all(); } else cv.wait(l, [&] { return g != generation; }); }
};

struct LifeSpec { int kind; std::uint64_t seed; const Prog* prog; bool destroy_early; bool inject; int nest = 0; };

struct Life {
   std::optional<impl::Lexicon> lex;               // in place: a predecessor Lexicon occupies the very same storage first
   std::unique_ptr<impl::Translation_unit> unit;
   std::list<impl::Translation_unit> more_units;
   std::list<impl::Module> modules;
   std::unique_ptr<Rng> sweep_rng;
   std::unique_ptr<Sweep> sweep;                     // owns stand-alone factories (attributes, captures, tokens, modules): lives as long as the Lexicon
   std::string trace;
   std::vector<const void*> addrs;
   std::map<const void*, std::string> tags;          // how each address was obtained (first route)
   void addr(const void* p, const std::string& how) { addrs.push_back(p); tags.emplace(p, how); }
   std::vector<std::pair<std::uint32_t, int>> ticks;     // (ticket, threads inside at that moment)
   long long api_batches = 0, shadow_fails = 0, printed = 0, mirror_requests = 0, first_words_oversize = 0, names_outside_the_basis_asked = 0, deep_expression_nests = 0;
   std::vector<std::string> mirror_fails;
};

struct Ticker {
   Life& L; Rng rng; bool inject;
   Ticker(Life& l, std::uint64_t s, bool inj) : L(l), rng(s), inject(inj) { }
   void tick()
   {
      ++L.api_batches;
      L.ticks.emplace_back(g_ticket.fetch_add(1, std::memory_order_relaxed), g_inside.load(std::memory_order_relaxed));
      if (inject) {
         // delays are injected here, in the harness between API calls, never inside the library
         const auto r = rng.below(100);
         if (r < 12) sched_yield();
         else if (r < 15) { timespec ts { 0, long(20000 + rng.below(200000)) }; nanosleep(&ts, nullptr); }
      }
   }
};

void append_printed(std::string& trace, const Lexicon& L, const impl::Translation_unit& unit, const Exec& ex, const Prog& p)
{
   for (int locations = 0; locations < 2; ++locations) {
      std::ostringstream os;
      auto item = [&](auto f) {
         Printer pp(L, os); pp.print_locations = bool(locations);
         try { f(pp); }
         catch (const std::logic_error& e) { os << "\n@@refused(" << e.what() << ")"; }
         catch (const std::exception& e) { os << "\n@@other-exception(" << typeid(e).name() << ")"; }
         os << "\n@@--\n";
      };
      for (auto& d : unit.global_namespace().scope().elements()) item([&](Printer& pp) { pp << xpr_decl(d, true); });
      for (int t : p.top) item([&](Printer& pp) { pp << xpr_stmt(*ex.vals[std::size_t(t)].e); });
      item([&](Printer& pp) { pp << unit; });
      trace += os.str();
   }
}

// One life.  Everything observable goes into L.trace in an address-free form.
void run_life(const LifeSpec& spec, Life& L)
{
   g_inside.fetch_add(1, std::memory_order_relaxed);
   Ticker T(L, spec.seed ^ 0x5151, spec.inject);
   auto mirror_report = [&](const std::string& k, const std::string& m) { L.mirror_fails.push_back(k + ": " + m); };
   // a predecessor: a Lexicon built, asked the mirror requests and destroyed in the storage the life's own Lexicon then takes
   // (on this very thread): the life's Lexicon must behave as if it were the first one there
   L.lex.emplace(); L.mirror_requests += mirror_requests(*L.lex, mirror_report); L.lex.reset();
   L.lex.emplace();
   L.unit = std::make_unique<impl::Translation_unit>(*L.lex);
   impl::Lexicon& lex = *L.lex; const Lexicon& CL = lex;
   // the very first word of some lives is beyond the arena's oversize threshold: what a Lexicon allocates first, whatever its
   // size, is as private as everything later; the word is read back when the life is over
   const String* first_word = nullptr; std::size_t first_word_size = 0;
   if ((spec.seed >> 5) % 3 != 0) {
      std::string w(65537 + std::size_t(spec.seed % 7) * 9001, 'Q'); first_word_size = w.size();
      first_word = &lex.get_string(widen(w)); L.addr(first_word, "oversize first word");
   }
   L.mirror_requests += mirror_requests(lex, mirror_report);
   auto& unit = *L.unit;
   Rng rng(spec.seed);
   std::ostringstream tr;
   T.tick();
   // (a) constants and reserved words: every thread goes through the same constexpr tables at the same time
   if (spec.kind % 2 == 0) {
      for (auto w : reserved_words) {
         auto& s = lex.get_string(w); auto& id = lex.get_identifier(w); auto& lg = lex.get_logogram(s);
         L.addr(&s, "get_string(reserved word)"); L.addr(&id, "get_identifier(reserved word)");
         tr << "R:" << narrow(s.characters()) << ":" << narrow(id.string().characters()) << ":" << narrow(lg.what().characters()) << ";";
         T.tick();
      }
      const Type* bs[] = { &CL.void_type(), &CL.bool_type(), &CL.char_type(), &CL.int_type(), &CL.long_type(), &CL.double_type(), &CL.typename_type(), &CL.class_type(), &CL.namespace_type(), &CL.ellipsis_type() };
      for (auto b : bs) { L.addr(b, "built-in type accessor"); L.addr(&b->name(), "name of a built-in type"); tr << "B:" << int(b->category) << ":" << narrow(util::view<Identifier>(b->name())->string().characters()) << ";"; }
      for (auto s : { &CL.true_value(), &CL.false_value(), &CL.nullptr_value(), &CL.default_value(), &CL.delete_value() }) { L.addr(s, "symbolic constant accessor"); L.addr(&s->type(), "type of a symbolic constant"); tr << "S:" << int(s->type().category) << ";"; }
      for (auto sp : { "C", "C++", "Java", "" }) {
         auto& lk = lex.get_linkage(widen(sp)); auto& cc = lex.get_calling_convention(widen(sp)); auto& x = lex.get_transfer(lk, cc);
         L.addr(&lk, std::string("get_linkage(") + sp + ")"); L.addr(&cc, std::string("get_calling_convention(") + sp + ")"); L.addr(&x, std::string("get_transfer(") + sp + "," + sp + ")");
         tr << "X:" << narrow(lk.language().what().characters()) << "/" << narrow(x.convention().name().what().characters()) << ":" << (lk == CL.cxx_linkage()) << (lk == CL.c_linkage()) << (x == impl::cxx_transfer()) << ";";
         T.tick();
      }
      L.addr(&CL.c_linkage(), "c_linkage()"); L.addr(&CL.cxx_linkage(), "cxx_linkage()"); L.addr(&String::empty_string(), "empty_string()");
      tr << "\n";
   }
   // (b) every factory, shadows re-read, every expression offered to the printer
   if (spec.kind % 3 != 2) {
      L.sweep_rng = std::make_unique<Rng>(rng.next());
      L.sweep = std::make_unique<Sweep>(lex, unit, *L.sweep_rng);
      Sweep& S = *L.sweep;
      S.exprs_unary(); T.tick(); S.exprs_binary(); T.tick(); S.exprs_other(); T.tick(); S.stmts(); T.tick(); S.directives(); T.tick();
      S.types_and_names(); T.tick(); S.decls_and_regions(); T.tick(); S.forms(); T.tick(); S.attributes_captures_units(); T.tick(); S.unified_neighbours(); T.tick();
      std::ostringstream os;
      for (auto& m : S.made) {
         Ck ck; Sweep::run_check(m, ck);
         tr << m.factory << ":" << int(m.cat) << ":" << ck.checks << ":" << ck.fails.size();
         for (auto& f : ck.fails) { tr << "!" << std::get<2>(f); ++L.shadow_fails; }
         tr << ";";
         L.addr(m.address, "result of " + m.factory);
         if (auto e = dynamic_cast<const Expr*>(m.node)) { Printer pp(CL, os); try { pp << xpr_expr(*e); } catch (const std::logic_error&) { os << "@@refused"; } os << "\n"; }
      }
      T.tick();
      Collector col; collect_roots(col, S);
      for (auto n : col.nodes) L.addr(n, "reached through the accessors of a sweep node: " + demangle(typeid(*n).name()));
      tr << "\nclosure:" << col.nodes.size() << "\n" << os.str();
      L.printed += (long long)os.str().size();
   }
   // (c) a generated program, built step by step with delays in between, printed with and without locations
   if (spec.prog) {
      Exec E(lex, unit);
      E.between = [&](int) { T.tick(); };
      if (spec.kind % 5 == 4) { Rng order(spec.seed ^ 77); E.run_shuffled(*spec.prog, order); } else E.run(*spec.prog);
      for (auto& v : E.vals) { if (v.e) { L.addr(v.e, "program step result: " + demangle(typeid(*v.e).name())); tr << int(v.e->category) << ","; } if (v.n) L.addr(v.n, "program step name"); if (v.t) L.addr(v.t, "program step type"); }
      tr << "\n";
      std::string txt; append_printed(txt, CL, unit, E, *spec.prog);
      L.printed += (long long)txt.size();
      tr << txt;
      T.tick();
   }
   // (d) growth of unified tables, scopes, strings (pool roll-over), extra units and a module
   if (spec.kind % 4 == 1) {
      std::vector<const Type*> ts { &CL.int_type(), &CL.char_type(), &CL.double_type() };
      for (int i = 0; i < 400; ++i) {
         const Type& t = *ts[rng.below(ts.size())];
         const Type* n = nullptr;
         switch (i % 7) {
         case 0: n = &lex.get_pointer(t); break; case 1: n = &lex.get_reference(t); break; case 2: n = &lex.get_qualified(Qualifiers(1 + rng.below(7)), t); break;
         case 3: n = &lex.get_array(t, *lex.make_literal(CL.int_type(), widen(std::to_string(i)))); break;
         case 4: { impl::Warehouse<Type> w; for (int k = 0; k < int(rng.below(5)); ++k) w.push_back(*ts[rng.below(ts.size())]); n = &lex.get_function(lex.get_product(w), t); break; }
         case 5: n = &lex.get_as_type(*lex.make_literal(t, widen(std::to_string(i)))); break;
         default: n = &lex.get_rvalue_reference(t); break;
         }
         ts.push_back(n); L.addr(n, "grown type"); tr << int(n->category) << ",";
         if (i % 16 == 0) T.tick();
      }
      std::string w;
      for (int k = 0; k < 40; ++k) { w = "big" + std::to_string(k); w.resize(30000 + rng.below(30000), char('a' + k % 26)); auto& s = lex.get_string(widen(w)); L.addr(&s, "large string"); tr << s.characters().size() << ","; if (k % 8 == 0) T.tick(); }
      for (int u = 0; u < 3; ++u) { L.more_units.emplace_back(lex); L.more_units.back().global_scope()->make_var(lex.get_identifier(u8"x"), CL.int_type()); }
      L.modules.emplace_back(lex);
      for (int u = 0; u < 3; ++u) { auto* mu = L.modules.back().make_unit(); mu->global_scope()->make_var(lex.get_identifier(u8"y"), CL.long_type()); }
      tr << "\n";
      T.tick();
   }
   // (d') words beyond the arena's oversize threshold (65536 bytes), the same spellings on every thread: every life
   {
      std::string w;
      for (int k = 0; k < 3; ++k) { w.assign(65537 + std::size_t(k) * 4001, char('A' + k)); auto& s = lex.get_string(widen(w)); L.addr(&s, "oversize string"); auto& id = lex.get_identifier(widen(w)); L.addr(&id, "identifier with an oversize spelling"); tr << s.characters().size() << (&id.string() == &s) << ","; T.tick(); }
      tr << "\n";
   }
   // (d'') the mapping between names and specifier / qualifier sets, asked with names inside and OUTSIDE the basis (a vendor's
   //      qualifier, a misspelling: refused) and with sets that carry coordinates outside the basis; the same questions on every
   //      thread, the answers (value, or "refused") part of the trace: they depend on the question alone, never on which Lexicon
   //      or thread asked first
   {
      auto ask = [&](const char8_t* w, bool qual) {
         try {
            auto& lg = lex.get_logogram(lex.get_string(w));
            if (qual) tr << std::uintptr_t(util::rep(CL.qualifiers(Basic_qualifier { lg }))) << ","; else tr << std::uintptr_t(util::rep(CL.specifiers(Basic_specifier { lg }))) << ",";
         } catch (...) { tr << "refused,"; }       // the refusal is an object of a library-private type
      };
      const char8_t* words[] = { u8"const", u8"_Atomic", u8"volatile", u8"__unaligned", u8"restrict", u8"__ptr32", u8"static", u8"__declspec", u8"=0", u8"constexpr", u8"Const", u8"" };
      for (int rep = 0; rep < 2; ++rep) for (auto w : words) { ask(w, true); ask(w, false); if (rep == 0) T.tick(); }
      std::string vendor = "__vendor_q" + std::to_string(spec.kind % 3);      // not the same on every thread
      ask(widen(vendor).data(), true); ask(widen(vendor).data(), false);
      for (int b = 0; b < 64; b += 3) {
         try { for (auto& q : CL.decompose(Qualifiers((std::uintptr_t(1) << b) | 5))) tr << narrow(q.logogram().what().characters()) << " "; } catch (...) { tr << "raised "; }
         try { for (auto& q : CL.decompose(Specifiers((std::uintptr_t(1) << b) | 0x21))) tr << narrow(q.logogram().what().characters()) << " "; } catch (...) { tr << "raised "; }
         tr << ";";
      }
      tr << "\n";
      L.names_outside_the_basis_asked += 2 * 12 + 2;
      T.tick();
   }
   // (e) a nest of blocks deeper than anything printed in this process before: whatever the printer keeps per process
   //     (and grows on demand) is exercised by several threads at once
   if (spec.nest > 0) {
      impl::Region* r = unit.global_region();
      impl::Block* outer = lex.make_block(*r); impl::Block* b = outer;
      for (int d = 0; d < spec.nest; ++d) {
         b->add_stmt(*lex.make_expr_stmt(*lex.make_literal(CL.int_type(), widen(std::to_string(d)))));
         impl::Block* inner = lex.make_block(b->lexical_region); b->add_stmt(*inner);
         if (d % 7 == 3) { auto* h = b->new_handler(lex.get_identifier(u8"e"), CL.int_type()); h->body().add_stmt(*lex.make_break()); }
         b = inner;
         if (d % 8 == 0) T.tick();
      }
      b->add_stmt(*lex.make_return(*lex.make_literal(CL.int_type(), u8"0")));
      std::ostringstream os;
      for (int k = 0; k < 2; ++k) { Printer pp(CL, os); pp << xpr_stmt(*outer); os << "\n"; T.tick(); }
      tr << "nest:" << spec.nest << "\n" << os.str();
      L.printed += (long long)os.str().size();
   }
   // (e') an expression nested 150..250 operators deep in which every level needs parentheses (a sum inside a product), printed six
   //      times: several threads are inside deep expression prints at the same moment; each prints what it prints alone
   if (spec.nest > 0) {
      const int xdepth = 150 + (spec.nest * 13) % 101;
      const Expr* e = lex.make_id_expr(lex.get_identifier(u8"x"));
      for (int d = 0; d < xdepth; ++d) { e = lex.make_mul(*lex.make_plus(*e, *lex.make_literal(CL.int_type(), u8"1")), *lex.make_literal(CL.int_type(), u8"2")); if (d % 16 == 0) T.tick(); }
      std::ostringstream os;
      for (int k = 0; k < 6; ++k) { Printer pp(CL, os); try { pp << xpr_expr(*e); } catch (const std::exception& ex) { os << "<<exception " << ex.what() << ">>"; } os << "\n"; T.tick(); }
      tr << "xnest:" << xdepth << "\n" << os.str();
      L.printed += (long long)os.str().size(); ++L.deep_expression_nests;
   }
   if (first_word) {
      auto v = first_word->characters(); std::size_t good = 0; for (auto ch : v) good += (ch == u8'Q');
      tr << "first:" << (v.size() == first_word_size) << (good == first_word_size) << (&lex.get_string(v) == first_word) << "\n";
      L.first_words_oversize = 1;
   }
   L.trace = tr.str();
   if (spec.destroy_early) { L.sweep.reset(); L.modules.clear(); L.more_units.clear(); L.unit.reset(); L.lex.reset(); }
   g_inside.fetch_sub(1, std::memory_order_relaxed);
}

// --- address classification ---------------------------------------------------------------------------------------
struct Maps {
   struct R { std::uintptr_t lo, hi; bool writable; bool file; };
   std::vector<R> rs;
   Maps()
   {
      std::ifstream in("/proc/self/maps");
      std::string l;
      while (std::getline(in, l)) {
         unsigned long lo = 0, hi = 0; char perms[8] = { 0 }; unsigned long off = 0; char dev[16] = { 0 }; unsigned long ino = 0; char path[512] = { 0 };
         int n = std::sscanf(l.c_str(), "%lx-%lx %7s %lx %15s %lu %511s", &lo, &hi, perms, &off, dev, &ino, path);
         if (n >= 6) rs.push_back(R { lo, hi, perms[1] == 'w', ino != 0 });
      }
   }
   // storage of a mapped file (the executable or a library) that cannot be written: immutable for the life of the process
   bool immutable_image(const void* p) const { auto a = std::uintptr_t(p); for (auto& r : rs) if (a >= r.lo && a < r.hi) return r.file && !r.writable; return false; }
};
} // namespace

static void body(Ctx& C)
{
   const bool aux = std::getenv("VERIF_AUX") != nullptr;       // under helgrind: few, small rounds
   C.rule("a case = one life of one Lexicon on one thread of a round (T threads released together by a barrier, each building and printing in its own Lexicon; same life on several "
          "threads and different lives on others; delays injected between API calls); oracles: ThreadSanitizer report blocks (any = violation), the life's address-free trace "
          "(shadow results of every factory, categories, printed text with and without locations) equal to the trace of the same life run alone, and every address common to two "
          "live Lexicons being an immutable process-wide constant; distinct = distinct (life kind, seed, thread count, slot)");
   C.assume("the scheduler decides the interleavings (sampled); ThreadSanitizer sees instrumented code only (libstdc++ itself is not instrumented; every thread has its own stream)");
   C.assume("an address is an immutable constant when it lies in a non-writable mapping of a file (constant-initialised objects of the executable, after relocation) or is reachable from the constant accessors of a Lexicon");
   Rng rng(C.seed);
   const Maps maps;
   // closure of the process-wide constants, for addresses that live in writable static storage
   std::set<const void*> constant_closure;
   {
      impl::Lexicon lex; const Lexicon& L = lex;
      Collector col;
      const Type* bs[] = { &L.void_type(), &L.bool_type(), &L.char_type(), &L.schar_type(), &L.uchar_type(), &L.wchar_t_type(), &L.char8_t_type(), &L.char16_t_type(), &L.char32_t_type(),
         &L.short_type(), &L.ushort_type(), &L.int_type(), &L.uint_type(), &L.long_type(), &L.ulong_type(), &L.long_long_type(), &L.ulong_long_type(), &L.float_type(), &L.double_type(),
         &L.long_double_type(), &L.ellipsis_type(), &L.typename_type(), &L.class_type(), &L.union_type(), &L.enum_type(), &L.namespace_type() };
      for (auto b : bs) col.add(*b);
      for (auto s : { &L.true_value(), &L.false_value(), &L.nullptr_value(), &L.default_value(), &L.delete_value() }) col.add(*s);
      col.add(String::empty_string());
      for (auto w : reserved_words) { col.add(lex.get_string(w)); col.add(lex.get_identifier(w)); }
      for (std::size_t i = 0; i < col.nodes.size() && col.nodes.size() < 5000; ++i) col.expand(*col.nodes[i]);
      for (auto n : col.nodes) constant_closure.insert(n);
      constant_closure.insert(&L.c_linkage()); constant_closure.insert(&L.cxx_linkage()); constant_closure.insert(&impl::cxx_transfer()); constant_closure.insert(&impl::cxx_transfer().convention()); constant_closure.insert(&impl::cxx_transfer().linkage());
      long long in_image = 0; for (auto n : constant_closure) if (maps.immutable_image(n)) ++in_image;
      C.count("constant_closure_nodes", (long long)constant_closure.size()); C.count("constant_closure_nodes_in_read_only_image", in_image);
   }
   const int thread_counts_quick[] = { 2, 3, 4, 8, 16 };
   const int thread_counts_thorough[] = { 2, 3, 4, 8, 16, 32 };
   const int rounds = std::getenv("VERIF_C20_ROUNDS") ? std::atoi(std::getenv("VERIF_C20_ROUNDS")) : aux ? 3 : (C.thorough ? 60 : 6);       // ThreadSanitizer keeps every distinct allocation stack for the life of the process (~100 MB/s here): rounds are shared out over worker processes instead
   const int max_nest = std::getenv("VERIF_C20_MAXNEST") ? std::atoi(std::getenv("VERIF_C20_MAXNEST")) : 200;
   long long overlap_ticks = 0, total_ticks = 0, alternations = 0, sharing_checked = 0, shared_constants = 0;
   for (int round = 0; round < rounds; ++round) {
      const int T = aux ? (round == 0 ? 2 : 4) : (C.thorough ? thread_counts_thorough[round % 6] : thread_counts_quick[(round + C.worker) % 5]);
      const bool keep_alive = round % 3 != 2;      // in every third round Lexicons are destroyed while other threads still construct
      // programs and life specs for this round: half of the threads run the very same life
      std::vector<std::unique_ptr<Prog>> progs;
      std::vector<LifeSpec> specs;
      const int distinct_lives = std::max(1, T / 2);
      for (int k = 0; k < distinct_lives; ++k) {
         GenOptions o; o.size = aux ? 4 : 6 + int(rng.below(C.thorough ? 40 : 16)); o.max_depth = 2 + int(rng.below(5)); o.locations = true; o.unsupported = rng.chance(30); o.control_bytes = rng.chance(30); o.noise = true;
         Rng pr(rng.next());
         progs.push_back(std::make_unique<Prog>(generate_program(pr, o)));
         specs.push_back(LifeSpec { int(rng.below(60)), rng.next(), progs.back().get(), false, true, 0 });
         // every round prints a nest deeper than all earlier rounds of this process did
         if (k % 2 == 0) specs.back().nest = std::min(max_nest, 24 + 9 * round + int(rng.below(5)));
      }
      // sequential reference traces (no delays, main thread, alone): in odd rounds before the threads run, in even rounds
      // after them -- process-wide state that only changes the first time something is done (a lazily built table, a
      // buffer grown on demand) is then first touched by the concurrent threads, not by the reference run
      const bool reference_first = round % 2 == 1;
      std::vector<std::string> ref;
      auto reference_runs = [&] { for (auto& s : specs) { Life L; LifeSpec alone = s; alone.inject = false; alone.destroy_early = true; run_life(alone, L); ref.push_back(std::move(L.trace)); C.count("reference_lives"); } };
      if (reference_first) reference_runs();
      C.count(reference_first ? "rounds_reference_before_threads" : "rounds_threads_before_reference");
      std::vector<int> assign(static_cast<std::size_t>(T));
      for (int t = 0; t < T; ++t) assign[std::size_t(t)] = t < distinct_lives ? t : int(rng.below(std::uint64_t(distinct_lives)));
      std::vector<Life> lives(static_cast<std::size_t>(T));
      Barrier bar(T);
      g_ticket.store(0, std::memory_order_relaxed);
      {
         std::vector<std::thread> th;
         for (int t = 0; t < T; ++t)
            th.emplace_back([&, t] {
               LifeSpec s = specs[std::size_t(assign[std::size_t(t)])];
               s.destroy_early = !keep_alive && (t % 2 == 0);
               bar.wait();
               run_life(s, lives[std::size_t(t)]);
            });
         for (auto& x : th) x.join();
      }
      if (!reference_first) reference_runs();
      // (2) trace equality
      for (int t = 0; t < T; ++t) {
         auto& L = lives[std::size_t(t)];
         const auto& want = ref[std::size_t(assign[std::size_t(t)])];
         C.count("lives_on_threads"); C.count("api_batches", L.api_batches); C.count("printed_bytes", L.printed);
         C.eval(hash_mix(hash_mix(specs[std::size_t(assign[std::size_t(t)])].seed, std::uint64_t(T)), std::uint64_t(t)));
         C.count("mirror_requests", L.mirror_requests); C.count("lives_whose_first_word_is_oversize", L.first_words_oversize); C.count("specifier_and_qualifier_names_asked_concurrently", L.names_outside_the_basis_asked); C.count("deep_expression_nests_printed_concurrently", L.deep_expression_nests);
         for (auto& mf : L.mirror_fails) C.viol("successor-lexicon-not-alone:" + mf.substr(0, mf.find(':', 11)), "a Lexicon built where an earlier Lexicon of the same thread had lived did not behave as if alone: " + mf);
         if (L.shadow_fails) C.viol("shadow-fails-under-concurrency", "a factory-built node did not report its operands while other Lexicons were in use on other threads");
         if (L.trace != want) {
            std::size_t k = 0; while (k < L.trace.size() && k < want.size() && L.trace[k] == want[k]) ++k;
            C.viol("trace-differs-from-sequential-run", "a thread obtained results that differ from those of the same construction program run alone (first difference at byte " + std::to_string(k) + ")",
                   J().n("threads", T).n("slot", t).s("alone", want.substr(k > 60 ? k - 60 : 0, 200)).s("concurrent", L.trace.substr(k > 60 ? k - 60 : 0, 200)).str());
         }
         C.count("trace_bytes_compared", (long long)want.size());
      }
      // overlap actually achieved
      {
         std::vector<std::pair<std::uint32_t, int>> all;
         for (int t = 0; t < T; ++t) for (auto& [tk, inside] : lives[std::size_t(t)].ticks) { all.emplace_back(tk, t); ++total_ticks; if (inside >= 2) ++overlap_ticks; }
         std::sort(all.begin(), all.end());
         for (std::size_t i = 1; i < all.size(); ++i) if (all[i].second != all[i - 1].second) ++alternations;
      }
      // (3) sharing between live Lexicons
      if (keep_alive) {
         std::map<const void*, int> owner; std::set<const void*> shared;
         for (int t = 0; t < T; ++t) {
            std::set<const void*> mine(lives[std::size_t(t)].addrs.begin(), lives[std::size_t(t)].addrs.end());
            mine.erase(nullptr);
            for (auto a : mine) { auto [it, fresh] = owner.emplace(a, t); if (!fresh && it->second != t) shared.insert(a); }
            C.count("addresses_collected", (long long)mine.size());
         }
         for (auto a : shared) {
            ++sharing_checked;
            if (maps.immutable_image(a) || constant_closure.count(a)) { ++shared_constants; continue; }
            std::string what;
            for (int t = 0; t < T; ++t) { auto it = lives[std::size_t(t)].tags.find(a); if (it != lives[std::size_t(t)].tags.end()) what += (what.empty() ? "" : " | ") + it->second; if (what.size() > 300) break; }
            C.viol("node-shared-between-lexicons", "two live Lexicons handed out the same object, and it is neither in read-only storage of the executable nor one of the built-in constants (" + what + ")",
                   J().n("threads", T).str());
         }
         C.count("rounds_with_sharing_check");
      } else C.count("rounds_destroying_while_others_construct");
      if (round < 3) {
         std::string as; for (int t = 0; t < T; ++t) as += (t ? "," : "") + std::to_string(assign[std::size_t(t)]);
         long long ticks = 0, over = 0; for (int t = 0; t < T; ++t) for (auto& [tk, inside] : lives[std::size_t(t)].ticks) { ++ticks; if (inside >= 2) ++over; }
         C.sample(J().s("kind", "round").n("threads", T).n("distinct_lives", distinct_lives).s("life_of_each_thread", as).n("first_life_seed", (long long)specs[0].seed).n("first_life_kind", specs[0].kind)
                  .n("first_life_program_steps", (long long)specs[0].prog->steps.size()).n("deepest_block_nest_printed", specs[0].nest).b("reference_traces_before_threads", reference_first).b("lexicons_kept_alive_for_sharing_check", keep_alive)
                  .n("api_ticks", ticks).n("api_ticks_with_two_or_more_threads_inside", over).n("trace_bytes_of_first_life", (long long)ref[0].size()).str(), 3);
      }
      C.count("rounds"); C.count(std::string("rounds_with_threads:") + std::to_string(T));
      lives.clear();
   }
   C.count("shared_addresses_checked", sharing_checked); C.count("shared_addresses_that_are_constants", shared_constants);
   C.count("api_ticks", total_ticks); C.count("api_ticks_with_two_or_more_threads_inside", overlap_ticks); C.count("thread_alternations_in_ticket_order", alternations);
   for (auto k : { "rounds", "lives_on_threads", "api_batches", "printed_bytes", "shared_addresses_checked", "rounds_with_sharing_check", "rounds_destroying_while_others_construct", "trace_bytes_compared", "rounds_reference_before_threads", "rounds_threads_before_reference", "mirror_requests", "lives_whose_first_word_is_oversize", "specifier_and_qualifier_names_asked_concurrently", "deep_expression_nests_printed_concurrently" }) C.need(k);
   C.need("api_ticks_with_two_or_more_threads_inside", 100); C.need("thread_alternations_in_ticket_order", 100);
}

int main(int argc, char** argv) { return guarded_main(argc, argv, body); }
