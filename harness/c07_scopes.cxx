// C07 -- scopes, overload sets and declaration sets are mutually consistent.
// Monitor: declaration history vs an entry-ordered list model, compared after every insertion
// (short histories) or every 64th (long ones); live overload trees validated through the hook.
#include "common.hpp"
#include "inspect.hpp"
#include "reserved.hpp"
#include <ipr/impl>
#include <algorithm>
#include <set>

using namespace vh;
using namespace ipr;

enum Kind { VAR, FIELD, BITFIELD, ALIAS, TYPEDECL, FUNDECL, PRIMARY, SECONDARY, NKIND };
static const char* kind_name[] = {"var", "field", "bitfield", "alias", "typedecl", "fundecl", "primary_template", "secondary_template"};
static const Category_code kind_cat[] = { Category_code::Var, Category_code::Field, Category_code::Bitfield, Category_code::Alias,
   Category_code::Typedecl, Category_code::Fundecl, Category_code::Template, Category_code::Template };

struct Rec { int kind; const Name* name; const Type* type; const Decl* decl; };

struct World {
   impl::Lexicon lex;
   impl::Translation_unit unit { lex };
   Rng rng;
   std::vector<const Name*> names;
   std::vector<const Type*> plain_types;
   std::vector<const Function*> fun_types;
   std::vector<const Forall*> forall_types;
   std::vector<const Expr*> alias_inits;       // expressions whose type() is well defined

   explicit World(std::uint64_t seed) : rng(seed)
   {
      const Lexicon& L = lex;
      auto& greg = *unit.global_region();
      int nn = 3 + int(rng.below(6));
      const char8_t* ids[] = { u8"a", u8"b", u8"f", u8"value", u8"T", u8"operator_", u8"x1", u8"x2", u8"x3" };
      auto* cls = lex.make_class(greg);
      impl::Warehouse<Type> w0, w1, w2; w1.push_back(L.int_type()); w2.push_back(L.int_type()); w2.push_back(L.double_type());
      auto& p0 = lex.get_product(w0); auto& p1 = lex.get_product(w1); auto& p2 = lex.get_product(w2);
      std::vector<const Name*> all;
      for (auto s : ids) all.push_back(&lex.get_identifier(s));
      all.push_back(&lex.get_operator(u8"+")); all.push_back(&lex.get_operator(u8"()")); all.push_back(&lex.get_operator(u8"new[]"));
      all.push_back(&lex.get_conversion(L.bool_type())); all.push_back(&lex.get_conversion(lex.get_pointer(L.char_type())));
      all.push_back(&lex.get_ctor_name(*cls)); all.push_back(&lex.get_dtor_name(*cls));
      auto* xl = lex.make_expr_list(); xl->push_back(&L.int_type());
      all.push_back(&lex.get_template_id(*lex.make_id_expr(lex.get_identifier(u8"vec")), *xl));
      all.push_back(&lex.get_suffix(lex.get_identifier(u8"_km")));
      all.push_back(&lex.get_identifier(u8""));
      for (std::size_t i = all.size(); i > 1; --i) std::swap(all[i - 1], all[rng.below(i)]);
      names.assign(all.begin(), all.begin() + nn);
      // template-ids whose template is named through an id-expression of an identifier of THIS pool: a specialization entered
      // under such a name (beside the primary template its name refers to, or without one) is a declaration of its own
      {
         int added = 0;
         for (std::size_t i = 0; i < names.size() && added < 2; ++i)
            if (auto id = util::view<Identifier>(*names[i])) { names.push_back(&lex.get_template_id(*lex.make_id_expr(*id), *xl)); ++added; }
      }
      const Type* pt[] = { &L.int_type(), &L.double_type(), &lex.get_pointer(L.int_type()), &lex.get_qualified(Qualifiers(1), L.int_type()),
                           cls, &L.class_type(), &L.typename_type(), &lex.get_reference(L.char_type()), &L.namespace_type() };
      int nt = 3 + int(rng.below(6));
      for (int i = 0; i < nt; ++i) plain_types.push_back(pt[(i * 5 + int(rng.below(9))) % 9]);
      std::sort(plain_types.begin(), plain_types.end()); plain_types.erase(std::unique(plain_types.begin(), plain_types.end()), plain_types.end());
      fun_types = { &lex.get_function(p0, L.void_type()), &lex.get_function(p1, L.int_type()), &lex.get_function(p2, L.int_type()),
                    &lex.get_function(p1, L.int_type(), L.true_value()) };
      {  auto& xc = lex.get_transfer(lex.get_linkage(u8"C"), lex.get_calling_convention(u8"")); auto& xs = lex.get_transfer(lex.get_linkage(u8"C++"), lex.get_calling_convention(u8"stdcall"));
         fun_types.push_back(&lex.get_function(p1, L.int_type(), xc)); fun_types.push_back(&lex.get_function(p1, L.int_type(), xs)); fun_types.push_back(&lex.get_function(p0, L.void_type(), xc)); }
      forall_types = { &lex.get_forall(p1, L.class_type()), &lex.get_forall(p2, L.class_type()), &lex.get_forall(p1, *fun_types[1]) };
      for (auto t : plain_types) alias_inits.push_back(lex.make_literal(*t, u8"0"));       // literal: type() == its first operand
      alias_inits.push_back(cls);                                                          // a type used as an expression: type() == class
   }
};

struct ScopeHistory {
   World& W;
   impl::Scope* scope;              // scope under test
   impl::Region* region = nullptr;  // when declarations go through Region::declare_*
   std::vector<Rec> model;
   std::map<std::pair<const Name*, const Type*>, int> kind_of_pair;
   std::map<std::pair<const Name*, const Type*>, std::vector<const Decl*>> groups;
   std::map<const Name*, long long> per_name;
   const char* route;
   std::string trace;               // compact history for replay/evidence

   ScopeHistory(World& w, impl::Scope* s, impl::Region* r, const char* rt) : W(w), scope(s), region(r), route(rt) { }

   std::string where() { return J().s("route", route).n("declarations", (long long)model.size()).s("history", trace.substr(0, 400)).str(); }

   // one look-up (name, then type) compared with the model; used around every declaration so that a look-up made just
   // before a declaration (possibly a miss) and the one made right after it are both observed, in that order
   void probe(const Name* n, const Type* t, const char* when)
   {
      const Scope& S = *scope;
      ctx().count("probes_around_declarations");
      const bool declared = per_name.count(n) != 0;
      auto ovl = S[*n];
      auto V = [&](const std::string& key, const std::string& msg) { ctx().viol(key + ":" + when + ":" + route, msg, where()); };
      if (ovl.is_valid() != declared) { V(declared ? "lookup:declared-name-not-found" : "lookup:undeclared-name-found", "name look-up disagrees with the declarations entered"); return; }
      if (!declared) return;
      const Decl* first = nullptr;
      if (auto g = groups.find(std::make_pair(n, t)); g != groups.end()) first = g->second.front();
      auto got = ovl.get()[*t];
      if (got.is_valid() != (first != nullptr)) V(first ? "select:declared-type-not-found" : "select:undeclared-type-found", "overload[type] validity disagrees with the declarations entered");
      else if (first && &got.get() != first) V("select:not-first-declaration", "overload[type] is not the first declaration entered with that name and type");
   }

   // add one declaration, honouring "each (name,type) pair is used by one declaration kind"
   void declare()
   {
      auto& rng = W.rng;
      const Name* n = rng.pick(W.names);
      int k = int(rng.below(NKIND));
      const Type* t = nullptr; const Expr* init = nullptr;
      switch (k) {
      case FUNDECL: t = rng.pick(W.fun_types); break;
      case PRIMARY: case SECONDARY: t = rng.pick(W.forall_types); break;
      case ALIAS: init = rng.pick(W.alias_inits); t = &init->type(); break;
      default: t = rng.pick(W.plain_types); break;
      }
      auto key = std::make_pair(n, t);
      auto it = kind_of_pair.find(key);
      if (it != kind_of_pair.end() && it->second != k) {
         k = it->second;      // the pair is already bound to a kind: redeclare with that kind
         if (k == ALIAS) { init = nullptr; for (auto e : W.alias_inits) if (&e->type() == t) init = e; if (!init) return; }
         if (k == FUNDECL && t->category != Category_code::Function) return;
      } else kind_of_pair[key] = k;
      const Decl* d = nullptr;
      if (rng.chance(70)) { probe(n, t, "before"); if (rng.chance(30)) probe(n, t, "before"); }
      if (rng.chance(20)) probe(rng.pick(W.names), t, "before");
      const bool via_region = region != nullptr && rng.chance(50);
      switch (k) {
      case VAR: d = via_region ? region->declare_var(*n, *t) : scope->make_var(*n, *t); break;
      case FIELD: d = via_region ? region->declare_field(*n, *t) : scope->make_field(*n, *t); break;
      case BITFIELD: d = via_region ? region->declare_bitfield(*n, *t) : scope->make_bitfield(*n, *t); break;
      case ALIAS: d = scope->make_alias(*n, *init); break;
      case TYPEDECL: d = via_region ? region->declare_type(*n, *t) : scope->make_typedecl(*n, *t); break;
      case FUNDECL: d = via_region ? region->declare_fun(*n, static_cast<const Function&>(*t)) : scope->make_fundecl(*n, static_cast<const Function&>(*t)); break;
      case PRIMARY: d = via_region ? region->declare_primary_template(*n, static_cast<const Forall&>(*t)) : scope->make_primary_template(*n, static_cast<const Forall&>(*t)); break;
      case SECONDARY: d = via_region ? region->declare_secondary_template(*n, static_cast<const Forall&>(*t)) : scope->make_secondary_template(*n, static_cast<const Forall&>(*t)); break;
      }
      std::size_t ni = std::find(W.names.begin(), W.names.end(), n) - W.names.begin();
      trace += std::string(kind_name[k]) + "(n" + std::to_string(ni) + ",t" + std::to_string((std::uintptr_t(t) >> 4) % 997) + ") ";
      model.push_back(Rec{k, n, t, d});
      ctx().count(std::string("declared:") + kind_name[k]);
      auto& grp = groups[std::make_pair(n, t)];
      if (!grp.empty()) ctx().count("redeclarations");
      grp.push_back(d);
      ++per_name[n];
      if (d->category != kind_cat[k]) ctx().viol(std::string("decl-category:") + kind_name[k], "declaration has the wrong category", where());
      if (rng.chance(85)) probe(n, t, "after");
      if (rng.chance(25)) probe(n, rng.pick(W.plain_types), "after");
   }

   void compare()
   {
      ctx().count("model_comparisons");
      const Scope& S = *scope;
      auto V = [&](const char* key, const std::string& msg) { ctx().viol(std::string(key) + ":" + route, msg, where()); };
      // 1. entry order
      auto& els = S.elements();
      if (els.size() != model.size() || S.size() != model.size()) { V("elements:size", "scope lists " + std::to_string(els.size()) + " declarations, " + std::to_string(model.size()) + " were entered"); return; }
      { std::size_t i = 0; for (auto& d : els) { if (&d != model[i].decl) { V("elements:order-or-identity", "element " + std::to_string(i) + " is not the declaration entered at that position"); break; } ++i; } }
      // 2. type is the product of the element types in order
      {
         const Type& st = S.type();
         auto prod = util::view<Product>(st);
         if (!prod) V("scope-type:not-a-product", "scope type is not a Product");
         else if (prod->size() != model.size()) V("scope-type:size", "scope type has another number of components than declarations");
         else for (std::size_t i = 0; i < model.size(); ++i) if (&(*prod)[i] != model[i].type) { V("scope-type:component", "component " + std::to_string(i) + " of the scope type is not that declaration's type"); break; }
      }
      // 3. lookup by name, then by type
      std::vector<const Type*> all_types(W.plain_types.begin(), W.plain_types.end());
      for (auto t : W.fun_types) all_types.push_back(t);
      for (auto t : W.forall_types) all_types.push_back(t);
      std::vector<const Name*> name_order(W.names.begin(), W.names.end());
      for (std::size_t i = name_order.size(); i > 1; --i) std::swap(name_order[i - 1], name_order[W.rng.below(i)]);
      for (std::size_t i = all_types.size(); i > 1; --i) std::swap(all_types[i - 1], all_types[W.rng.below(i)]);
      for (auto n : name_order) {
         const bool declared = per_name.count(n) != 0;
         auto ovl = S[*n];
         ctx().count("name_lookups");
         if (ovl.is_valid() != declared) { V(declared ? "lookup:declared-name-not-found" : "lookup:undeclared-name-found", declared ? "a declared name has no overload set" : "an undeclared name has an overload set"); continue; }
         if (!declared) continue;
         for (auto t : all_types) {
            const Decl* first = nullptr;
            if (auto g = groups.find(std::make_pair(n, t)); g != groups.end()) first = g->second.front();
            auto got = ovl.get()[*t];
            ctx().count("type_lookups");
            if (got.is_valid() != (first != nullptr)) V(first ? "select:declared-type-not-found" : "select:undeclared-type-found", "overload[type] validity disagrees with the declarations entered");
            else if (first && &got.get() != first) V("select:not-first-declaration", "overload[type] is not the first declaration entered with that name and type");
         }
      }
      // 4. per declaration: name, type, master, decl-set
      for (std::size_t i = 0; i < model.size(); ++i) {
         auto& r = model[i];
         const Decl& d = *r.decl;
         if (&d.name() != r.name) V("decl:name", "a declaration reports another name than it was declared with");
         if (&d.type() != r.type) V("decl:type", "a declaration reports another type than it was declared with");
         const std::vector<const Decl*>& group = groups[std::make_pair(r.name, r.type)];
         try {
            if (&d.master() != group.front()) V("decl:master", "master() is not the first declaration with that name and type");
         } catch (const std::logic_error&) { V("decl:master-throws", "master() raised logic_error for a declaration entered in a scope"); }
         auto& ds = d.decl_set();
         if (ds.size() != group.size()) V("decl:decl-set-size", "decl_set() has " + std::to_string(ds.size()) + " members, " + std::to_string(group.size()) + " declarations share the name and type");
         else { std::size_t j = 0; for (auto& m : ds) { if (&m != group[j]) { V("decl:decl-set-order", "decl_set() is not the sharing declarations in entry order"); break; } ++j; } }
      }
      // 5. the same questions, all asked first and all examined afterwards (a client that gathers the decl-sets, masters and
      //    overload sets of a scope before walking them): an answer must not change because another declaration was asked
      {
         std::vector<const Sequence<Decl>*> sets; std::vector<const Decl*> masters; std::vector<Optional<Overload>> ovls;
         for (auto& r : model) { sets.push_back(&r.decl->decl_set()); try { masters.push_back(&r.decl->master()); } catch (const std::logic_error&) { masters.push_back(nullptr); } ovls.push_back((*scope)[*r.name]); }
         for (std::size_t i = 0; i < model.size(); ++i) {
            auto& r = model[i];
            const std::vector<const Decl*>& group = groups[std::make_pair(r.name, r.type)];
            ctx().count("answers_gathered_before_examination");
            if (masters[i] != group.front()) V("decl:master:gathered", "master(), asked for every declaration of the scope before any answer was examined, is not the first declaration with that name and type");
            if (sets[i]->size() != group.size()) V("decl:decl-set-size:gathered", "a decl_set() obtained before other declarations were asked for theirs has " + std::to_string(sets[i]->size()) + " members afterwards, " + std::to_string(group.size()) + " declarations share the name and type");
            else { std::size_t j = 0; for (auto& m : *sets[i]) { if (&m != group[j]) { V("decl:decl-set-order:gathered", "a decl_set() obtained before other declarations were asked for theirs does not list the sharing declarations in entry order afterwards"); break; } ++j; } }
            if (!ovls[i].is_valid()) V("lookup:declared-name-not-found:gathered", "a declared name has no overload set");
            else { auto got = ovls[i].get()[*r.type]; if (!got.is_valid() || &got.get() != group.front()) V("select:not-first-declaration:gathered", "an overload set obtained before other names were looked up does not select the first declaration with that name and type afterwards"); }
         }
      }
   }

   void live_trees()
   {
      auto& ov = Inspector::overloads(*scope);
      long long sz = 0;
      std::string e = check_table(ov, [](auto& a, auto& b) { return cmp_addr(&a.name, &b.name); }, &sz);
      ctx().count("table_validations");
      std::set<const Name*> distinct; for (auto& r : model) distinct.insert(r.name);
      if (!e.empty()) ctx().viol("table:overloads:" + e.substr(0, 40), "scope's overload table: " + e, where());
      if (sz != (long long)distinct.size()) ctx().viol("table:overloads:conservation", "scope holds " + std::to_string(sz) + " overload sets for " + std::to_string(distinct.size()) + " declared names", where());
      for (auto n : distinct) {
         auto o = (*scope)[*n];
         if (!o.is_valid()) continue;
         auto& impl_ovl = static_cast<const impl::Overload&>(o.get());
         TreeWalk<impl::overload_entry> w;
         std::set<const Type*> tys; for (auto& r : model) if (r.name == n) tys.insert(r.type);
         std::string e2 = w.run(Inspector::root(impl_ovl.entries), Inspector::count(impl_ovl.entries));
         if (e2.empty()) e2 = w.ordered([](auto& a, auto& b) { return cmp_addr(&a.type, &b.type); });
         if (!e2.empty()) ctx().viol("tree:overload-entries:" + e2.substr(0, 40), "an overload set's entry tree: " + e2, where());
         if ((long long)tys.size() != w.sh.nodes) ctx().viol("tree:overload-entries:conservation", "overload set has " + std::to_string(w.sh.nodes) + " entries for " + std::to_string(tys.size()) + " distinct types", where());
         if (impl_ovl.masters.size() != tys.size()) ctx().viol("tree:overload-masters", "overload set's master list disagrees with the number of distinct types", where());
      }
   }
};

static void heterogeneous(std::uint64_t seed, int ndecl, bool every_step, int hist)
{
   World W(seed);
   auto& greg = *W.unit.global_region();
   // pick the scope under test among the routes that own a heterogeneous scope
   impl::Scope* sc = nullptr; impl::Region* rg = nullptr; const char* route = "";
   switch (hist % 7) {
   case 0: sc = W.unit.global_scope(); rg = &greg; route = "global-namespace"; break;
   case 1: { auto* c = W.lex.make_class(greg); rg = &c->body; sc = &c->body.scope; route = "class"; break; }
   case 2: { auto* c = W.lex.make_union(greg); rg = &c->body; sc = &c->body.scope; route = "union"; break; }
   case 3: { auto* ns = W.lex.make_namespace(greg); auto* in = W.lex.make_namespace(ns->body); rg = &in->body; sc = &in->body.scope; route = "nested-namespace"; break; }
   case 4: { auto* b = W.lex.make_block(greg); sc = b->scope(); rg = &b->lexical_region; route = "block"; break; }
   case 5: { auto* w = W.lex.make_where(greg); rg = &w->region; sc = &w->region.scope; route = "where"; break; }
   default: { auto* r = greg.make_subregion()->make_subregion(); rg = r; sc = &r->scope; route = "subregion"; break; }
   }
   ScopeHistory H(W, sc, rg, route);
   H.compare();                                   // the empty scope
   for (int i = 0; i < ndecl; ++i) {
      H.declare();
      if (every_step || (i + 1) % 64 == 0) H.compare();
   }
   H.compare();
   H.live_trees();
   ctx().eval(hash_bytes(H.trace, hist % 7), H.model.size() >= 2);
   ctx().count(std::string("histories:") + route);
   if (hist < 2) ctx().sample(H.where(), 3);
}

// Parameter lists, enumerations, base lists, handler regions: singleton sets, positions == index.
static void homogeneous(std::uint64_t seed, int hist)
{
   World W(seed);
   auto& rng = W.rng;
   const Lexicon& L = W.lex;
   auto& greg = *W.unit.global_region();
   auto V = [&](const std::string& key, const std::string& msg) { ctx().viol(key, msg, J().n("seed", (long long)seed).str()); };
   int n = rng.chance(10) ? 300 : int(rng.below(24));
   std::vector<const Name*> ids;
   for (int i = 0; i < n + 3; ++i) { std::string s = "m" + std::to_string(i); ids.push_back(&W.lex.get_identifier(std::u8string_view(reinterpret_cast<const char8_t*>(s.data()), s.size()))); }
   // Every fourth history repeats names inside one list (unnamed parameters all carry the empty identifier; a name written twice):
   // members that share a name are given one type, so that "the first declaration entered with that name and type" is defined
   // for every member -- it is the first member carrying that name.
   const bool repeats = hist % 4 == 1 && n >= 2;
   if (repeats) {
      const Name* few[] = { &W.lex.get_identifier(u8""), ids[0], ids[1], &W.lex.get_identifier(u8"x") };
      for (int i = 0; i < n; ++i) if (!rng.chance(25)) ids[std::size_t(i)] = few[rng.below(4)];
      ctx().count("homogeneous_histories_with_repeated_names");
   }
   std::map<const Name*, const Type*> type_of_name;
   auto type_for = [&](const Name* nm) -> const Type* { auto [it, fresh] = type_of_name.emplace(nm, nullptr); if (fresh) it->second = rng.pick(W.plain_types); return it->second; };
   auto check_member = [&](const char* what, const Decl& d, std::size_t i, const Scope& sc, const Name* nm, const Type* ty, const Decl* first = nullptr) {
      std::string k = std::string(what) + ":";
      if (first && first != &d) {
         // a later member with a name used before: looking the name up and selecting its type yields the FIRST such member
         k += "repeated-name:";
         if (&d.name() != nm) V(k + "name", "member reports another name");
         if (&d.type() != ty) V(k + "type", "member reports another type");
         if (&d.master() != &d && &d.master() != first) V(k + "master", "a member's master is neither itself nor the first member of that name and type");
         if (i >= sc.size() || &*sc.elements().position(i) != &d) V(k + "elements", "scope element at the member's index is not the member");
         auto o = sc[*nm];
         if (!o.is_valid()) V(k + "lookup", "a name carried by several members is not found in their scope");
         else { auto sel = o.get()[d.type()]; if (!sel.is_valid() || &sel.get() != first) V(k + "select-not-first", "selecting by type in the overload set of a name carried by several members of that type does not yield the first one entered"); }
         ctx().count("members_checked_that_repeat_an_earlier_name");
         ctx().count(std::string("members_checked:") + what);
         return;
      }
      if (nm && &d.name() != nm) V(k + "name", "member reports another name");
      if (ty && &d.type() != ty) V(k + "type", "member reports another type");
      if (&d.master() != &d) V(k + "master", "a unique declaration's master is not itself");
      if (d.decl_set().size() != 1 || &*d.decl_set().begin() != &d) V(k + "decl-set", "a unique declaration's decl-set is not the singleton of itself");
      if (i >= sc.size() || &*sc.elements().position(i) != &d) V(k + "elements", "scope element at the member's index is not the member");
      if (nm) {
         auto o = sc[*nm];
         if (!o.is_valid()) V(k + "lookup", "member's name not found in its scope");
         else {
            auto sel = o.get()[d.type()];
            if (!sel.is_valid() || &sel.get() != &d) V(k + "select", "selecting the member's type in its overload set does not yield the member");
            if (o.get()[L.ellipsis_type()].is_valid() && &d.type() != &L.ellipsis_type()) V(k + "select-foreign-type", "a foreign type selects a member");
         }
      }
      ctx().count(std::string("members_checked:") + what);
   };
   auto check_scope = [&](const char* what, const Scope& sc, const std::vector<const Decl*>& members, const std::vector<const Type*>& types) {
      std::string k = std::string(what) + ":";
      if (sc.size() != members.size()) { V(k + "size", "scope size differs from the number of members added"); return; }
      std::size_t i = 0; for (auto& d : sc.elements()) { if (&d != members[i]) { V(k + "order", "members are not listed in entry order"); break; } ++i; }
      auto prod = util::view<Product>(sc.type());
      if (!prod || prod->size() != members.size()) V(k + "scope-type", "scope type is not the product of the member types");
      else for (std::size_t j = 0; j < members.size(); ++j) if (&(*prod)[j] != types[j]) { V(k + "scope-type", "scope type component differs from member type"); break; }
      for (int f = 0; f < 3; ++f) if (sc[*ids[n + f]].is_valid()) V(k + "foreign-name-found", "a name never declared has an overload set");
      // every member asked for its decl-set and master first, every answer examined afterwards
      std::vector<const Sequence<Decl>*> sets; std::vector<const Decl*> masters;
      for (auto d : members) { sets.push_back(&d->decl_set()); masters.push_back(&d->master()); }
      for (std::size_t j = 0; j < members.size(); ++j) {
         ctx().count("answers_gathered_before_examination");
         if (sets[j]->size() != 1 || &*sets[j]->begin() != members[j]) { V(k + "decl-set:gathered", "the decl-set of a unique declaration, obtained before its siblings were asked for theirs, is not the singleton of that declaration afterwards"); break; }
         if (masters[j] != members[j]) { V(k + "master:gathered", "a unique declaration's master is not itself"); break; }
      }
   };
   // parameters (through a Mapping)
   {
      auto* m = W.lex.make_mapping(greg, Mapping_level{ std::size_t(hist % 3) });
      std::vector<const Decl*> mem; std::vector<const Type*> tys;
      std::map<const Name*, const Decl*> first_of;
      for (int i = 0; i < n; ++i) {
         const Type* t = repeats ? type_for(ids[i]) : rng.pick(W.plain_types);
         auto* p = m->param(*ids[i], *t);
         mem.push_back(p); tys.push_back(t); first_of.emplace(ids[i], p);
         if (std::size_t(p->position()) != std::size_t(i)) V("parameter:position", "parameter position is not its index");
         check_scope("parameter-list", m->parameters().region().bindings(), mem, tys);
         // a look-up between two additions (of any member so far) changes nothing
         if (i && rng.chance(50)) { std::size_t j = rng.below(std::size_t(i) + 1); check_member("parameter", *mem[j], j, m->parameters().region().bindings(), ids[j], tys[j], first_of[ids[j]]); ctx().count("lookups_between_additions"); }
      }
      for (int i = 0; i < n; ++i) check_member("parameter", *mem[i], i, m->parameters().region().bindings(), ids[i], tys[i], first_of[ids[i]]);
      if (m->parameters().size() != std::size_t(n)) V("parameter-list:size", "Parameter_list::size differs");
      check_scope("parameter-list", m->parameters().region().bindings(), mem, tys);
   }
   // enumerators
   {
      auto* e = W.lex.make_enum(greg, hist % 2 ? Enum::Kind::Scoped : Enum::Kind::Legacy);
      std::vector<const Decl*> mem; std::vector<const Type*> tys;
      std::map<const Name*, const Decl*> first_of;
      for (int i = 0; i < n; ++i) {
         auto* en = e->add_member(*ids[i]);
         mem.push_back(en); tys.push_back(e); first_of.emplace(ids[i], en);
         if (std::size_t(en->position()) != std::size_t(i)) V("enumerator:position", "enumerator position is not its index");
         if (i && rng.chance(30)) { std::size_t j = rng.below(std::size_t(i) + 1); check_member("enumerator", *mem[j], j, e->region().bindings(), ids[j], e, first_of[ids[j]]); ctx().count("lookups_between_additions"); }
      }
      check_scope("enumeration", e->region().bindings(), mem, tys);
      for (int i = 0; i < n; ++i) check_member("enumerator", *mem[i], i, e->region().bindings(), ids[i], e, first_of[ids[i]]);
      check_scope("enumeration", e->region().bindings(), mem, tys);
      if (e->members().size() != std::size_t(n)) V("enumeration:members", "Enum::members size differs");
   }
   // bases
   {
      auto* c = W.lex.make_class(greg);
      std::vector<const Decl*> mem; std::vector<const Type*> tys;
      int nb = std::min(n, 40);
      std::map<const Name*, const Decl*> first_of; std::vector<const Name*> bnames;
      std::map<const Name*, impl::Class*> class_of_name;
      for (int i = 0; i < nb; ++i) {
         // distinct, named base classes; with repeated names, one class per name (the same base written twice)
         impl::Class*& bc = class_of_name[ids[i]];
         if (!bc || !repeats) { bc = W.lex.make_class(greg); bc->id = ids[i]; }
         const Type* t = bc;
         auto* b = c->declare_base(*t);
         mem.push_back(b); tys.push_back(t); bnames.push_back(ids[i]); if (repeats) first_of.emplace(ids[i], b);
         if (std::size_t(b->position()) != std::size_t(i)) V("base:position", "base position is not its index");
         if (i && rng.chance(40)) { std::size_t j = rng.below(std::size_t(i) + 1); auto& sc0 = mem[0]->home_region().bindings(); check_member("base", *mem[j], j, sc0, bnames[j], tys[j], repeats ? first_of[bnames[j]] : mem[j]); ctx().count("lookups_between_additions"); }
      }
      // the base list is reachable as a sequence; its scope through the home region of any base
      if (c->bases().size() != std::size_t(nb)) V("base-list:size", "Class::bases size differs");
      { std::size_t i = 0; for (auto& b : c->bases()) { if (&b != mem[i]) { V("base-list:order", "bases are not listed in entry order"); break; } ++i; } }
      if (nb > 0) {
         auto& sc = mem[0]->home_region().bindings();
         check_scope("base-list", sc, mem, tys);
         for (int i = 0; i < nb; ++i) check_member("base", *mem[i], i, sc, (i % 2 || repeats) ? bnames[std::size_t(i)] : nullptr, tys[i], repeats ? first_of[bnames[std::size_t(i)]] : mem[i]);
         check_scope("base-list", sc, mem, tys);
      }
   }
   // handler regions
   {
      auto* blk = W.lex.make_block(greg);
      int nh = std::min(n, 12);
      for (int i = 0; i < nh; ++i) {
         const Type* t = rng.pick(W.plain_types);
         auto* h = blk->new_handler(*ids[i], *t);
         auto& ehr = h->body().region().enclosing();
         auto& sc = ehr.bindings();
         std::vector<const Decl*> mem { &h->exception() }; std::vector<const Type*> tys { t };
         check_scope("handler-region", sc, mem, tys);
         check_member("eh-parameter", h->exception(), 0, sc, ids[i], t);
      }
      if (blk->handlers().size() != std::size_t(nh)) V("handlers:size", "Block::handlers size differs");
   }
   ctx().eval(hash_mix(seed, n), n >= 2);
   ctx().count("homogeneous_histories");
   if (hist == 0) ctx().sample(J().s("kind", "homogeneous").n("members", n).str(), 4);
}

// A homogeneous scope longer than any narrow index type can count (positions at and beyond 2^8 and 2^16).  Positions,
// names and types are read from the members themselves; the sequence and the look-ups are probed around the boundaries
// (some of the list implementations index linearly).  kind: 0 enumerators, 1 parameters, 2 bases.
static void very_long(std::uint64_t seed, int kind)
{
   Rng rng(seed);
   impl::Lexicon lex; impl::Translation_unit unit { lex };
   const Lexicon& L = lex; auto& greg = *unit.global_region();
   const std::size_t n = 65536 + 16 + rng.below(48);
   const char* what = kind == 0 ? "enumerator" : kind == 1 ? "parameter" : "base";
   auto V = [&](const std::string& k, const std::string& msg, std::size_t i) { ctx().viol(std::string("very-long:") + what + ":" + k, msg, J().s("kind", what).n("members", (long long)n).n("index", (long long)i).str()); };
   std::vector<const Decl*> mem; mem.reserve(n);
   std::vector<const Identifier*> ids; ids.reserve(n);
   const Scope* sc = nullptr; const Type* elem_type = &L.int_type();
   impl::Enum* en = nullptr; impl::Mapping* mp = nullptr; impl::Class* cl = nullptr;
   if (kind == 0) { en = lex.make_enum(greg, Enum::Kind::Scoped); elem_type = en; } else if (kind == 1) mp = lex.make_mapping(greg, Mapping_level { 1 }); else cl = lex.make_class(greg);
   for (std::size_t i = 0; i < n; ++i) {
      ids.push_back(&lex.get_identifier(widen("m" + std::to_string(i))));
      const Decl* d = kind == 0 ? static_cast<const Decl*>(en->add_member(*ids.back())) : kind == 1 ? static_cast<const Decl*>(mp->param(*ids.back(), L.int_type())) : static_cast<const Decl*>(cl->declare_base(L.int_type()));
      mem.push_back(d);
   }
   sc = kind == 0 ? &en->region().bindings() : kind == 1 ? &mp->parameters().region().bindings() : &mem[0]->home_region().bindings();
   for (std::size_t i = 0; i < n; ++i) {
      std::size_t pos = ~std::size_t(0);
      if (auto e = util::view<Enumerator>(*mem[i])) pos = std::size_t(e->position()); else if (auto p = util::view<Parameter>(*mem[i])) pos = std::size_t(p->position()); else if (auto b = util::view<Base_type>(*mem[i])) pos = std::size_t(b->position());
      if (pos != i) { V("position", std::string("a member ") + (i < 65536 ? "below 2^16" : "at or beyond 2^16") + " reports a position that is not its zero-based index", i); break; }
      if (kind != 2 && &mem[i]->name() != ids[i]) { V("name", "a member of a very long scope does not report the name it was declared with", i); break; }
      if (&mem[i]->type() != elem_type) { V("type", "a member of a very long scope does not report its type", i); break; }
      ctx().count(std::string("very_long_members_checked:") + what);
   }
   if (sc->size() != n) V("size", "the scope reports " + std::to_string(sc->size()) + " members, " + std::to_string(n) + " were added", n);
   for (std::size_t i : { std::size_t(0), std::size_t(255), std::size_t(256), std::size_t(65535), std::size_t(65536), std::size_t(65537), n - 1 }) {
      if (&*sc->elements().position(i) != mem[i]) V("order", "element " + std::to_string(i) + " of the scope is not the member entered at that position", i);
      if (kind != 2) {
         auto o = (*sc)[*ids[i]];
         if (!o.is_valid()) V("lookup", "the name of member " + std::to_string(i) + " is not found in its scope", i);
         else { auto sel = o.get()[*elem_type]; if (!sel.is_valid() || &sel.get() != mem[i]) V("select", "look-up by name and type does not yield member " + std::to_string(i), i); }
      }
      if (&mem[i]->master() != mem[i]) V("master", "a member of a homogeneous scope is not its own master declaration", i);
      if (mem[i]->decl_set().size() != 1 || &*mem[i]->decl_set().begin() != mem[i]) V("decl-set", "the declaration set of a member of a homogeneous scope is not the singleton of that member", i);
   }
   ctx().count("very_long_scopes"); ctx().maxi("longest_homogeneous_scope", (long long)n);
   ctx().eval(hash_mix(0x7e410, std::uint64_t(kind)));
}

static void body(Ctx& C)
{
   C.rule("a case = one declaration history: a random sequence of var/field/bitfield/alias/typedecl/fundecl/primary/secondary-template "
          "declarations over small pools of names of every name kind and of types, with heavy repetition (first use of a (name,type) "
          "pair fixes its declaration kind), entered directly or through Region::declare_* into a global/class/union/nested-namespace/"
          "block/where/sub-region scope; the scope is compared with an entry-ordered list model (elements, product type, lookup of every "
          "pool name, selection by every pool type, name/type/master/decl-set of every declaration) after every insertion (short "
          "histories) or every 64th (long); plus parameter/enumerator/base/handler sequences of 0..300 members; non-trivial = >= 2 declarations");
   C.assume("each (name,type) pair is used by one declaration kind, as the property's quantifier states");
   C.assume("members of one parameter list / enumeration / base list that share a name are given one type (every fourth history repeats names; the others keep them pairwise distinct)");
   for (int k = 0; k < NKIND; ++k) C.need(std::string("declared:") + kind_name[k]);
   C.need("answers_gathered_before_examination"); C.need("redeclarations"); C.need("probes_around_declarations"); C.need("name_lookups"); C.need("type_lookups"); C.need("table_validations");
   C.need("members_checked:parameter"); C.need("homogeneous_histories_with_repeated_names"); C.need("members_checked_that_repeat_an_earlier_name"); C.need("lookups_between_additions"); C.need("members_checked:enumerator"); C.need("members_checked:base"); C.need("members_checked:eh-parameter");
   Rng seeds(C.seed);
   const int nshort = C.thorough ? 1500 : 50;
   for (int h = 0; h < nshort; ++h) heterogeneous(seeds.next(), 1 + int(seeds.below(C.thorough ? 300 : 80)), true, h);
   const int nlong = C.thorough ? 2 : 1;
   for (int h = 0; h < nlong; ++h) heterogeneous(seeds.next(), C.thorough ? 20000 : 3000, false, h + C.worker);
   const int nhomo = C.thorough ? 600 : 30;
   for (int h = 0; h < nhomo; ++h) homogeneous(seeds.next(), h);
   // very long homogeneous scopes: enumerations (constant time per addition) on two workers in every tier; parameter and
   // base lists (quadratic to build, 10-20 s) in the thorough tier, where C12's quick tier already builds them
   if (C.worker % 4 == 0) very_long(seeds.next(), 0);
   if (C.thorough && C.worker % 4 == 1) very_long(seeds.next(), 1);
   if (C.thorough && C.worker % 4 == 2) very_long(seeds.next(), 2);
   C.need("very_long_scopes"); C.need("very_long_members_checked:enumerator");
}

int main(int argc, char** argv) { return guarded_main(argc, argv, body); }
