// C13 -- Lexicon constants are distinct, correctly spelled, self-describing, process-wide; every
// public route from a spelling to a node yields the constant, not a look-alike.
#include "common.hpp"
#include "reserved.hpp"
#include "hashtwins.hpp"
#include <ipr/impl>
#include <thread>
#include <set>
#include <mutex>
#include <deque>
#include <optional>
#include <memory>
#include <cstring>

using namespace vh;
using namespace ipr;

struct BI { const char* accessor; const Type& (Lexicon::*get)() const; const char* spelling; };
// Oracle: the documented C++ spelling of every accessor (interface comments; `ushort_type` documents
// "unsigned char" by an evident slip -- the C++ spelling is used).
static const BI builtins[] = {
   {"void_type", &Lexicon::void_type, "void"}, {"bool_type", &Lexicon::bool_type, "bool"}, {"char_type", &Lexicon::char_type, "char"},
   {"schar_type", &Lexicon::schar_type, "signed char"}, {"uchar_type", &Lexicon::uchar_type, "unsigned char"},
   {"wchar_t_type", &Lexicon::wchar_t_type, "wchar_t"}, {"char8_t_type", &Lexicon::char8_t_type, "char8_t"},
   {"char16_t_type", &Lexicon::char16_t_type, "char16_t"}, {"char32_t_type", &Lexicon::char32_t_type, "char32_t"},
   {"short_type", &Lexicon::short_type, "short"}, {"ushort_type", &Lexicon::ushort_type, "unsigned short"},
   {"int_type", &Lexicon::int_type, "int"}, {"uint_type", &Lexicon::uint_type, "unsigned int"}, {"long_type", &Lexicon::long_type, "long"},
   {"ulong_type", &Lexicon::ulong_type, "unsigned long"}, {"long_long_type", &Lexicon::long_long_type, "long long"},
   {"ulong_long_type", &Lexicon::ulong_long_type, "unsigned long long"}, {"float_type", &Lexicon::float_type, "float"},
   {"double_type", &Lexicon::double_type, "double"}, {"long_double_type", &Lexicon::long_double_type, "long double"},
   {"ellipsis_type", &Lexicon::ellipsis_type, "..."}, {"typename_type", &Lexicon::typename_type, "typename"},
   {"class_type", &Lexicon::class_type, "class"}, {"union_type", &Lexicon::union_type, "union"}, {"enum_type", &Lexicon::enum_type, "enum"},
   {"namespace_type", &Lexicon::namespace_type, "namespace"},
};
constexpr int NB = sizeof builtins / sizeof builtins[0];
struct SC { const char* accessor; const Symbol& (Lexicon::*get)() const; const char* spelling; };
static const SC symbols[] = {
   {"false_value", &Lexicon::false_value, "false"}, {"true_value", &Lexicon::true_value, "true"}, {"nullptr_value", &Lexicon::nullptr_value, "nullptr"},
   {"default_value", &Lexicon::default_value, "default"}, {"delete_value", &Lexicon::delete_value, "delete"},
};

static std::mutex viol_mutex;     // ctx() is not thread-safe; only violations/counters from threads go through this
static void tviol(const std::string& k, const std::string& m) { std::lock_guard<std::mutex> g(viol_mutex); ctx().viol(k, m); }
static void tcount(const std::string& k, long long v = 1) { std::lock_guard<std::mutex> g(viol_mutex); ctx().count(k, v); }
static void teval(std::uint64_t kind, std::uint64_t item, std::uint64_t inst) { std::lock_guard<std::mutex> g(viol_mutex); ctx().eval(hash_mix(kind, hash_mix(item, inst))); }

static std::string name_spelling(const Name& n)
{
   auto id = util::view<Identifier>(n);
   if (!id) return "\x01<not an identifier>";
   return narrow(id->string().characters());
}

// The constants as seen through one Lexicon, in a fixed order.
static std::vector<const void*> snapshot(const Lexicon& L)
{
   std::vector<const void*> v;
   for (auto& b : builtins) v.push_back(&(L.*b.get)());
   for (auto& s : symbols) v.push_back(&(L.*s.get)());
   v.push_back(&L.c_linkage()); v.push_back(&L.cxx_linkage());
   v.push_back(&L.default_value().type());      // the built-in `auto`
   v.push_back(&L.nullptr_value().type());      // decltype(nullptr)
   return v;
}

static void check_self_description(const Lexicon& L, std::uint64_t inst)
{
   const Type* ts[NB];
   for (int i = 0; i < NB; ++i) {
      const Type& t = (L.*builtins[i].get)();
      ts[i] = &t;
      std::string acc = builtins[i].accessor;
      tcount("builtin_accessors_checked"); teval(1, i, inst);
      if (name_spelling(t.name()) != builtins[i].spelling) tviol("builtin:spelling:" + acc, acc + "() names itself '" + name_spelling(t.name()) + "', documented spelling is '" + builtins[i].spelling + "'");
      auto as = util::view<As_type>(t);
      if (!as || !denote_builtin_type(*as)) tviol("builtin:not-self-denoting:" + acc, acc + "() is not its own underlying expression");
      if (t.category != Category_code::As_type) tviol("builtin:category:" + acc, acc + "() has a category other than As_type");
      if (&t.type() != &L.typename_type()) tviol("builtin:type-not-typename:" + acc, acc + "().type() is not typename");
      if (!(t.transfer() == impl::cxx_transfer()) || narrow(t.transfer().linkage().language().what().characters()) != "C++"
          || !t.transfer().convention().name().what().characters().empty())
         tviol("builtin:transfer:" + acc, acc + "() does not have the natural C++ transfer");
      if (!(t.linkage() == L.cxx_linkage())) tviol("builtin:linkage:" + acc, acc + "() does not have C++ linkage");
   }
   for (int i = 0; i < NB; ++i) for (int j = i + 1; j < NB; ++j) {
      tcount("builtin_pairs_checked");
      if (ts[i] == ts[j]) tviol(std::string("builtin:not-distinct:") + builtins[i].accessor + "/" + builtins[j].accessor, "two built-in accessors return the same node");
   }
   const Type* expected_type[] = { &L.bool_type(), &L.bool_type(), nullptr, nullptr, &L.void_type() };
   const Symbol* ss[5];
   for (int i = 0; i < 5; ++i) {
      const Symbol& s = (L.*symbols[i].get)();
      ss[i] = &s;
      std::string acc = symbols[i].accessor;
      tcount("symbol_constants_checked"); teval(2, i, inst);
      if (name_spelling(s.name()) != symbols[i].spelling) tviol("constant:spelling:" + acc, acc + "() is spelled '" + name_spelling(s.name()) + "'");
      if (s.category != Category_code::Symbol) tviol("constant:category:" + acc, acc + "() is not a Symbol");
      if (expected_type[i] && &s.type() != expected_type[i]) tviol("constant:type:" + acc, acc + "() has the wrong type");
   }
   // nullptr : decltype(nullptr)
   {
      auto dt = util::view<Decltype>(L.nullptr_value().type());
      if (!dt || &dt->expr() != &L.nullptr_value()) tviol("constant:type:nullptr_value", "nullptr_value().type() is not decltype(nullptr_value())");
      else if (&dt->type() != &L.typename_type()) tviol("constant:type:nullptr_value", "decltype(nullptr) does not have type typename");
   }
   // default : auto
   {
      const Type& a = L.default_value().type();
      if (name_spelling(a.name()) != "auto") tviol("constant:type:default_value", "default_value() is not typed `auto`");
      for (int i = 0; i < NB; ++i) if (ts[i] == &a) tviol("constant:type:default_value", "the type of default_value() is one of the 26 accessor types");
   }
   for (int i = 0; i < 5; ++i) for (int j = i + 1; j < 5; ++j) if (ss[i] == ss[j]) tviol("constant:not-distinct", "two symbolic constants are the same node");
   if (&L.c_linkage() == &L.cxx_linkage() || L.c_linkage() == L.cxx_linkage()) tviol("linkage:not-distinct", "c_linkage() and cxx_linkage() are not distinct");
   if (narrow(L.c_linkage().language().what().characters()) != "C") tviol("linkage:spelling:c", "c_linkage() is not spelled C");
   if (narrow(L.cxx_linkage().language().what().characters()) != "C++") tviol("linkage:spelling:cxx", "cxx_linkage() is not spelled C++");
}

static void check_routes(impl::Lexicon& lex, Rng& rng, std::uint64_t inst)
{
   const Lexicon& L = lex;
   std::set<const void*> constants;
   for (auto p : snapshot(L)) constants.insert(p);
   // spelling -> identifier -> as-type, for the 26 accessors and `auto`
   for (int i = 0; i <= NB; ++i) {
      std::string sp = i < NB ? builtins[i].spelling : "auto";
      const Type& want = i < NB ? (L.*builtins[i].get)() : L.default_value().type();
      for (int v = 0; v < 2; ++v) {
         auto& id = v ? lex.get_identifier(lex.get_string(widen(sp))) : lex.get_identifier(widen(sp));
         auto& t = lex.get_as_type(id);
         tcount("routes_checked"); teval(3, i * 2 + v, inst);
         if (&t != &want) tviol("route:identifier->as-type:lookalike", "get_as_type(get_identifier(\"" + sp + "\")) is not the built-in type");
         if (&id != &want.name()) tviol("route:identifier:lookalike", "get_identifier(\"" + sp + "\") is not the Identifier naming the built-in type");
      }
      // the spelling given as a view into a longer buffer: the front of another reserved word, the front of arbitrary text,
      // and an exact-size heap buffer with no terminator -- what is asked is what the view covers, nothing beyond it
      {
         std::vector<std::string> carriers { sp + " long", sp + " double", sp + "16_t", sp + "++", sp + "_t", sp + std::string(1, '\0') + "tail", sp + " x;" };
         for (auto w : reserved_words) { std::string r = narrow(w); if (r.size() > sp.size() && r.compare(0, sp.size(), sp) == 0) carriers.push_back(r); }
         for (auto& c : carriers) {
            util::word_view v(reinterpret_cast<const char8_t*>(c.data()), sp.size());
            auto& id = lex.get_identifier(v);
            tcount("routes_through_a_view_into_a_longer_buffer");
            if (&id != &want.name() || &lex.get_as_type(id) != &want || &lex.get_string(v) != &util::view<Identifier>(want.name())->string())
               tviol("route:view-into-longer-buffer:lookalike", "get_identifier / get_string of the first " + std::to_string(sp.size()) + " characters of \"" + c + "\" is not the node of \"" + sp + "\"");
         }
         std::unique_ptr<char8_t[]> exact(new char8_t[sp.size()]); std::memcpy(exact.get(), sp.data(), sp.size());
         util::word_view v(exact.get(), sp.size());
         if (&lex.get_identifier(v) != &want.name()) tviol("route:unterminated-buffer:lookalike", "get_identifier of an exact-size unterminated buffer spelling \"" + sp + "\" is not the built-in's name");
      }
      // the String overloads, given an equally spelled String node that no string pool made (a free-standing node) and another
      // Lexicon's word: identifier, as-type, label
      {
         thread_local std::deque<std::u8string> bytes; thread_local std::deque<impl::String> nodes;      // per thread: some instances are checked on concurrent threads
         bytes.emplace_back(widen(sp)); nodes.emplace_back(util::word_view(bytes.back()));
         impl::Lexicon other;
         for (const String* s : { static_cast<const String*>(&nodes.back()), &other.get_string(widen(sp)) }) {
            auto& id = lex.get_identifier(*s);
            tcount("routes_through_a_foreign_string_node");
            if (&id != &want.name() || &lex.get_as_type(id) != &want) tviol("route:foreign-string->identifier:lookalike", "get_identifier(a String spelled \"" + sp + "\" that no pool of this Lexicon made) is not the Identifier naming the built-in");
         }
      }
      // near misses must NOT yield a constant
      std::string near[] = { sp + " ", " " + sp, sp.substr(0, sp.size() - 1), sp + sp, std::string(1, char(sp[0] ^ 0x20)) + sp.substr(1) };
      for (auto& nm : near) {
         if (nm.empty()) continue;
         bool is_other_builtin = false;
         for (auto& b : builtins) if (nm == b.spelling) is_other_builtin = true;
         if (nm == "auto" || is_other_builtin) continue;
         auto& t = lex.get_as_type(lex.get_identifier(widen(nm)));
         tcount("near_miss_routes_checked");
         if (constants.count(&t)) tviol("route:near-miss-yields-constant", "get_as_type(get_identifier(\"" + nm + "\")) is a built-in constant");
         if (&t != &lex.get_as_type(lex.get_identifier(widen(nm)))) tviol("route:near-miss-not-unified", "the type named by a non-built-in identifier is not unified");
      }
   }
   // word -> linkage
   if (&lex.get_linkage(u8"C") != &L.c_linkage() || &lex.get_linkage(lex.get_string(u8"C")) != &L.c_linkage()) tviol("route:word->linkage:C", "get_linkage(\"C\") is not c_linkage()");
   if (&lex.get_linkage(u8"C++") != &L.cxx_linkage() || &lex.get_linkage(lex.get_string(u8"C++")) != &L.cxx_linkage()) tviol("route:word->linkage:C++", "get_linkage(\"C++\") is not cxx_linkage()");
   {  // the same spellings carried by String nodes that this Lexicon did not intern: a free-standing node, another Lexicon's word
      static constexpr impl::String free_c { u8"C" }, free_cxx { u8"C++" };
      impl::Lexicon other;
      if (&lex.get_linkage(free_c) != &L.c_linkage() || &lex.get_linkage(other.get_string(u8"C")) != &L.c_linkage()) tviol("route:foreign-word->linkage:C", "get_linkage(a String spelled \"C\" that this Lexicon did not intern) is not c_linkage()");
      if (&lex.get_linkage(free_cxx) != &L.cxx_linkage() || &lex.get_linkage(other.get_string(u8"C++")) != &L.cxx_linkage()) tviol("route:foreign-word->linkage:C++", "get_linkage(a String spelled \"C++\" that this Lexicon did not intern) is not cxx_linkage()");
      tcount("foreign_string_routes", 4);
   }
   // a non-standard linkage whose spelling begins like a standard one (or is a prefix of one), asked right before the standard one
   for (auto w : { u8"C++/CLI", u8"CUDA", u8"Cobol", u8"C+", u8"C++11", u8"C-like", u8"C " }) {
      auto& v = lex.get_linkage(w);
      tcount("near_miss_routes_checked");
      if (&v == &L.c_linkage() || &v == &L.cxx_linkage()) tviol("route:near-miss-yields-constant", "a vendor linkage spelling yields a standard linkage");
      if (&lex.get_linkage(u8"C") != &L.c_linkage() || &lex.get_linkage(lex.get_string(u8"C")) != &L.c_linkage()) tviol("route:word->linkage:C:after-a-vendor-linkage", "get_linkage(\"C\") is not c_linkage() right after a vendor linkage was asked for");
      (void)lex.get_linkage(w);
      if (&lex.get_linkage(u8"C++") != &L.cxx_linkage() || &lex.get_linkage(lex.get_string(u8"C++")) != &L.cxx_linkage()) tviol("route:word->linkage:C++:after-a-vendor-linkage", "get_linkage(\"C++\") is not cxx_linkage() right after a vendor linkage was asked for");
      if (&lex.get_linkage(w) != &v) tviol("route:vendor-linkage-not-unified", "a vendor linkage is not unified");
   }
   for (auto w : { u8"c", u8"C+", u8"C++ ", u8" C", u8"c++", u8"Java" }) {
      auto& l = lex.get_linkage(w);
      tcount("near_miss_routes_checked");
      if (&l == &L.c_linkage() || &l == &L.cxx_linkage() || l == L.c_linkage() || l == L.cxx_linkage()) tviol("route:near-miss-yields-constant", "a near-miss linkage spelling yields a standard linkage");
   }
   // identifier -> label
   if (&lex.get_label(lex.get_identifier(u8"default")) != &L.default_value() || &lex.get_label(lex.get_identifier(lex.get_string(u8"default"))) != &L.default_value())
      tviol("route:identifier->label:default", "get_label(get_identifier(\"default\")) is not default_value()");
   for (auto w : { u8"Default", u8"default_", u8"defaul", u8"delete", u8"case" }) {
      auto& s = lex.get_label(lex.get_identifier(w));
      tcount("near_miss_routes_checked");
      if (constants.count(&s)) tviol("route:near-miss-yields-constant", "a label other than `default` is a symbolic constant");
      if (&s.type() != &L.void_type()) tviol("route:label-type", "a label is not typed void");
   }
   // expression -> decltype
   if (&lex.get_decltype(L.nullptr_value()) != &L.nullptr_value().type()) tviol("route:expression->decltype:nullptr", "get_decltype(nullptr_value()) is not nullptr_value().type()");
   for (auto e : { static_cast<const Expr*>(&L.true_value()), static_cast<const Expr*>(&L.default_value()), static_cast<const Expr*>(lex.make_literal(L.int_type(), u8"0")) }) {
      auto& d = lex.get_decltype(*e);
      if (constants.count(&d)) tviol("route:near-miss-yields-constant", "decltype of another expression is decltype(nullptr)");
      if (&d.expr() != e) tviol("route:decltype-operand", "decltype does not report its operand");
   }
   // symbols with the constants' spellings but other types are not the constants
   auto& fake_true = lex.get_symbol(lex.get_identifier(u8"true"), L.int_type());
   if (constants.count(&fake_true)) tviol("route:near-miss-yields-constant", "symbol (true : int) is the truth constant");
   // look-alikes already in the Lexicon's own tables when the routes are asked: symbols, literals, identifiers-as-types and
   // labels spelled like the constants, of every plausible type; the routes must still lead to the constants themselves
   {
      const Type* tys[] = { &L.void_type(), &L.bool_type(), &L.int_type(), &L.default_value().type(), &L.nullptr_value().type() };
      for (auto w : { u8"default", u8"true", u8"false", u8"nullptr", u8"delete", u8"this", u8"C", u8"C++", u8"int" }) {
         auto& id = lex.get_identifier(w);
         for (auto t : tys) { auto& sy = lex.get_symbol(id, *t); tcount("look_alike_symbols_planted");
            // ... each look-alike also asked for its decltype, its as-type and an id-expression naming it, before the constants are
            { auto& dt = lex.get_decltype(sy); if (&sy != &L.nullptr_value() && &dt == &L.nullptr_value().type()) tviol("route:expression->decltype:look-alike-yields-constant-type", "the decltype of an ordinary symbol is the type of the nullptr constant"); (void)lex.get_as_type(sy); (void)lex.get_decltype(*lex.make_id_expr(id)); tcount("look_alike_symbols_asked_for_their_decltype"); }
            const bool is_const = &sy == &L.default_value() || &sy == &L.true_value() || &sy == &L.false_value() || &sy == &L.nullptr_value() || &sy == &L.delete_value();
            if (is_const && !(&sy.name() == &id && &sy.type() == t)) tviol("route:symbol-yields-constant-of-other-type", "get_symbol(name, type) returned a symbolic constant whose type is not the one asked for"); }
         lex.make_literal(L.int_type(), w); lex.get_label(id);
      }
      { static constexpr impl::String free_default { u8"default" };
        if (&lex.get_label(lex.get_identifier(free_default)) != &L.default_value()) tviol("route:foreign-string->label:default", "get_label(get_identifier(a free-standing String spelled default)) is not default_value()"); }
      // look-alikes that the client made: Identifier nodes implemented outside the library (a front end's own token nodes are
      // a legal implementation of the interface) spelled like the built-in types and the symbolic constants, offered to every
      // factory that takes an Identifier.  What those requests return is the client's business; the library's own routes
      // from the spellings must still lead to the constants afterwards.
      {
         struct Client_identifier final : ipr::Identifier {
            explicit Client_identifier(const ipr::String& s) : str{s} { }
            const ipr::String& operand() const final { return str; }
            void accept(ipr::Visitor& v) const final { v.visit(*this); }
            const ipr::String& str;
         };
         thread_local std::deque<Client_identifier> client_ids; thread_local std::deque<impl::String> client_strings; thread_local std::deque<std::u8string> client_bytes;
         std::vector<std::u8string> words; for (int i = 0; i < NB; ++i) words.emplace_back(widen(builtins[i].spelling));
         for (auto w : { u8"default", u8"true", u8"false", u8"nullptr", u8"delete", u8"C", u8"C++" }) words.push_back(w);
         for (auto& w : words) for (int own = 0; own < 2; ++own) {
            const ipr::String* sp = &lex.get_string(w);
            if (!own) { client_bytes.push_back(w); client_strings.emplace_back(client_bytes.back()); sp = &client_strings.back(); }
            client_ids.emplace_back(*sp); auto& cid = client_ids.back(); tcount("client_made_identifiers_offered");
            auto& at = lex.get_as_type(cid); (void)lex.get_label(cid); (void)lex.get_symbol(cid, L.int_type()); (void)lex.get_suffix(cid);
            if (static_cast<const ipr::Node*>(&at.name()) != static_cast<const ipr::Node*>(&cid) && static_cast<const ipr::Node*>(&at.name()) != static_cast<const ipr::Node*>(&lex.get_identifier(w))) tviol("route:client-identifier->as-type:name", "get_as_type(a client-made Identifier) is named by neither that node nor the Lexicon's identifier of the spelling");
         }
      }
      // ordinary words with the length AND the std::hash value of a constant's spelling (possible from 9 bytes on), as words,
      // identifiers and identifiers-as-types: whatever the word pool files under that hash, the spelling still leads to the constant
      {
         std::vector<std::string> spellings; for (int i = 0; i < NB; ++i) spellings.push_back(builtins[i].spelling);
         for (auto w : { "thread_local", "constexpr", "consteval", "constinit", "protected" }) spellings.push_back(w);
         for (auto& sp : spellings) for (unsigned char last : { (unsigned char)'#', (unsigned char)0, (unsigned char)0xC3 }) {
            const std::string tw = same_length_hash_twin(sp, last);
            if (tw.empty()) { if (sp.size() >= 9) tcount("hash_twins_unavailable"); continue; }
            auto& ts = lex.get_string(widen(tw)); auto& tid = lex.get_identifier(widen(tw)); auto& tt = lex.get_as_type(tid);
            tcount("same_length_hash_twins_of_constant_spellings_planted");
            if (narrow(ts.characters()) != tw || &tid.string() != &ts) tviol("route:hash-twin:spelling", "an ordinary word with the length and hash code of \"" + sp + "\" is not interned under its own spelling");
            if (constants.count(&tt) || constants.count(&tid)) tviol("route:hash-twin-yields-constant", "an ordinary word with the length and hash code of \"" + sp + "\" leads to a constant");
            if (&lex.get_string(widen(sp)) == &ts) tviol("route:hash-twin:word-lookalike", "get_string(\"" + sp + "\") is the node of an ordinary word with the same length and hash code");
         }
      }
      // one client String object re-created in place with another spelling for back-to-back requests: a vendor language the
      // Lexicon knows already, then a standard one, then a built-in's spelling through the identifier route - what the object at
      // that address spelled a moment ago is of no consequence
      {
         (void)lex.get_linkage(u8"Java"); (void)lex.get_linkage(u8"Fortran");
         static thread_local std::optional<impl::String> slot; static thread_local std::u8string slot_bytes;
         auto respell = [&](const char8_t* w) -> const ipr::String& { slot.reset(); slot_bytes = w; slot.emplace(util::word_view(slot_bytes)); return *slot; };
         for (int k = 0; k < 4; ++k) {
            for (auto vendor : { u8"Java", u8"Fortran" }) {
               if (narrow(lex.get_linkage(respell(vendor)).language().what().characters()) != narrow(vendor)) tviol("route:recycled-string->linkage:vendor", "get_linkage(a client String spelled like a known vendor language) is spelled differently");
               if (&lex.get_linkage(respell(k % 2 ? u8"C" : u8"C++")) != (k % 2 ? &L.c_linkage() : &L.cxx_linkage())) tviol("route:recycled-string->linkage:lookalike", "get_linkage(a client String spelled C / C++, re-created in the storage of a String that spelled a vendor language a moment ago) is not the standard linkage");
               if (&lex.get_linkage(respell(k % 2 ? u8"C++" : u8"C")) != (k % 2 ? &L.cxx_linkage() : &L.c_linkage())) tviol("route:recycled-string->linkage:lookalike", "get_linkage(a client String spelled C++ / C, re-created in place) is not the standard linkage");
               tcount("routes_through_a_string_object_recreated_in_place", 3);
            }
            (void)lex.get_identifier(u8"size_type");
            if (narrow(lex.get_identifier(respell(u8"size_type")).string().characters()) != "size_type") tviol("route:recycled-string->identifier", "get_identifier(a client String spelled like a known identifier) is spelled differently");
            const int bi = (k * 7) % NB;
            if (&lex.get_identifier(respell(widen(std::string(builtins[bi].spelling)).data())) != &(L.*builtins[bi].get)().name()) tviol("route:recycled-string->identifier:lookalike", "get_identifier(a client String spelled like a built-in, re-created in the storage of a String that spelled an ordinary identifier a moment ago) is not the built-in's name");
            tcount("routes_through_a_string_object_recreated_in_place", 2);
         }
      }
      if (&lex.get_label(lex.get_identifier(u8"default")) != &L.default_value()) tviol("route:identifier->label:default:after-look-alikes", "get_label(identifier \"default\") is no longer default_value() once a symbol spelled default exists in the Lexicon");
      if (&L.default_value().type() == &L.void_type()) tviol("constant:type:default_value", "default_value() is typed void");
      if (&lex.get_decltype(L.nullptr_value()) != &L.nullptr_value().type()) tviol("route:expression->decltype:nullptr:after-look-alikes", "get_decltype(nullptr_value()) is no longer nullptr_value().type()");
      for (int i = 0; i < NB; ++i) if (&lex.get_as_type(lex.get_identifier(widen(builtins[i].spelling))) != &(L.*builtins[i].get)()) tviol("route:identifier->as-type:lookalike:after-look-alikes", "a built-in spelling no longer leads to the built-in once look-alikes exist");
      for (int i = 0; i < NB; ++i) if (&lex.get_identifier(widen(builtins[i].spelling)) != &(L.*builtins[i].get)().name() || narrow(lex.get_string(widen(builtins[i].spelling)).characters()) != builtins[i].spelling) tviol("route:identifier:lookalike:after-look-alikes", "a built-in spelling no longer leads to the Identifier naming the built-in (or to a word spelled that way) once look-alikes exist");
      if (&lex.get_linkage(u8"C") != &L.c_linkage() || &lex.get_linkage(u8"C++") != &L.cxx_linkage()) tviol("route:word->linkage:after-look-alikes", "a standard linkage spelling no longer leads to the constant");
   }
   (void)rng;
   tcount("routes_checked");
}

// The constants as a Lexicon built during static initialisation sees them (constructor of a namespace-scope object with the
// earliest priority a program may ask for, so before any dynamic initialiser of the library's translation units): same nodes,
// same spellings, same routes as inside main().  Only plain arrays are filled here.
struct EarlyConstants {
   bool ran = false, threw = false;
   const void* snap[NB + 16] = { }; std::size_t count = 0;
   bool spelled[NB] = { }, routed[NB] = { }, symbol_spelled[5] = { };
   bool linkages_routed = false, default_label_routed = false;
   EarlyConstants()
   {
      try {
         impl::Lexicon lex; const Lexicon& L = lex;
         for (auto p : snapshot(L)) if (count < NB + 16) snap[count++] = p;
         for (int i = 0; i < NB; ++i) {
            const Type& t = (L.*builtins[i].get)();
            spelled[i] = name_spelling(t.name()) == builtins[i].spelling;
            routed[i] = &lex.get_as_type(lex.get_identifier(widen(std::string(builtins[i].spelling)))) == &t && &lex.get_identifier(widen(std::string(builtins[i].spelling))) == &t.name();
         }
         for (int i = 0; i < 5; ++i) symbol_spelled[i] = name_spelling((L.*symbols[i].get)().name()) == symbols[i].spelling;
         linkages_routed = &lex.get_linkage(u8"C") == &L.c_linkage() && &lex.get_linkage(u8"C++") == &L.cxx_linkage();
         default_label_routed = &lex.get_label(lex.get_identifier(u8"default")) == &L.default_value();
      } catch (...) { threw = true; }
      ran = true;
   }
};
__attribute__((init_priority(101))) static EarlyConstants early_constants;

static void body(Ctx& C)
{
   C.rule("finite space, enumerated: 26 built-in accessors (325 pairs), 5 symbolic constants, 2 linkages, each checked for spelling, "
          "self-denotation, type, transfer/linkage; identity of all of them across N Lexicon instances (some created and used "
          "concurrently on threads, some after others were destroyed); every spelling->node route (27 identifier->as-type, word->"
          "linkage by both overloads, identifier->label, expression->decltype) with near-miss spellings required NOT to yield a "
          "constant; a case = (check kind, constant, Lexicon instance)");
   C.assume("the spelling table committed in the harness (taken from the interface documentation) is the oracle");
   const int nlex = C.thorough ? 64 : 16;
   Rng rng(C.seed);
   std::vector<const void*> ref;
   {
      impl::Lexicon first;
      ref = snapshot(first);
      check_self_description(first, C.worker * 100000);
      check_routes(first, rng, C.worker * 100000);
   }
   {
      const EarlyConstants& E = early_constants;
      C.count("constants_seen_during_static_initialisation", E.ran ? (long long)E.count : 0);
      if (!E.ran || E.threw) C.viol("static-initialisation:lexicon-unusable", "a Lexicon built and asked for its constants during static initialisation raised an exception");
      else {
         if (E.count != ref.size() || !std::equal(ref.begin(), ref.end(), E.snap)) C.viol("process-wide:differs-during-static-initialisation", "a Lexicon built during static initialisation returned other constant nodes than one built inside main()");
         for (int i = 0; i < NB; ++i) {
            if (!E.spelled[i]) C.viol(std::string("builtin:spelling:during-static-initialisation:") + builtins[i].accessor, std::string(builtins[i].accessor) + "() does not name itself with its documented spelling during static initialisation");
            if (!E.routed[i]) C.viol("route:identifier->as-type:lookalike:during-static-initialisation", std::string("the spelling \"") + builtins[i].spelling + "\" does not lead to the built-in type during static initialisation");
         }
         for (int i = 0; i < 5; ++i) if (!E.symbol_spelled[i]) C.viol(std::string("constant:spelling:during-static-initialisation:") + symbols[i].accessor, std::string(symbols[i].accessor) + "() is not spelled as documented during static initialisation");
         if (!E.linkages_routed) C.viol("route:word->linkage:during-static-initialisation", "a standard linkage spelling does not lead to the constant during static initialisation");
         if (!E.default_label_routed) C.viol("route:identifier->label:default:during-static-initialisation", "get_label(identifier \"default\") is not default_value() during static initialisation");
      }
   }
   // sequential instances, with heap noise and earlier instances destroyed or alive
   std::vector<std::unique_ptr<impl::Lexicon>> alive;
   for (int i = 0; i < nlex; ++i) {
      std::vector<std::unique_ptr<char[]>> noise;
      for (int k = 0; k < int(rng.below(20)); ++k) noise.emplace_back(new char[1 + rng.below(5000)]);
      auto lx = std::make_unique<impl::Lexicon>();
      if (snapshot(*lx) != ref) C.viol("process-wide:differs-between-lexicons", "a Lexicon returned different constant nodes than the first one");
      check_self_description(*lx, C.worker * 100000 + 1 + i);
      if (i % 4 == 0) check_routes(*lx, rng, C.worker * 100000 + 1 + i);
      C.count("lexicon_instances");
      if (rng.chance(50)) alive.push_back(std::move(lx));
   }
   // concurrent instances
   const int nthreads = C.thorough ? 16 : 8;
   std::vector<std::thread> th;
   for (int t = 0; t < nthreads; ++t)
      th.emplace_back([&, t] {
         Rng r(hash_mix(C.seed, 1000 + t));
         for (int k = 0; k < 3; ++k) {
            impl::Lexicon lx;
            if (snapshot(lx) != ref) tviol("process-wide:differs-between-lexicons", "a Lexicon on another thread returned different constant nodes");
            check_self_description(lx, C.worker * 100000 + 10000 + t * 10 + k);
            check_routes(lx, r, C.worker * 100000 + 10000 + t * 10 + k);
            tcount("lexicon_instances_threaded");
         }
      });
   for (auto& x : th) x.join();
   C.sample(J().s("kind", "constant").s("accessor", "ushort_type").s("documented_spelling", "unsigned short").str());
   C.sample(J().s("kind", "route").s("route", "get_as_type(get_identifier(\"long long\"))").s("expect", "long_long_type()").str());
   C.sample(J().s("kind", "near-miss").s("route", "get_as_type(get_identifier(\"long long \"))").s("expect", "not a constant, unified").str());
   C.need("builtin_accessors_checked"); C.need("builtin_pairs_checked"); C.need("routes_checked"); C.need("near_miss_routes_checked");
   C.need("lexicon_instances"); C.need("look_alike_symbols_asked_for_their_decltype"); C.need("lexicon_instances_threaded"); C.need("same_length_hash_twins_of_constant_spellings_planted"); C.need("constants_seen_during_static_initialisation"); C.need("routes_through_a_string_object_recreated_in_place");
   C.exhaustive(true);
}

int main(int argc, char** argv) { return guarded_main(argc, argv, body); }
