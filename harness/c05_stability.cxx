// C05 -- node identity is stable: nodes never move, never silently change, never alias.
// A registry keeps, for every node ever returned by a factory (and every node those hand out), an *identity fingerprint*:
// the outcome of every zero-argument const accessor of its interface class (name list generated from the headers) --
// addresses of the nodes and objects returned, values of scalars, bytes of spellings, element addresses of sequences,
// "logic_error" where a part is absent.  The history then goes on (more factory calls of every kind, member additions,
// growth of every farm / deque / vector / pool / tree) and earlier nodes are re-observed after every step: the
// fingerprint must be identical, except that a sequence reported by a container node may have gained elements at its
// end.  The hand-written shadows of the factory sweep are re-run as well, generative results must be pairwise distinct,
// and everything runs under ASan (stale storage is trapped when re-read).
#include "sweep_all.hpp"
#include "collect.hpp"
#include "inspect.hpp"
#include "gen/categories.hpp"
#include "gen/accessor_names.hpp"
#include <type_traits>
#include <unordered_map>
#include <memory>

using namespace vh;

namespace {
// --- identity fingerprint ------------------------------------------------------------------------------------------
struct Entry {
   std::uint16_t name = 0;              // index into the accessor-name table (plus a nesting prefix hash)
   std::uint8_t kind = 0;               // 0 value(s), 1 logic_error, 2 sequence, 3 other exception
   std::uint32_t path = 0;              // hash of the nesting path (objects returned by value / non-node references)
   std::uintptr_t ref = 0;              // address of a non-node object returned by reference (part of the identity)
   std::vector<std::uintptr_t> data;
   bool operator==(const Entry&) const = default;
};
using FP = std::vector<Entry>;

const char* const accessor_names[] = {
#define VH_X(A) #A,
   VH_ACCESSOR_NAMES(VH_X)
#undef VH_X
};

template<class T> struct is_optional : std::false_type { };
template<class T> struct is_optional<Optional<T>> : std::true_type { };
template<class T> concept SequenceLike = requires(const T& v) { typename T::value_type; v.size(); v.begin(); v.end(); } && std::is_base_of_v<ipr::Sequence<typename T::value_type>, T>;
template<class T> concept ViewLike = requires(const T& v) { v.data(); v.size(); } && !SequenceLike<T>;

struct Fingerprinter {
   FP* fp = nullptr;
   template<class T> void object(const T& v, int depth, std::uint32_t path);
   // the value of one result, flattened into `out`; non-node objects are swept recursively (bounded)
   template<class T> void value(const T& v, int depth, std::uint32_t path, std::vector<std::uintptr_t>& out)
   {
      using U = std::remove_cvref_t<T>;
      if constexpr (std::is_base_of_v<Node, U>) out.push_back(std::uintptr_t(static_cast<const Node*>(&v)));
      else if constexpr (SequenceLike<U>) {
         out.push_back(v.size());
         std::size_t k = 0;
         for (auto it = v.begin(); it != v.end() && k < 100000; ++it, ++k) value(*it, depth - 1, path, out);
      }
      else if constexpr (is_optional<U>::value) { if (v.is_valid()) value(v.get(), depth, path, out); else out.push_back(0); }
      else if constexpr (std::is_enum_v<U>) out.push_back(std::uintptr_t(v));
      else if constexpr (std::is_arithmetic_v<U> || std::is_pointer_v<U>) out.push_back((std::uintptr_t)v);
      else if constexpr (ViewLike<U>) { out.push_back(std::uintptr_t(v.data())); out.push_back(v.size()); out.push_back(hash_bytes(std::string_view(reinterpret_cast<const char*>(v.data()), v.size() * sizeof(*v.data())))); }
      else if constexpr (std::is_class_v<U>) {
         out.push_back(0xC1A55);
         if (depth > 0) { FP* saved = fp; FP inner; fp = &inner; object(v, depth - 1, path * 31 + 7); fp = saved;
            std::uint64_t h = 1469598103934665603ull; for (auto& e : inner) { h = hash_mix(h, e.name); h = hash_mix(h, e.kind); for (auto d : e.data) h = hash_mix(h, d); } out.push_back(std::uintptr_t(h)); }
      }
   }
   template<class F> void call(std::uint16_t name, int depth, std::uint32_t path, F f)
   {
      Entry e; e.name = name; e.path = path;
      try {
         decltype(auto) r = f();
         using R = decltype(f());
         using U = std::remove_cvref_t<R>;
         if constexpr (SequenceLike<U>) e.kind = 2;
         // a non-node object returned by reference: its address is part of the identity
         if constexpr (std::is_lvalue_reference_v<R> && !std::is_base_of_v<Node, U>) e.ref = std::uintptr_t(&r);
         value(r, depth, path, e.data);
      }
      catch (const std::logic_error&) { e.kind = 1; e.data.clear(); e.ref = 0; }
      catch (...) { e.kind = 3; e.data.clear(); e.ref = 0; }
      fp->push_back(std::move(e));
   }
};
template<class T> void Fingerprinter::object(const T& v, int depth, std::uint32_t path)
{
   std::uint16_t idx = 0;
#define VH_X(A) if constexpr (requires(const T& t) { t.A(); }) { if constexpr (!std::is_void_v<decltype(v.A())>) call(idx, depth, path, [&]() -> decltype(auto) { return v.A(); }); } ++idx;
   VH_ACCESSOR_NAMES(VH_X)
#undef VH_X
}

struct FPDispatch : Visitor {
   Fingerprinter& f;
   explicit FPDispatch(Fingerprinter& ff) : f(ff) { }
   void visit(const Node&) override { } void visit(const Expr&) override { } void visit(const Classic&) override { } void visit(const Name&) override { }
   void visit(const Type&) override { } void visit(const Directive&) override { } void visit(const Stmt&) override { } void visit(const Decl&) override { }
#define VH_X(C) void visit(const ipr::C& n) override { f.object<ipr::C>(n, 2, 0); }
   VH_LEAF_CATEGORIES(VH_X)
#undef VH_X
};

FP fingerprint(const Node& n)
{
   FP fp; Fingerprinter f; f.fp = &fp;
   Entry c; c.name = 0xffff; c.data.push_back(std::uintptr_t(n.category)); fp.push_back(c);
   FPDispatch d(f); n.accept(d);
   // what a scope answers when asked by name, and what each overload set answers when asked by type: one entry per member
   // met so far, in entry order (a sequence entry: later members may add answers, earlier answers stay)
   if (auto sc = util::view<Scope>(n)) {
      Entry e; e.name = 0xfffe; e.kind = 2; e.data.push_back(sc->elements().size());
      std::size_t k = 0;
      for (auto& m : sc->elements()) {
         if (++k > 400) break;
         try { auto o = (*sc)[m.name()]; e.data.push_back(o.is_valid() ? std::uintptr_t(&o.get()) : 0);
               if (o.is_valid()) { auto sel = o.get()[m.type()]; e.data.push_back(sel.is_valid() ? std::uintptr_t(&sel.get()) : 0); } else e.data.push_back(1); }
         catch (const std::logic_error&) { e.data.push_back(2); e.data.push_back(2); }
      }
      fp.push_back(std::move(e));
   }
   return fp;
}

// containers: nodes whose reported sequences may legitimately gain members at their end
bool is_container(const Node& n)
{
   switch (n.category) {
   case Category_code::Region: case Category_code::Scope: case Category_code::Overload: case Category_code::Class: case Category_code::Union: case Category_code::Namespace:
   case Category_code::Enum: case Category_code::Closure: case Category_code::Block: case Category_code::Expr_list: case Category_code::Parameter_list: case Category_code::Mapping:
   case Category_code::Lambda: case Category_code::Requires: case Category_code::Product: case Category_code::Pragma: case Category_code::Structured_binding:
   case Category_code::Using_declaration: case Category_code::Template: case Category_code::Handler: case Category_code::Specifiers_spread:
      return true;
   default:
      return dynamic_cast<const Decl*>(&n) != nullptr;      // a declaration's decl-set grows with redeclarations
   }
}

// compare; returns "" or the name of the first accessor that differs
std::string compare(const FP& was, const FP& now, bool container)
{
   if (was.size() != now.size()) return "(number of accessors)";
   for (std::size_t i = 0; i < was.size(); ++i) {
      const Entry& a = was[i]; const Entry& b = now[i];
      const char* nm = a.name == 0xffff ? "category" : a.name == 0xfffe ? "operator[](name) / operator[](type) of its members" : accessor_names[a.name];
      if (a.name != b.name || a.path != b.path) return nm;
      if (a.kind == b.kind && a.ref != b.ref) return nm;
      if (a.kind != b.kind) {
         if (container && a.kind == 1 && b.kind != 3) continue;       // a part that was absent was supplied later (the client's own doing)
         return nm;
      }
      if (a.data == b.data) continue;
      // the one scalar of a container that is defined from its membership: Block::try_block() <=> it has handlers
      if (container && a.kind == 0 && std::strcmp(nm, "try_block") == 0) continue;
      if (!container || a.kind != 2) return nm;
      // prefix rule: [size, e0, e1, ...] -> size may grow, earlier elements stay
      if (a.data.empty() || b.data.empty() || b.data[0] < a.data[0] || b.data.size() < a.data.size()) return nm;
      for (std::size_t k = 1; k < a.data.size(); ++k) if (a.data[k] != b.data[k]) return nm;
   }
   return "";
}

struct Item { const Node* n; std::string label; FP fp; int born; bool container; int made_index; };

struct History {
   Ctx& C; Rng& rng;
   impl::Lexicon lex; impl::Translation_unit unit { lex };
   std::unique_ptr<Sweep> S;
   std::vector<Item> items;
   std::unordered_map<const Node*, std::size_t> index;
   std::unordered_map<const Node*, std::string> generative;      // result of a generative constructor -> factory
   std::size_t made_seen = 0;
   std::vector<std::size_t> others;          // sweep artifacts that are not nodes
   cxx_form::impl::Designated_list_provision* dp = nullptr; cxx_form::impl::Braced_provision* dp_init = nullptr;
   std::vector<std::pair<const cxx_form::Earmarked_initializer*, const cxx_form::Subobject_designator*>> dp_held;
   int step = 0;
   long long reobservations = 0, shadow_reruns = 0;
   // containers grown by the history itself
   impl::Enum* en = nullptr; impl::Class* cls = nullptr; impl::Namespace* ns = nullptr; impl::Mapping* mp = nullptr; impl::Block* blk = nullptr; impl::Expr_list* xl = nullptr;
   impl::Region* chain = nullptr; impl::Pragma* prag = nullptr; impl::Union* un = nullptr;
   std::list<impl::Module> modules; std::list<impl::Translation_unit> units;
   std::vector<const Type*> tpool; int serial = 0;

   History(Ctx& c, Rng& r) : C(c), rng(r) { }

   // "never alias": a sequence OBJECT (identified by its address) that a node hands out by reference has one content at a time.
   // When the same object comes back from another node (or another accessor) its content is what it was, give or take members
   // added at the end since; a node that answers through an object shared with - and re-pointed by - other nodes shows here
   // because what the object held for the first node is not a prefix of (nor prefixed by) what it holds for the second.
   struct SeqSeen { const Node* owner; std::uint16_t accessor; std::vector<std::uintptr_t> data; };
   std::unordered_map<std::uintptr_t, SeqSeen> seq_objects;
   void note_sequences(const Node& n, const FP& fp)
   {
      for (auto& e : fp) {
         if (e.kind != 2 || e.ref == 0 || e.path != 0 || e.name >= 0xfff0) continue;
         auto [it, fresh] = seq_objects.try_emplace(e.ref, SeqSeen { &n, e.name, e.data });
         C.count("sequence_objects_matched_against_their_earlier_content");
         if (fresh) continue;
         SeqSeen& was = it->second;
         const auto& a = was.data; const auto& b = e.data;
         const std::size_t common = std::min(a.size(), b.size());
         bool prefix = !a.empty() && !b.empty();
         for (std::size_t k = 1; k < common && prefix; ++k) if (a[k] != b[k]) prefix = false;
         if (!prefix && !(a.empty() && b.empty()))
            C.viol(std::string("aliased-sequence-object:") + accessor_names[e.name], std::string("the sequence object returned by ") + accessor_names[e.name] + "() of a " + demangle(typeid(n).name()) + " is the object that " + accessor_names[was.accessor] + "() of " + (was.owner == &n ? "the same node" : "another node (a " + demangle(typeid(*was.owner).name()) + ")") + " returned earlier, with other elements",
                   J().n("step", step).str());
         was.owner = &n; was.accessor = e.name; was.data = e.data;
      }
   }
   void reg(const Node& n, const std::string& label, int made_index = -1)
   {
      if (index.count(&n)) return;
      index.emplace(&n, items.size());
      items.push_back(Item { &n, label, fingerprint(n), step, is_container(n), made_index });
      note_sequences(n, items.back().fp);
      C.count("nodes_registered");
   }
   // register what a step produced: new sweep artifacts, and (bounded) what they hand out
   void absorb()
   {
      Collector col;
      for (; made_seen < S->made.size(); ++made_seen) {
         auto& m = S->made[made_seen];
         if (!m.node) { others.push_back(made_seen); C.count("artifacts_registered_that_are_not_nodes"); continue; }      // forms, attributes, tokens, captures, units: re-verified through their shadows
         if (m.generative) {
            auto [it, fresh] = generative.emplace(m.node, m.factory);
            if (!fresh) C.viol("generative-result-not-fresh:" + m.factory.substr(0, m.factory.find('(')), "a generative constructor (" + m.factory + ") returned a node that an earlier generative call (" + it->second + ") had already returned");
            C.count("generative_results");
         }
         reg(*m.node, m.factory, int(made_seen));
         col.add(*m.node);
      }
      const std::size_t roots = col.nodes.size();
      for (std::size_t i = 0; i < roots; ++i) col.expand(*col.nodes[i]);
      for (std::size_t i = roots; i < col.nodes.size(); ++i) reg(*col.nodes[i], "handed out by " + demangle(typeid(*col.nodes[i]).name()));
   }
   void fresh_generative(const Node& n, const char* factory)
   {
      auto [it, fresh] = generative.emplace(&n, factory);
      if (!fresh) C.viol(std::string("generative-result-not-fresh:") + factory, std::string("a generative constructor (") + factory + ") returned a node that an earlier generative call (" + it->second + ") had already returned");
      C.count("generative_results");
      reg(n, factory);
   }
   void observe(Item& it)
   {
      ++reobservations;
      FP now = fingerprint(*it.n);
      std::string d = compare(it.fp, now, it.container);
      if (!d.empty()) {
         std::string cls_name = demangle(typeid(*it.n).name());
         C.viol("changed-after-later-step:" + cls_name.substr(0, 60) + ":" + d, "a node returned at step " + std::to_string(it.born) + " (" + it.label + ") reports something else through " + d + "() after step " + std::to_string(step),
                J().n("step", step).n("born", it.born).s("label", it.label).str());
      }
      note_sequences(*it.n, now);
      it.fp = std::move(now);
      if (it.made_index >= 0) {
         ++shadow_reruns;
         Ck ck; Sweep::run_check(S->made[std::size_t(it.made_index)], ck);
         for (auto& f : ck.fails) C.viol("shadow-fails-after-later-step:" + it.label.substr(0, it.label.find('(')) + ":" + std::get<1>(f), "a node built by " + it.label + " at step " + std::to_string(it.born) + " no longer reports what it was built from after step " + std::to_string(step) + ": " + std::get<2>(f));
      }
      C.eval(hash_mix(hash_bytes(it.label), std::uint64_t(step - it.born)));
      if (step - it.born > 40 && (reobservations % 9973) == 0)
         C.sample(J().s("kind", "re-observation").s("node", it.label).s("class", demangle(typeid(*it.n).name())).n("returned_at_step", it.born).n("re_observed_after_step", step).n("accessors_compared", (long long)it.fp.size()).b("container", it.container).str(), 4);
   }
   void check_designated_list()
   {
      if (!dp) return;
      C.count("designated_list_walks");
      C.maxi("longest_designated_list_grown_by_a_history", (long long)dp_held.size());
      if (dp->elements().size() != dp_held.size()) { C.viol("changed-after-later-step:Designated_list_provision:elements.size", "a designated list reports " + std::to_string(dp->elements().size()) + " members, " + std::to_string(dp_held.size()) + " were added"); return; }
      std::size_t i = 0;
      for (auto& m : dp->elements()) {
         if (&m != dp_held[i].first) { C.viol("moved-after-later-step:Designated_list_provision:member", "member " + std::to_string(i) + " of a designated list with " + std::to_string(dp_held.size()) + " members is no longer the object that was handed out when it was added"); return; }
         if (&m.subobject() != dp_held[i].second || &m.initializer() != static_cast<const cxx_form::Initialization_provision*>(dp_init)) { C.viol("changed-after-later-step:Designated_list_provision:member", "a member of a designated list no longer reports the designator / initializer it was added with"); return; }
         ++i;
      }
   }
   void observe_other(std::size_t made_index)
   {
      ++shadow_reruns;
      auto& m = S->made[made_index];
      Ck ck; Sweep::run_check(m, ck);
      for (auto& f : ck.fails) C.viol("shadow-fails-after-later-step:" + m.factory.substr(0, m.factory.find('(')) + ":" + std::get<1>(f), "an artifact built by " + m.factory + " no longer reports what it was built from after step " + std::to_string(step) + ": " + std::get<2>(f));
      C.count("reobservations_of_artifacts_that_are_not_nodes");
   }
   void reobserve(bool everything)
   {
      if (items.empty()) return;
      if (everything) { for (auto& it : items) observe(it); for (auto i : others) observe_other(i); check_designated_list(); C.count("full_reobservations"); return; }
      for (int k = 0; k < 6 && !others.empty(); ++k) observe_other(others[rng.below(others.size())]);
      for (int k = 0; k < 48; ++k) observe(items[rng.below(items.size())]);
      // the most recent nodes and the oldest ones are the likeliest victims of a relocating store
      for (std::size_t k = 0; k < 16 && k < items.size(); ++k) observe(items[items.size() - 1 - k]);
      for (std::size_t k = 0; k < 40 && k < items.size(); ++k) observe(items[k]);        // the grown containers and their parts come first
   }

   const Identifier& id(const char* p, int i) { return lex.get_identifier(widen(std::string(p) + std::to_string(i))); }
   const Type& T() { return *tpool[rng.below(tpool.size())]; }

   void open()
   {
      const Lexicon& L = lex;
      S = std::make_unique<Sweep>(lex, unit, rng);
      auto& greg = *unit.global_region();
      tpool = { &L.int_type(), &L.char_type(), &L.double_type(), &L.bool_type() };
      en = lex.make_enum(greg, Enum::Kind::Scoped); cls = lex.make_class(greg); ns = lex.make_namespace(greg); mp = lex.make_mapping(greg, Mapping_level { 1 }); blk = lex.make_block(greg);
      xl = lex.make_expr_list(); chain = greg.make_subregion(); prag = lex.make_pragma(); un = lex.make_union(greg);
      for (const Node* n : std::initializer_list<const Node*> { en, cls, ns, mp, blk, xl, chain, prag, un, &unit.global_namespace(), unit.global_region(), &unit.global_region()->bindings() }) reg(*n, "container grown by the history");
      // ... and what those containers hand out: their regions, scopes (asked by name and by type in the fingerprint), parameter lists
      {
         Collector col;
         for (const Node* n : std::initializer_list<const Node*> { en, cls, ns, mp, blk, un }) col.add(*n);
         col.add(mp->parameters()); col.add(mp->parameters().region()); col.add(mp->parameters().region().bindings());
         const std::size_t roots = col.nodes.size();
         for (std::size_t i = 0; i < roots; ++i) col.expand(*col.nodes[i]);
         for (auto n : col.nodes) reg(*n, "part of a container grown by the history: " + demangle(typeid(*n).name()));
      }
      absorb();
   }

   // Reads that are NOT complete front-to-back scans: one element of each grown container that is not its last one (by position,
   // through begin(), by name), so that the last thing asked of a container before its next member arrives is an arbitrary read.
   // What the reads return is judged by the re-observations; here they only happen.
   void stray_reads()
   {
      auto poke = [&](const auto& seq) {
         const std::size_t n = seq.size(); if (n < 2) return;
         const std::size_t i = rng.below(n - 1);
         switch (rng.below(3)) { case 0: (void)&*seq.position(i); break; case 1: (void)&*seq.begin(); break; default: { auto it = seq.begin(); for (std::size_t k = 0; k < i && k < 5; ++k) ++it; (void)&*it; } }
         C.count("stray_reads_between_additions");
      };
      auto by_name = [&](const Scope& sc) {
         const std::size_t n = sc.size(); if (n < 2) return;
         const Decl& d = *sc.elements().position(1 + rng.below(n - 1));          // never the first member
         try { (void)sc[d.name()].is_valid(); C.count("stray_lookups_by_name_between_additions"); } catch (const std::logic_error&) { }
      };
      poke(en->members()); poke(cls->bases()); poke(cls->members()); poke(mp->parameters().elements()); poke(blk->body()); poke(blk->handlers()); poke(xl->elements());
      poke(unit.global_scope()->elements()); poke(ns->scope().elements());
      by_name(en->region().bindings()); by_name(mp->parameters().region().bindings()); by_name(cls->scope()); by_name(ns->scope());
      if (cls->bases().size() >= 2) by_name(cls->bases().begin()->home_region().bindings());
   }

   // one step of the history
   void one_step()
   {
      ++step;
      const Lexicon& L = lex;
      stray_reads();
      const int k = int(rng.below(26));
      switch (k) {
      case 0: S->exprs_unary(); break; case 1: S->exprs_binary(); break; case 2: S->exprs_other(); break; case 3: S->stmts(); break; case 4: S->directives(); break;
      case 5: S->types_and_names(); S->unified_neighbours(); break; case 6: S->decls_and_regions(); break; case 7: S->forms(); break; case 8: S->attributes_captures_units(); break;
      case 9: { int n = 1 + int(rng.below(40)); for (int i = 0; i < n; ++i, rng.chance(40) ? stray_reads() : void()) fresh_generative(*en->add_member(rng.chance(15) ? id("e", int(rng.below(3))) : id("e", serial++)), "add_member"); break; }
      case 10: { int n = 1 + int(rng.below(20)); for (int i = 0; i < n; ++i, rng.chance(40) ? stray_reads() : void()) { fresh_generative(*cls->declare_field(id("f", serial++), T()), "declare_field"); if (rng.chance(20)) fresh_generative(*cls->declare_base(*un), "declare_base"); } break; }
      case 11: { int n = 1 + int(rng.below(20)); for (int i = 0; i < n; ++i) fresh_generative(*ns->declare_var(id("v", int(rng.below(6))), *tpool[rng.below(3)]), "declare_var"); break; }
      case 12: { int n = 1 + int(rng.below(20)); for (int i = 0; i < n; ++i, rng.chance(40) ? stray_reads() : void()) fresh_generative(*mp->param(rng.chance(25) ? lex.get_identifier(u8"") : id("p", serial++), T()), "param"); break; }     // several unnamed parameters
      case 13: { int n = 1 + int(rng.below(20)); for (int i = 0; i < n; ++i, rng.chance(40) ? stray_reads() : void()) { auto* s = lex.make_expr_stmt(*lex.make_literal(L.int_type(), widen(std::to_string(serial++)))); fresh_generative(*s, "make_expr_stmt"); blk->add_stmt(*s); } if (rng.chance(40)) fresh_generative(*blk->new_handler(id("h", serial++), T()), "new_handler"); break; }
      case 14: { int n = 1 + int(rng.below(60)); for (int i = 0; i < n; ++i, rng.chance(20) ? stray_reads() : void()) { auto* p = lex.make_phantom(); fresh_generative(*p, "make_phantom"); xl->push_back(p); } break; }
      case 15: { int n = 1 + int(rng.below(20)); for (int i = 0; i < n; ++i) { chain = chain->make_subregion(); fresh_generative(*chain, "make_subregion"); fresh_generative(*chain->declare_var(id("c", serial++), T()), "declare_var"); } break; }
      case 16: { // unified tables grow: many rebalancings between a node's creation and its re-observation
         int n = 20 + int(rng.below(200));
         for (int i = 0; i < n; ++i) {
            const Type& t = T(); const Type* r = nullptr;
            switch (rng.below(6)) { case 0: r = &lex.get_pointer(t); break; case 1: r = &lex.get_reference(t); break; case 2: r = &lex.get_qualified(Qualifiers(1 + rng.below(7)), t); break;
               case 3: r = &lex.get_array(t, *lex.make_literal(L.int_type(), widen(std::to_string(serial++)))); break; case 4: r = &lex.get_rvalue_reference(t); break;
               default: { impl::Warehouse<Type> w; for (int j = 0; j < int(rng.below(5)); ++j) w.push_back(T()); r = &lex.get_function(lex.get_product(w), t); reg(lex.get_sum(w), "get_sum(Warehouse since destroyed)"); break; } }
            tpool.push_back(r); if (i % 7 == 0) reg(*r, "unified type");
         }
         break; }
      case 17: { // words: small ones, and large ones that roll the pool over
         int n = 5 + int(rng.below(40));
         for (int i = 0; i < n; ++i) { std::string w = "w" + std::to_string(serial++); if (rng.chance(30)) w.resize(20000 + rng.below(60000), char('a' + i % 26)); auto& s = lex.get_string(widen(w)); if (i % 4 == 0) { reg(s, "get_string"); reg(lex.get_identifier(s), "get_identifier"); } }
         C.maxi("string_pools", Inspector::arena_pools(Inspector::arena(Inspector::strings(static_cast<const impl::name_factory&>(lex)))));
         break; }
      case 18: { modules.emplace_back(lex); int n = 1 + int(rng.below(6)); for (int i = 0; i < n; ++i) { auto* mu = modules.back().make_unit(); reg(mu->global_namespace(), "module unit namespace"); mu->global_scope()->make_var(id("m", i), L.int_type()); } break; }
      case 19: { units.emplace_back(lex); auto* v = units.back().global_scope()->make_var(id("u", serial++), T()); fresh_generative(*v, "make_var"); reg(units.back().global_namespace(), "translation unit namespace"); break; }
      case 20: { int n = 1 + int(rng.below(30)); for (int i = 0; i < n; ++i) prag->tokens.push_back(lex.get_string(widen("tok" + std::to_string(serial++))), Source_location { }, TokenValue(i), TokenCategory(1)); break; }
      case 21: { int n = 1 + int(rng.below(20)); for (int i = 0; i < n; ++i) fresh_generative(*un->declare_field(id("uf", serial++), T()), "declare_field");
                 // and a designated-initializer list that the history keeps adding to: every member handed out so far stays where it is
                 auto& greg = *unit.global_region();
                 if (!dp) { dp = greg.make_designated_provision(); dp_init = greg.make_braced_provision(); }
                 for (int i = 0; i < 1 + int(rng.below(9)); ++i) {
                    const cxx_form::Subobject_designator* d = greg.make_field_designator(id("dd", serial++));
                    dp_held.emplace_back(dp->seq.push_back(*d, *dp_init), d);
                 }
                 check_designated_list();
                 break; }
      case 22: { // many overload sets in one scope, and redeclarations (decl-sets grow)
         int n = 5 + int(rng.below(60)); for (int i = 0; i < n; ++i) fresh_generative(*unit.global_scope()->make_var(id("g", int(rng.below(80))), *tpool[rng.below(4)]), "make_var"); break; }
      case 23: { // first declarations and redeclarations of every declaration kind (one kind per name; repeated (name, type) pairs):
                 // whatever a redeclaration does, the earlier declarations of the set must keep reporting what they did
         impl::Scope& sc = *(rng.chance(50) ? unit.global_scope() : &ns->body.scope);
         impl::Warehouse<Type> w1; w1.push_back(L.int_type());
         auto& p1 = lex.get_product(w1);
         const Function* fts[] = { &lex.get_function(p1, L.int_type()), &lex.get_function(p1, L.void_type()) };
         const Forall* fas[] = { &lex.get_forall(p1, L.class_type()), &lex.get_forall(p1, *fts[0]) };
         int n = 2 + int(rng.below(12));
         for (int i = 0; i < n; ++i) {
            const int which = int(rng.below(2)), nm = int(rng.below(3));
            switch (rng.below(8)) {
            case 0: fresh_generative(*sc.make_var(id("rv", nm), *tpool[std::size_t(which)]), "make_var"); break;
            case 1: fresh_generative(*sc.make_field(id("rf", nm), *tpool[std::size_t(which)]), "make_field"); break;
            case 2: { auto* d = sc.make_bitfield(id("rb", nm), *tpool[std::size_t(which)]); d->length = lex.make_literal(L.int_type(), u8"3"); fresh_generative(*d, "make_bitfield"); break; }
            case 3: fresh_generative(*sc.make_alias(id("ra", nm), *lex.make_literal(*tpool[std::size_t(which)], u8"0")), "make_alias"); break;
            case 4: fresh_generative(*sc.make_typedecl(id("rt", nm), which ? L.class_type() : L.typename_type()), "make_typedecl"); break;
            case 5: fresh_generative(*sc.make_fundecl(id("rfn", nm), *fts[which]), "make_fundecl"); break;
            case 6: { auto* d = sc.make_primary_template(id("rp", nm), *fas[which]); fresh_generative(*d, "make_primary_template"); break; }
            default: { auto* d = sc.make_secondary_template(id("rs", nm), *fas[which]); fresh_generative(*d, "make_secondary_template"); break; }
            }
         }
         C.count("redeclaration_steps");
         break; }
      default: { int n = 1 + int(rng.below(50)); for (int i = 0; i < n; ++i) { fresh_generative(*lex.make_literal(T(), widen("fresh" + std::to_string(serial++))), "make_literal(fresh spelling)"); fresh_generative(*lex.make_id_expr(id("x", serial++)), "make_id_expr"); } break; }
      }
      C.count(std::string("steps:") + (k < 9 ? "sweep-section" : k == 16 ? "unified-table-growth" : k == 17 ? "words" : "member-addition"));
      absorb();
   }
};
} // namespace

static void body(Ctx& C)
{
   C.rule("a case = one re-observation of one earlier node after a later step of a history (factory sweep sections, member additions to enum / class / union / namespace / mapping / block / "
          "expression list / region chain / pragma / global scope, growth of unified tables, words across pool roll-overs, new units and modules): its identity fingerprint (every "
          "zero-argument const accessor of its interface class: addresses, values, spelling bytes, element addresses, absences) must be what it was, except that sequences of container "
          "nodes may have grown at their end; sweep shadows are re-run; generative results are pairwise distinct; ASan traps stale storage; distinct = distinct (node label, age in steps)");
   C.assume("for containers (regions, scopes, overload sets, user-defined types, blocks, lists, mappings, declarations with their decl-sets) a sequence may grow at its end (prefix rule), a part that was absent may have been supplied by the history, and Block::try_block() follows the handlers; everything else must be identical");
   Rng seeds(C.seed);
   const int shorts = C.thorough ? 40 : 3, longs = C.thorough ? 2 : 0;
   for (int h = 0; h < shorts + longs; ++h) {
      Rng rng(seeds.next());
      const bool is_long = h >= shorts;
      History H(C, rng);
      H.open();
      const int steps = is_long ? 1500 : 60 + int(rng.below(60));
      for (int s = 0; s < steps; ++s) {
         H.one_step();
         H.reobserve(is_long ? (s % 250 == 249) : (s % 20 == 19));
      }
      H.reobserve(true);
      C.count("histories"); C.count("steps", H.step); C.count("reobservations", H.reobservations); C.count("shadow_reruns", H.shadow_reruns);
      C.maxi("nodes_in_one_history", (long long)H.items.size()); C.maxi("steps_in_one_history", H.step);
      C.maxi("enumerators_in_grown_enum", (long long)H.en->members().size()); C.maxi("statements_in_grown_block", (long long)H.blk->body().size()); C.maxi("elements_in_grown_expr_list", (long long)H.xl->size());
   }
   // two Lexicons whose lives overlap: what one handed out must not depend on the other staying alive
   for (int h = 0; h < (C.thorough ? 12 : 2); ++h) {
      Rng ra(seeds.next()), rb(seeds.next());
      auto A = std::make_unique<History>(C, ra); A->open();
      for (int k = 0; k < 9; ++k) { ++A->step; switch (k) { case 0: A->S->exprs_unary(); break; case 1: A->S->exprs_binary(); break; case 2: A->S->exprs_other(); break; case 3: A->S->stmts(); break; case 4: A->S->directives(); break;
         case 5: A->S->types_and_names(); A->S->unified_neighbours(); break; case 6: A->S->decls_and_regions(); break; case 7: A->S->forms(); break; default: A->S->attributes_captures_units(); break; } A->absorb(); }
      auto B = std::make_unique<History>(C, rb); B->open();
      for (int k = 0; k < 9; ++k) { ++B->step; switch (k) { case 0: B->S->exprs_unary(); break; case 1: B->S->exprs_binary(); break; case 2: B->S->exprs_other(); break; case 3: B->S->stmts(); break; case 4: B->S->directives(); break;
         case 5: B->S->types_and_names(); B->S->unified_neighbours(); break; case 6: B->S->decls_and_regions(); break; case 7: B->S->forms(); break; default: B->S->attributes_captures_units(); break; } B->absorb(); }
      for (int s = 0; s < 20; ++s) { A->one_step(); B->one_step(); }
      B->reobserve(true);
      A.reset();                                      // the older Lexicon dies; ASan poisons everything it owned
      ++B->step;
      B->reobserve(true);
      for (int s = 0; s < 20; ++s) B->one_step();
      B->reobserve(true);
      C.count("overlapping_lexicon_pairs"); C.count("reobservations", B->reobservations); C.count("steps", B->step);
   }
   for (auto k : { "overlapping_lexicon_pairs", "histories", "steps", "reobservations", "shadow_reruns", "generative_results", "nodes_registered", "full_reobservations", "steps:sweep-section", "steps:unified-table-growth", "steps:words", "steps:member-addition", "redeclaration_steps", "reobservations_of_artifacts_that_are_not_nodes", "sequence_objects_matched_against_their_earlier_content", "stray_reads_between_additions", "stray_lookups_by_name_between_additions" }) C.need(k);
   C.need("string_pools", 2);
}

int main(int argc, char** argv) { return guarded_main(argc, argv, body); }
