// C17 -- printed text depends only on graph structure and printer options.
// The same construction program is executed in Lexicon A (straight order) and in Lexicon B (a random topological
// re-ordering, strings and names pre-created in reverse order, heap noise and unrelated nodes in between, after a
// different number of earlier Lexicons); both are printed item by item and compared byte for byte.  The unit is printed
// a second time with a fresh printer; an identity snapshot of the graph is compared before/after printing; source
// locations are accounted for against the program's own L_LOCATE steps and against the location-free twin.
#include "progs.hpp"
#include "forkrun.hpp"
#include <sstream>
#include <regex>

using namespace vh;

namespace {
struct Printed {
   std::string text;          // all bytes, with item separators and refusal markers
   int refused = 0, items = 0;
};

// every global declaration and every top item through its own Printer (same stream), then the whole unit
Printed print_all(const Lexicon& L, const impl::Translation_unit& unit, const Exec& ex, const Prog& p, bool locations)
{
   Printed out;
   std::ostringstream os;
   auto item = [&](auto f) {
      Printer pp(L, os); pp.print_locations = locations;
      ++out.items;
      try { f(pp); }
      catch (const std::logic_error& e) { ++out.refused; os << "\n@@refused(logic_error: " << e.what() << ")"; }
      catch (const std::exception& e) { ++out.refused; os << "\n@@other-exception(" << typeid(e).name() << ")"; }
      os << "\n@@--\n";
   };
   for (auto& d : unit.global_namespace().scope().elements()) item([&](Printer& pp) { pp << xpr_decl(d, true); });
   for (int t : p.top) item([&](Printer& pp) { pp << xpr_stmt(*ex.vals[std::size_t(t)].e); });
   item([&](Printer& pp) { pp << unit; });
   out.text = os.str();
   return out;
}

// identity snapshot of what the program built (addresses + what is observable without asking the printer)
std::vector<std::uintptr_t> snapshot(const Exec& ex)
{
   std::vector<std::uintptr_t> s;
   for (auto& v : ex.vals) {
      s.push_back(std::uintptr_t(v.e)); s.push_back(std::uintptr_t(v.n)); s.push_back(std::uintptr_t(v.t));
      if (v.e) {
         s.push_back(std::uintptr_t(v.e->category));
         try { s.push_back(std::uintptr_t(&v.e->type())); } catch (const std::logic_error&) { s.push_back(1); }
         if (auto b = util::view<Block>(*v.e)) { s.push_back(b->body().size()); s.push_back(b->handlers().size()); for (auto& x : b->body()) s.push_back(std::uintptr_t(&x)); }
         if (auto st = util::view<Expr_stmt>(*v.e)) s.push_back(std::uintptr_t(&st->expr()));
         if (auto d = dynamic_cast<const Decl*>(v.e)) {
            try { s.push_back(std::uintptr_t(&d->name())); } catch (const std::logic_error&) { s.push_back(2); }
            try { s.push_back(std::uintptr_t(d->specifiers())); } catch (const std::logic_error&) { s.push_back(3); }
            try { auto i = d->initializer(); s.push_back(i.is_valid() ? std::uintptr_t(&i.get()) : 0); } catch (const std::logic_error&) { s.push_back(4); }
         }
         if (auto sm = dynamic_cast<const Stmt*>(v.e)) { auto& l = sm->source_location(); s.push_back(std::uintptr_t(l.file)); s.push_back(std::uintptr_t(l.line)); s.push_back(std::uintptr_t(l.column)); }
      }
      if (v.region) { s.push_back(v.region->bindings().size()); for (auto& d : v.region->bindings().elements()) s.push_back(std::uintptr_t(&d)); }
   }
   return s;
}

std::string loc_token(const Step& st)
{
   std::string t = "F" + std::to_string(st.num) + ":" + std::to_string(st.num2);
   if (st.num3 != 0) t += ":" + std::to_string(st.num3);
   return t + " ";
}

// statements/declarations that the printer certainly reaches, derived from the program text (not from the graph)
std::set<int> certainly_printed(const Prog& p)
{
   const int n = int(p.steps.size());
   std::vector<std::vector<int>> kids(std::size_t(n) + 0);
   std::vector<int> global_decls;
   std::map<int, std::vector<int>> members;   // udt / block / handler step -> member or child statement steps
   std::map<int, int> mapping_body;
   for (int i = 0; i < n; ++i) {
      auto& st = p.steps[std::size_t(i)];
      switch (st.op) {
      case S_ADD: case S_HADD: members[st.a].push_back(st.b); break;
      case S_HANDLER: members[st.a].push_back(i); break;
      case M_BODY: mapping_body[st.a] = st.b; break;
      case D_FIELD: case D_BITFIELD: if (st.a >= 0) members[st.a].push_back(i); break;
      case D_VAR: case D_ALIAS: case D_TYPEDECL: case D_FUNDECL: case D_TEMPLATE:
         if (st.a < 0) global_decls.push_back(i);
         else if (p.steps[std::size_t(st.a)].op == T_CLASS || p.steps[std::size_t(st.a)].op == T_UNION || p.steps[std::size_t(st.a)].op == T_NAMESPACE) members[st.a].push_back(i);
         break;
      default: break;
      }
   }
   std::set<int> seen;
   std::vector<int> work(global_decls);
   for (int t : p.top) work.push_back(t);
   while (!work.empty()) {
      int i = work.back(); work.pop_back();
      if (i < 0 || !seen.insert(i).second) continue;
      auto& st = p.steps[std::size_t(i)];
      switch (st.op) {
      case S_BLOCK: case S_HANDLER: for (int k : members[i]) work.push_back(k); break;
      case S_IF: work.push_back(st.b); break;
      case S_IF_ELSE: work.push_back(st.b); work.push_back(st.c); break;
      case S_WHILE: case S_DO: case S_SWITCH: case S_LABELED: work.push_back(st.b); break;
      case S_FOR: work.push_back(st.d); break;
      case S_FOR_IN: work.push_back(st.a); work.push_back(st.c); break;
      case D_FUNDECL: if (mapping_body.count(st.d)) { int b = mapping_body[st.d]; if (p.steps[std::size_t(b)].op == S_BLOCK) work.push_back(b); } break;
      case D_TYPEDECL: if (st.d >= 0) for (int k : members[st.d]) work.push_back(k); break;
      default: break;
      }
   }
   return seen;
}

struct Noise {
   Rng rng;
   std::vector<void*> held;
   explicit Noise(std::uint64_t s) : rng(s) { }
   void step() { if (rng.chance(60)) held.push_back(std::malloc(1 + rng.below(700))); if (!held.empty() && rng.chance(40)) { std::size_t k = rng.below(held.size()); std::free(held[k]); held[k] = held.back(); held.pop_back(); } }
   ~Noise() { for (auto p : held) std::free(p); }
};

void one_program(Ctx& C, std::uint64_t seed, int idx)
{
   Rng rng(seed);
   GenOptions o;
   o.size = 3 + int(rng.below(idx % 10 == 0 ? 60 : 14)); o.max_depth = 2 + int(rng.below(5)); o.locations = true; o.unsupported = rng.chance(25); o.control_bytes = rng.chance(25);
   o.unnamed_udts = rng.chance(20); o.noise = rng.chance(50);
   Prog P = generate_program(rng, o);
   const std::string pd = J().n("program_seed", (long long)seed).n("steps", (long long)P.steps.size()).s("program", P.describe(30)).str();
   auto V = [&](const std::string& key, const std::string& msg) { C.viol(key, msg, pd); };
   C.count("programs"); C.count("program_steps", (long long)P.steps.size());
   std::set<int> ops; for (auto& st : P.steps) { ops.insert(st.op); C.count(std::string("op:") + op_name(st.op)); }
   C.eval(hash_mix(seed, P.steps.size()));

   // --- A: straightforward
   impl::Lexicon lexA; impl::Translation_unit unitA { lexA };
   Exec A(lexA, unitA); A.run(P);
   auto snap0 = snapshot(A);
   Printed a_on = print_all(lexA, unitA, A, P, true);
   Printed a_off = print_all(lexA, unitA, A, P, false);
   Printed a_on2 = print_all(lexA, unitA, A, P, true);
   if (snapshot(A) != snap0) V("graph-changed-by-printing", "an identity snapshot of the graph differs after printing");
   if (a_on2.text != a_on.text) V("reprint-differs", "printing the same unit again with a fresh printer gives other bytes");
   // prints that end in a refusal, of increasing depth, by fresh printers on this thread; then the unit once more: whatever a
   // failed print leaves behind (in the process, the thread, the Lexicon) must not show in the text of a later print
   if (idx % 4 == 1) {
      const Lexicon& LA = lexA;
      const Expr* deep = lexA.make_alignof(*lexA.make_literal(LA.int_type(), u8"1"));           // no printer level handles alignof
      int failed = 0;
      for (int k = 0; k < 400; ++k) {
         if (k % 8 == 0) deep = lexA.make_unary_minus(*deep);
         std::ostringstream os; Printer pp(LA, os);
         try { pp << xpr_expr(*deep); } catch (const std::logic_error&) { ++failed; }
      }
      C.count("failed_prints_before_a_reprint", failed);
      Printed again = print_all(lexA, unitA, A, P, true);
      if (again.text != a_on.text) V("reprint-differs-after-failed-prints", "after " + std::to_string(failed) + " prints of other expressions had ended in a refusal, printing the unit again gives other bytes");
   }
   C.count("items_printed", a_on.items); C.count("items_refused", a_on.refused);
   C.count("bytes_printed", (long long)a_on.text.size());

   // --- B: other history
   {
      const int earlier = int(rng.below(4));
      for (int k = 0; k < earlier; ++k) { impl::Lexicon tmp; impl::Translation_unit u { tmp }; tmp.get_identifier(u8"earlier"); tmp.get_pointer(static_cast<const Lexicon&>(tmp).int_type()); }
      Noise noise(rng.next());
      for (int k = 0; k < 50; ++k) noise.step();
      impl::Lexicon lexB; impl::Translation_unit unitB { lexB };
      // strings and identifiers pre-created in reverse program order: address order of unified nodes differs from A
      for (auto it = P.steps.rbegin(); it != P.steps.rend(); ++it)
         if (it->op == N_IDENT || it->op == X_LITERAL || it->op == N_OPERATOR) { lexB.get_string(widen(it->str)); if (it->op == N_IDENT && rng.chance(70)) lexB.get_identifier(widen(it->str)); noise.step(); }
      const Lexicon& LB = lexB;
      for (auto t : { &LB.double_type(), &LB.int_type(), &LB.char_type() }) { lexB.get_pointer(*t); lexB.get_reference(*t); }
      Exec B(lexB, unitB);
      B.between = [&](int) { noise.step(); if (noise.rng.chance(10)) { lexB.make_phantom(); lexB.get_string(widen("unrelated" + std::to_string(noise.rng.below(50)))); } };
      Rng order(rng.next());
      B.run_shuffled(P, order);
      Printed b_on = print_all(lexB, unitB, B, P, true);
      Printed b_off = print_all(lexB, unitB, B, P, false);
      C.count("construction_pairs");
      if (b_on.text != a_on.text || b_off.text != a_off.text) {
         std::size_t k = 0; const std::string& x = a_on.text != b_on.text ? a_on.text : a_off.text; const std::string& y = a_on.text != b_on.text ? b_on.text : b_off.text;
         while (k < x.size() && k < y.size() && x[k] == y[k]) ++k;
         V("isomorphic-graphs-print-differently", "two constructions of the same program print differently; first difference at byte " + std::to_string(k) + ": ..." + x.substr(k > 30 ? k - 30 : 0, 70) + "... vs ..." + y.substr(k > 30 ? k - 30 : 0, 70) + "...");
      }
   }

   // --- locations
   {
      // twin without any location
      impl::Lexicon lexT; impl::Translation_unit unitT { lexT };
      Prog twin = P;
      for (auto& st : twin.steps) if (st.op == L_LOCATE) { st.num = 0; st.num2 = 0; st.num3 = 0; }     // file 0 == no location
      Exec T(lexT, unitT); T.run(twin);
      Printed t_on = print_all(lexT, unitT, T, twin, true);
      Printed t_off = print_all(lexT, unitT, T, twin, false);
      if (t_on.text != t_off.text) V("location:printed-for-node-without-location", "a graph without any source location prints differently with location printing enabled");
      if (t_off.text != a_off.text) V("location:printed-although-disabled", "with location printing disabled the located graph prints differently from its location-free twin");
      // tokens in a_on: all must be renderings of located steps; removing them must give a_off
      std::map<std::string, int> expected;      // token -> located step (the last location given to a node is the one it carries)
      std::map<std::string, std::vector<int>> carriers;   // token -> every node that carries that location (statements of one source line share it)
      {  std::map<int, int> last;
         for (int i = 0; i < int(P.steps.size()); ++i) if (P.steps[std::size_t(i)].op == L_LOCATE) last[P.steps[std::size_t(i)].a] = i;
         for (auto& [node, step] : last) { expected[loc_token(P.steps[std::size_t(step)])] = node; carriers[loc_token(P.steps[std::size_t(step)])].push_back(node); } }
      std::map<std::string, int> times_seen;
      static const std::regex tok("F[0-9]+:[0-9]+(:[0-9]+)? ");
      std::string stripped; std::set<std::string> seen_tokens;
      {
         auto begin = std::sregex_iterator(a_on.text.begin(), a_on.text.end(), tok);
         std::size_t pos = 0;
         for (auto it = begin; it != std::sregex_iterator(); ++it) {
            std::string t = it->str();
            C.count("location_tokens_seen");
            if (!expected.count(t)) {
               // could be part of a spelling (identifiers are lower case, literals are digits or control bytes): not expected to happen
               V("location:unexpected-token", "the output contains a location token that no located node accounts for (or a number not rendered in decimal): '" + t + "'");
               continue;
            }
            seen_tokens.insert(t); ++times_seen[t];
            stripped.append(a_on.text, pos, std::size_t(it->position()) - pos);
            pos = std::size_t(it->position()) + t.size();
         }
         stripped.append(a_on.text, pos, std::string::npos);
      }
      if (stripped != a_off.text) V("location:enabled-text-differs-beyond-tokens", "removing the location tokens from the text printed with locations does not give the text printed without");
      // twin whose located nodes all carry different locations: whether a node shows its location does not depend on what
      // the location is, nor on what its neighbours carry -- both texts hold the same number of location tokens
      {
         impl::Lexicon lexU; impl::Translation_unit unitU { lexU };
         Prog uniq = P;
         for (std::size_t i = 0; i < uniq.steps.size(); ++i) if (uniq.steps[i].op == L_LOCATE) uniq.steps[i].num2 = 100000 + (long long)i;
         Exec U(lexU, unitU); U.run(uniq);
         Printed u_on = print_all(lexU, unitU, U, uniq, true);
         const long long n_a = std::distance(std::sregex_iterator(a_on.text.begin(), a_on.text.end(), tok), std::sregex_iterator());
         const long long n_u = std::distance(std::sregex_iterator(u_on.text.begin(), u_on.text.end(), tok), std::sregex_iterator());
         C.count("location_token_counts_compared_with_the_distinct_locations_twin");
         if (n_a != n_u) V("location:count-depends-on-location-values", "the graph whose nodes share some locations shows " + std::to_string(n_a) + " location tokens, its twin with pairwise different locations " + std::to_string(n_u));
      }
      if (a_on.refused == 0) {
         auto reach = certainly_printed(P);
         for (auto& [t, step] : expected) {
            if (!reach.count(step)) continue;
            C.count("located_nodes_expected_in_output");
            if (!seen_tokens.count(t)) V(std::string("location:missing-when-enabled:") + op_name(P.steps[std::size_t(step)].op), "a located " + std::string(op_name(P.steps[std::size_t(step)].op)) + " that is printed shows no location although location printing is enabled (token " + t + ")");
         }
         // nodes that share a location each show it: the token appears at least once per carrier that is certainly printed
         for (auto& [t, nodes] : carriers) {
            int printed = 0; for (auto n : nodes) if (reach.count(n)) ++printed;
            if (printed >= 2) { C.count("locations_shared_by_several_printed_nodes");
               if (times_seen[t] < printed) V("location:missing-when-enabled:shared-location", std::to_string(printed) + " printed nodes carry the location " + t + "but it appears only " + std::to_string(times_seen[t]) + " time(s) although location printing is enabled"); }
         }
      }
   }
   if (idx < 2) C.sample(J().s("kind", "construction-program").n("steps", (long long)P.steps.size()).s("program", P.describe(24)).s("printed_head", a_on.text.substr(0, 240)).str(), 2);
}
} // namespace

static void body(Ctx& C)
{
   C.rule("a case = one generated construction program of the printable fragment (declarations, user-defined types, functions with mappings and bodies, templates, "
          "all statement kinds, classic expressions, type constructors; optionally constructs the printer refuses, control bytes, unnamed types) built in two "
          "Lexicons with different step order, pre-created strings in reverse order, heap noise, unrelated nodes and a different number of earlier Lexicons; every "
          "global declaration, every free-standing statement and the unit are printed with and without locations; distinct = distinct program seeds");
   C.assume("the location accounting derives which located nodes are certainly printed from the program text (block bodies, branches, function bodies, members of named types)");
   for (auto k : { "construction_pairs", "failed_prints_before_a_reprint", "items_printed", "location_tokens_seen", "located_nodes_expected_in_output", "items_refused",
                   "op:block", "op:handler", "op:if-else", "op:for", "op:for-in", "op:switch", "op:labeled", "op:fundecl", "op:template", "op:class", "op:enum", "op:namespace", "op:union",
                   "op:bitfield", "op:alias", "op:binary", "op:unary", "op:cast", "op:construction", "op:qualified", "op:function", "op:ptr-to-member" }) C.need(k);
   Rng seeds(C.seed);
   const int n = C.thorough ? 2500 : 40;
   // on a thread with a large stack: deep but finite nests must not be mistaken for unbounded recursion (that is C18's subject)
   BigStack::run([&] { for (int i = 0; i < n; ++i) one_program(C, seeds.next(), i); });
}

int main(int argc, char** argv) { return guarded_main(argc, argv, body); }
