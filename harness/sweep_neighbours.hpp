// Sweep: bursts of consecutive requests to each unifying factory whose arguments differ in one place only (same first
// operand / other second; qualifier supersets then subsets; sequences that are prefixes of one another; same name / other
// type ...).  Each answer gets its own shadow.  A factory that answers from what it did a moment ago (a "most recent
// result", a comparator that looks at one operand only, an inclusion test where equality is meant) reports operands it was
// not built from on one of these.
#ifndef VERIF_SWEEP_NEIGHBOURS_HPP
#define VERIF_SWEEP_NEIGHBOURS_HPP
#include "sweep_core.hpp"
#include "hashtwins.hpp"
#include <algorithm>

namespace vh {
inline void Sweep::unified_neighbours()
{
   const Lexicon& L = lex;
   std::vector<const Type*> plain;                      // unqualified operand types
   for (auto t : P.types) if (t->category != Category_code::Qualified) plain.push_back(t);
   auto shuffled = [&](auto v) { for (std::size_t i = v.size(); i > 1; --i) std::swap(v[i - 1], v[rng.below(i)]); return v; };
   // qualified: all seven masks on two types, once interleaved at random and once from the largest set down to the smallest
   {
      auto ts = P.distinct(plain, 2);
      std::vector<std::pair<int, const Type*>> reqs;
      for (auto t : ts) for (int q = 1; q <= 7; ++q) reqs.emplace_back(q, t);
      reqs = shuffled(reqs);
      for (int q = 7; q >= 1; --q) reqs.emplace_back(q, ts[0]);
      for (int q : { 3, 1, 3, 2, 6, 4, 6, 2, 5, 1, 5, 4, 7, 3, 7, 5, 7, 6 }) reqs.emplace_back(q, ts[1]);
      for (auto [q, t] : reqs) {
         auto* n = &lex.get_qualified(Qualifiers(std::uintptr_t(q)), *t);
         add_node("get_qualified(burst)", n, Category_code::Qualified, [n, q = q, tp = t](Ck& c) { c.eq("qualifiers", (long long)n->qualifiers(), (long long)q); c.same("main_variant", &n->main_variant(), tp); }, false);
      }
   }
   // unary constructors over neighbouring operands
   {
      auto ts = P.distinct(plain, 3);
      for (int round = 0; round < 2; ++round)
         for (auto t : ts) {
            auto* p = &lex.get_pointer(*t); add_node("get_pointer(burst)", p, Category_code::Pointer, [p, t](Ck& c) { c.same("points_to", &p->points_to(), t); }, false);
            auto* r = &lex.get_reference(*t); add_node("get_reference(burst)", r, Category_code::Reference, [r, t](Ck& c) { c.same("refers_to", &r->refers_to(), t); }, false);
            auto* rr = &lex.get_rvalue_reference(*t); add_node("get_rvalue_reference(burst)", rr, Category_code::Rvalue_reference, [rr, t](Ck& c) { c.same("refers_to", &rr->refers_to(), t); }, false);
            auto* cv = &lex.get_conversion(*t); add_node("get_conversion(burst)", cv, Category_code::Conversion, [cv, t](Ck& c) { c.same("target", &cv->target(), t); }, false);
            auto* ct = &lex.get_ctor_name(*t); add_node("get_ctor_name(burst)", ct, Category_code::Ctor_name, [ct, t](Ck& c) { c.same("object_type", &ct->object_type(), t); }, false);
            auto* dt = &lex.get_dtor_name(*t); add_node("get_dtor_name(burst)", dt, Category_code::Dtor_name, [dt, t](Ck& c) { c.same("object_type", &dt->object_type(), t); }, false);
         }
   }
   // binary constructors: (a,b) (a,c) (b,a) (a,a) (c,b)
   {
      auto ts = P.distinct(plain, 3); auto xs = P.distinct(P.exprs, 3);
      const int pairs[][2] = { { 0, 1 }, { 0, 2 }, { 1, 0 }, { 0, 0 }, { 2, 1 }, { 0, 1 } };
      for (auto& pr : pairs) {
         const Type* a = ts[std::size_t(pr[0])]; const Type* b = ts[std::size_t(pr[1])]; const Expr* x = xs[std::size_t(pr[1])];
         auto* pm = &lex.get_ptr_to_member(*a, *b); add_node("get_ptr_to_member(burst)", pm, Category_code::Ptr_to_member, [pm, a, b](Ck& c) { c.same("containing_type", &pm->containing_type(), a); c.same("member_type", &pm->member_type(), b); }, false);
         auto* ar = &lex.get_array(*a, *x); add_node("get_array(burst)", ar, Category_code::Array, [ar, a, x](Ck& c) { c.same("element_type", &ar->element_type(), a); c.same("bound", &ar->bound(), x); }, false);
         auto* lt = &lex.get_literal(*a, P.strings[std::size_t(pr[1])]->characters()); add_node("get_literal(burst)", lt, Category_code::Literal, [lt, a, s = P.strings[std::size_t(pr[1])]](Ck& c) { c.same("type", &lt->type(), a, A_TYPE | A_OPERAND); c.same("string", &lt->string(), s); }, false);
         auto* sy = &lex.get_symbol(*P.names[std::size_t(pr[0])], *b); add_node("get_symbol(burst)", sy, Category_code::Symbol, [sy, nm = P.names[std::size_t(pr[0])], b](Ck& c) { c.same("name", &sy->name(), nm); c.same("type", &sy->type(), b, A_TYPE | A_OPERAND); }, false);
      }
   }
   // sequences that are prefixes / permutations of one another, and what is built on them
   {
      auto ts = P.distinct(plain, 3);
      const std::vector<std::vector<int>> shapes = { { 0 }, { 0, 1 }, { 0, 1, 2 }, { 0, 1 }, { 1, 0 }, { }, { 0, 0 }, { 0 }, { 0, 1, 2 } };
      std::vector<const Product*> prods;
      for (auto& sh : shapes) {
         impl::Warehouse<Type> w; std::vector<const Type*> want; for (int k : sh) { w.push_back(*ts[std::size_t(k)]); want.push_back(ts[std::size_t(k)]); }
         auto* p = &lex.get_product(w); prods.push_back(p);
         add_node("get_product(burst)", p, Category_code::Product, [p, want](Ck& c) { c.eq("size", (long long)p->size(), (long long)want.size()); for (std::size_t i = 0; i < want.size() && i < p->size(); ++i) c.same("operator[]", &(*p)[i], want[i]); }, false);
         auto* s = &lex.get_sum(w);
         add_node("get_sum(burst)", s, Category_code::Sum, [s, want](Ck& c) { c.eq("size", (long long)s->size(), (long long)want.size()); for (std::size_t i = 0; i < want.size() && i < s->size(); ++i) c.same("operator[]", &(*s)[i], want[i]); }, false);
      }
      auto& xc = lex.get_transfer(lex.get_linkage(u8"C"), lex.get_calling_convention(u8"cdecl"));
      auto& xj = lex.get_transfer(lex.get_linkage(u8"Java"), lex.get_calling_convention(u8""));
      auto xs = P.distinct(P.exprs, 2);
      for (int k = 0; k < 6; ++k) {
         const Product* src = prods[std::size_t(k % 3)]; const Type* tgt = ts[std::size_t((k / 3) % 3)];
         auto* f0 = &lex.get_function(*src, *tgt); add_node("get_function(burst s,t)", f0, Category_code::Function, [f0, src, tgt, fv = &L.false_value()](Ck& c) { c.same("source", &f0->source(), src); c.same("target", &f0->target(), tgt); c.same("throws", &f0->throws(), static_cast<const Expr*>(fv)); c.yes("transfer", f0->transfer() == impl::cxx_transfer(), "natural transfer expected"); }, false);
         auto* f1 = &lex.get_function(*src, *tgt, *xs[std::size_t(k % 2)]); add_node("get_function(burst s,t,e)", f1, Category_code::Function, [f1, src, tgt, e = xs[std::size_t(k % 2)]](Ck& c) { c.same("source", &f1->source(), src); c.same("target", &f1->target(), tgt); c.same("throws", &f1->throws(), e); }, false);
         const Transfer* xf = k % 2 ? &xc : &xj;
         auto* f2 = &lex.get_function(*src, *tgt, *xf); add_node("get_function(burst s,t,xfer)", f2, Category_code::Function, [f2, src, tgt, xf, fv = &L.false_value()](Ck& c) { c.same("source", &f2->source(), src); c.same("target", &f2->target(), tgt); c.same("throws", &f2->throws(), static_cast<const Expr*>(fv)); c.yes("transfer", f2->transfer() == *xf, "function type does not report its transfer"); }, false);
         auto* fa = &lex.get_forall(*src, *tgt); add_node("get_forall(burst)", fa, Category_code::Forall, [fa, src, tgt](Ck& c) { c.same("source", &fa->source(), src); c.same("target", &fa->target(), tgt); }, false);
         auto* at = &lex.get_as_type(*xs[std::size_t(k % 2)], *xf); add_node("get_as_type(burst e,xfer)", at, Category_code::As_type, [at, e = xs[std::size_t(k % 2)], xf](Ck& c) { c.same("expr", &at->expr(), e); c.yes("transfer", at->transfer() == *xf, "as-type does not report its transfer"); }, false);
         auto* a0 = &lex.get_as_type(*xs[std::size_t(k % 2)]); add_node("get_as_type(burst e)", a0, Category_code::As_type, [a0, e = xs[std::size_t(k % 2)]](Ck& c) { c.same("expr", &a0->expr(), e); c.yes("transfer", a0->transfer() == impl::cxx_transfer(), "natural transfer expected"); }, false);
      }
   }
   // every route to a transfer, for the standard and a foreign linkage with the natural and a named convention, and the types
   // built with it (a transfer obtained for one Lexicon must belong to that Lexicon or to the process-wide constants)
   {
      auto xs = P.distinct(P.exprs, 1); auto ts = P.distinct(plain, 1);
      impl::Warehouse<Type> w; w.push_back(*ts[0]); auto& src = lex.get_product(w);
      for (auto l : { "C", "C++", "Java" }) for (auto k : { "", "cdecl" }) {
         auto& lk = lex.get_linkage(widen(l)); auto& cc = lex.get_calling_convention(widen(k));
         const Transfer* routes[] = { &lex.get_transfer(lk, cc), *k ? nullptr : &lex.get_transfer_from_linkage(lk), std::string(l) == "C++" ? &lex.get_transfer_from_convention(cc) : nullptr };
         for (auto xf : routes) {
            if (!xf) continue;
            add_other("get_transfer(route)", xf, [xf, l = std::string(l), k = std::string(k)](Ck& c) {
               c.yes("linkage", narrow(xf->linkage().language().what().characters()) == l, "a transfer does not report the linkage it was asked for");
               c.yes("convention", narrow(xf->convention().name().what().characters()) == k, "a transfer does not report the convention it was asked for"); });
            auto* f = &lex.get_function(src, *ts[0], *xf);
            add_node("get_function(route s,t,xfer)", f, Category_code::Function, [f, xf, sp = &src, t = ts[0]](Ck& c) { c.same("source", &f->source(), sp); c.same("target", &f->target(), t); c.yes("transfer", f->transfer() == *xf, "function type does not report its transfer"); c.yes("linkage", f->linkage() == xf->linkage(), "linkage() != transfer().linkage()"); }, false);
            auto* a = &lex.get_as_type(*xs[0], *xf);
            add_node("get_as_type(route e,xfer)", a, Category_code::As_type, [a, xf, e = xs[0]](Ck& c) { c.same("expr", &a->expr(), e); c.yes("transfer", a->transfer() == *xf, "as-type does not report its transfer"); }, false);
         }
      }
   }
   // declarations entered under ONE name with types that differ in one place only (exception specification, transfer,
   // qualifiers, one parameter): each declaration reports exactly the type it was declared with
   {
      auto ts = P.distinct(plain, 2); auto xs = P.distinct(P.exprs, 1);
      impl::Warehouse<Type> w1, w2; w1.push_back(*ts[0]); w2.push_back(*ts[0]); w2.push_back(*ts[1]);
      auto& p1 = lex.get_product(w1); auto& p2 = lex.get_product(w2);
      auto& xc = lex.get_transfer(lex.get_linkage(u8"C"), lex.get_calling_convention(u8""));
      const Function* fts[] = { &lex.get_function(p1, *ts[1]), &lex.get_function(p1, *ts[1], L.true_value()), &lex.get_function(p1, *ts[1], *xs[0]), &lex.get_function(p1, *ts[1], xc),
                                &lex.get_function(p2, *ts[1]), &lex.get_function(p1, *ts[0]), &lex.get_function(p1, *ts[1]) };
      auto* holder = lex.make_namespace(*unit.global_region());
      auto& fname = lex.get_identifier(u8"overloaded_f");
      int k = 0;
      for (auto ft : fts) { auto* d = holder->body.scope.make_fundecl(fname, *ft); add_node("Scope::make_fundecl(burst " + std::to_string(k++) + ")", d, Category_code::Fundecl, [d, ft, np = &fname](Ck& c) { c.same("name", &d->name(), static_cast<const Name*>(np)); c.type_is(*d, *ft, "given"); }); }
      auto& vname = lex.get_identifier(u8"overloaded_v");
      const Type* vts[] = { ts[0], &lex.get_qualified(Qualifiers(1), *ts[0]), &lex.get_qualified(Qualifiers(3), *ts[0]), &lex.get_pointer(*ts[0]), &lex.get_reference(*ts[0]), ts[0] };
      k = 0;
      for (auto vt : vts) { auto* d = holder->body.scope.make_var(vname, *vt); add_node("Scope::make_var(burst " + std::to_string(k++) + ")", d, Category_code::Var, [d, vt, np = &vname](Ck& c) { c.same("name", &d->name(), static_cast<const Name*>(np)); c.type_is(*d, *vt, "given"); }); }
   }
   // different spellings of equal length and equal hash code (constructed; verified with std::hash), through every constructor
   // that takes a spelling: each node reports the spelling it was built from, not its hash twin's
   {
      auto twins = hash_twins(rng.next(), 3);
      if (twins.empty()) twins_unavailable = true;
      for (auto& [a, b] : twins) for (auto* w : { &a, &b, &a }) {
         auto u8 = widen(*w);
         auto& s = lex.get_string(u8); add_node("get_string(hash twin)", &s, Category_code::String, [sp = &s, w = *w](Ck& c) { c.yes("characters", narrow(sp->characters()) == w, "a String does not have the characters it was interned with (it has those of a word with the same hash code)"); }, false);
         auto* id = &lex.get_identifier(u8); add_node("get_identifier(hash twin)", id, Category_code::Identifier, [id, w = *w](Ck& c) { c.yes("string", narrow(id->string().characters()) == w, "an Identifier is spelled like its hash twin"); }, false);
         auto* op = &lex.get_operator(u8); add_node("get_operator(hash twin)", op, Category_code::Operator, [op, w = *w](Ck& c) { c.yes("opname", narrow(op->opname().characters()) == w, "an Operator is spelled like its hash twin"); }, false);
         auto* lt = lex.make_literal(L.int_type(), u8); add_node("make_literal(hash twin)", lt, Category_code::Literal, [lt, w = *w](Ck& c) { c.yes("string", narrow(lt->string().characters()) == w, "a Literal is spelled like its hash twin"); }, false);
         auto& lk = lex.get_linkage(u8); add_other("get_linkage(hash twin)", &lk, [l = &lk, w = *w](Ck& c) { c.yes("language.what", narrow(l->language().what().characters()) == w, "a Linkage is spelled like its hash twin"); });
         auto* ie = lex.make_id_expr(*id); (void)ie;
      }
   }
   // an id-expression naming a declaration whose declared type is the `auto` placeholder, made before and after the declaration
   // got its initializer: its type is the declaration's type either way
   {
      auto& au = lex.get_auto();
      auto* v = unit.global_scope()->make_var(lex.get_identifier(u8"deduced_v"), au);
      auto* e0 = lex.make_id_expr(*v); v->init = &P.X(); auto* e1 = lex.make_id_expr(*v);
      for (auto e : { e0, e1 }) add_node(e == e0 ? "make_id_expr(decl typed auto)" : "make_id_expr(decl typed auto, initializer attached)", e, Category_code::Id_expr, [e, v, tp = static_cast<const Type*>(&au)](Ck& c) { c.type_is(*e, *tp, "id-expression of a declaration: that declaration's type"); c.opt("resolution", e->resolution(), static_cast<const Expr*>(v)); });
      auto* m = lex.make_mapping(*unit.global_region(), Mapping_level { 1 });
      auto* p = m->param(lex.get_identifier(u8"deduced_p"), au); p->init = &P.X(); auto* e2 = lex.make_id_expr(*p);
      add_node("make_id_expr(parameter typed auto, default attached)", e2, Category_code::Id_expr, [e2, tp = static_cast<const Type*>(&au)](Ck& c) { c.type_is(*e2, *tp, "id-expression of a declaration: that declaration's type"); });
   }
   // a template declared twice, each declaration with its own mapping, the first one recorded as the definition: every
   // declaration keeps reporting its own mapping, parameters and result
   {
      impl::Warehouse<Type> w; w.push_back(L.typename_type());
      auto& fa = lex.get_forall(lex.get_product(w), L.class_type());
      auto* holder = lex.make_namespace(*unit.global_region());
      auto& nm = lex.get_identifier(u8"twice_declared_template");
      impl::Template* ts[2]; impl::Mapping* ms[2];
      for (int i = 0; i < 2; ++i) {
         ts[i] = holder->body.scope.make_primary_template(nm, fa);
         ms[i] = lex.make_mapping(holder->body, Mapping_level { 1 }); ms[i]->param(*P.idents[std::size_t(i)], L.typename_type()); ms[i]->body = P.exprs[std::size_t(i)];
         ts[i]->init = ms[i];
      }
      ts[0]->decl_data.master_data->def = ts[0];
      for (int i = 0; i < 2; ++i)
         add_node(i ? "make_primary_template(redeclaration, definition elsewhere)" : "make_primary_template(first declaration, recorded as definition)", ts[i], Category_code::Template, [t = ts[i], m = ms[i], d = ts[0]](Ck& c) {
            c.same("mapping", &t->mapping(), static_cast<const Mapping*>(m)); c.same("parameters", &t->parameters(), &m->parameters()); c.same("result", &t->result(), &m->result());
            c.opt("initializer", t->initializer(), &m->result()); c.opt("definition", t->definition(), static_cast<const Template*>(d)); });      // a template's initializer is its mapping's result (as implemented and documented)
   }
   // one spelling, types that differ only in top-level qualification (and an unrelated one): each literal / symbol / id-expression
   // reports exactly the type it was asked with
   {
      auto ts = P.distinct(plain, 2);
      const Type* variants[] = { ts[0], &lex.get_qualified(Qualifiers(1), *ts[0]), &lex.get_qualified(Qualifiers(2), *ts[0]), &lex.get_qualified(Qualifiers(3), *ts[0]), ts[1], &lex.get_qualified(Qualifiers(1), *ts[1]), ts[0] };
      auto& sp = lex.get_string(u8"42"); auto& nm = lex.get_identifier(u8"cv_twin");
      int k = 0;
      for (auto t : variants) {
         auto* lt = &lex.get_literal(*t, sp); add_node("get_literal(cv burst " + std::to_string(k) + ")", lt, Category_code::Literal, [lt, t, s = &sp](Ck& c) { c.type_is(*lt, *t, "given"); c.same("string", &lt->string(), s); }, false);
         auto* ml = lex.make_literal(*t, u8"43"); add_node("make_literal(cv burst " + std::to_string(k) + ")", ml, Category_code::Literal, [ml, t](Ck& c) { c.type_is(*ml, *t, "given"); }, false);
         auto* sy = &lex.get_symbol(nm, *t); add_node("get_symbol(cv burst " + std::to_string(k) + ")", sy, Category_code::Symbol, [sy, t, np = &nm](Ck& c) { c.type_is(*sy, *t, "given"); c.same("name", &sy->name(), static_cast<const Name*>(np)); }, false);
         auto* th = &lex.get_this(*t); add_node("get_this(cv burst " + std::to_string(k) + ")", th, Category_code::Symbol, [th, t](Ck& c) { c.type_is(*th, *t, "given"); }, false);
         ++k;
      }
   }
   // a constructor applied to its own result: the result of the outer request has the INNER RESULT as its operand (only
   // qualification is documented to merge); and function declarations whose types differ only in the transfer, entered in both orders
   {
      auto xs = P.distinct(P.exprs, 1); auto ts = P.distinct(plain, 2);
      auto& xc = lex.get_transfer(lex.get_linkage(u8"C"), lex.get_calling_convention(u8""));
      auto& xs2 = lex.get_transfer(lex.get_linkage(u8"C++"), lex.get_calling_convention(u8"stdcall"));
      for (auto xf : { &xc, &xs2 }) {
         auto* inner = &lex.get_as_type(*xs[0], *xf);
         auto* same = &lex.get_as_type(*inner, *xf);
         auto* other = &lex.get_as_type(*inner, xf == &xc ? xs2 : xc);
         auto* plain_outer = &lex.get_as_type(*inner);
         add_node("get_as_type(as-type with the same transfer, xfer)", same, Category_code::As_type, [same, inner, xf](Ck& c) { c.same("expr", &same->expr(), static_cast<const Expr*>(inner)); c.yes("transfer", same->transfer() == *xf, "as-type does not report its transfer"); c.yes("identity", static_cast<const Node*>(same) != static_cast<const Node*>(inner), "an as-type over an as-type is the inner node itself", A_IDENTITY); }, false);
         add_node("get_as_type(as-type with another transfer, xfer)", other, Category_code::As_type, [other, inner](Ck& c) { c.same("expr", &other->expr(), static_cast<const Expr*>(inner)); }, false);
         add_node("get_as_type(as-type with a transfer)", plain_outer, Category_code::As_type, [plain_outer, inner](Ck& c) { c.same("expr", &plain_outer->expr(), static_cast<const Expr*>(inner)); }, false);
      }
      {  auto* p1 = &lex.get_pointer(*ts[0]); auto* p2 = &lex.get_pointer(*p1); auto* r1 = &lex.get_reference(*p2); auto* d1 = &lex.get_decltype(*p2);
         add_node("get_pointer(pointer)", p2, Category_code::Pointer, [p2, p1](Ck& c) { c.same("points_to", &p2->points_to(), static_cast<const Type*>(p1)); }, false);
         add_node("get_reference(pointer to pointer)", r1, Category_code::Reference, [r1, p2](Ck& c) { c.same("refers_to", &r1->refers_to(), static_cast<const Type*>(p2)); }, false);
         add_node("get_decltype(type)", d1, Category_code::Decltype, [d1, p2](Ck& c) { c.same("expr", &d1->expr(), static_cast<const Expr*>(p2)); }); }
      // function declarations under one name: the one with a foreign linkage first, the plain one after it, and the reverse under another name
      impl::Warehouse<Type> w; w.push_back(*ts[0]); auto& src = lex.get_product(w);
      const Function* with_c = &lex.get_function(src, *ts[1], xc); const Function* plain_f = &lex.get_function(src, *ts[1]); const Function* with_std = &lex.get_function(src, *ts[1], xs2);
      auto* holder = lex.make_namespace(*unit.global_region());
      int k = 0;
      for (auto order : { std::vector<const Function*> { with_c, plain_f, with_std, plain_f }, std::vector<const Function*> { plain_f, with_std, with_c }, std::vector<const Function*> { with_std, with_c, plain_f } }) {
         auto& nm = lex.get_identifier(widen("linkage_overloaded_" + std::to_string(k)));
         for (auto ft : order) { auto* d = holder->body.scope.make_fundecl(nm, *ft); add_node("Scope::make_fundecl(transfer burst " + std::to_string(k) + ")", d, Category_code::Fundecl, [d, ft, np = &nm](Ck& c) { c.same("name", &d->name(), static_cast<const Name*>(np)); c.type_is(*d, *ft, "given"); }); }
         ++k;
      }
   }
   // operand TWINS: two distinct nodes of one kind (two place-holders for an unknown bound, two classes without a name, two
   // literals spelled alike, a declaration and its redeclaration ...) handed in turn to every unifying constructor that takes such
   // an operand: x1, x2, x1 again.  A constructor that tells operands apart by kind, spelling or structure instead of by
   // identity answers the second request with the node built for the first, which then reports an operand it was not built from.
   {
      auto ts = P.distinct(plain, 2);
      impl::Warehouse<Type> w; w.push_back(*ts[0]); auto& src = lex.get_product(w);
      auto& sp7 = lex.get_string(u8"7");
      std::vector<std::tuple<std::string, const Expr*, const Expr*>> xtw;
      xtw.emplace_back("untyped phantoms", lex.make_phantom(), lex.make_phantom());
      xtw.emplace_back("typed phantoms", lex.make_phantom(*ts[0]), lex.make_phantom(*ts[0]));
      xtw.emplace_back("untyped and typed phantom", lex.make_phantom(), lex.make_phantom(*ts[1]));
      xtw.emplace_back("literals spelled alike", &lex.get_literal(L.int_type(), sp7), &lex.get_literal(L.long_type(), sp7));
      xtw.emplace_back("id-expressions of one name", lex.make_id_expr(*P.idents[0], L.int_type()), lex.make_id_expr(*P.idents[0], L.int_type()));
      xtw.emplace_back("symbols of one name", &lex.get_symbol(*P.idents[1], L.int_type()), &lex.get_symbol(*P.idents[1], L.long_type()));
      xtw.emplace_back("truth values", &L.true_value(), &L.false_value());
      xtw.emplace_back("declaration and redeclaration", P.vars[0], P.vars[4]);
      xtw.emplace_back("operations with the same operand", lex.make_address(*P.exprs[0]), lex.make_address(*P.exprs[0]));
      xtw.emplace_back("empty expression lists", lex.make_expr_list(), lex.make_expr_list());
      {  impl::Warehouse<Type> w0, wi, wc; wi.push_back(L.int_type()); wc.push_back(L.char_type());          // types are expressions too
         xtw.emplace_back("the empty sum and the empty product", &lex.get_sum(w0), &lex.get_product(w0));
         xtw.emplace_back("one-element sums", &lex.get_sum(wi), &lex.get_sum(wc));
         xtw.emplace_back("the empty sum and the false constant", &lex.get_sum(w0), &L.false_value());
         xtw.emplace_back("built-in types", &L.int_type(), &L.long_type()); }
      for (auto& [what, x1, x2] : xtw) {
         if (x1 == x2) continue;
         for (const Expr* x : { x1, x2, x1 }) {
            const std::string tag = "(twins: " + what + ")";
            auto* ar = &lex.get_array(*ts[0], *x); add_node("get_array" + tag, ar, Category_code::Array, [ar, a = ts[0], x](Ck& c) { c.same("element_type", &ar->element_type(), a); c.same("bound", &ar->bound(), x); }, false);
            auto* at = &lex.get_as_type(*x); add_node("get_as_type" + tag, at, Category_code::As_type, [at, x](Ck& c) { c.same("expr", &at->expr(), x); }, false);
            auto* fn = &lex.get_function(src, *ts[1], *x); add_node("get_function(s,t,e)" + tag, fn, Category_code::Function, [fn, sp = &src, t = ts[1], x](Ck& c) { c.same("source", &fn->source(), sp); c.same("target", &fn->target(), t); c.same("throws", &fn->throws(), x); }, false);
            {  auto& xj = lex.get_transfer(lex.get_linkage(u8"Java"), lex.get_calling_convention(u8""));
               auto* f4 = &lex.get_function(src, *ts[1], *x, xj); add_node("get_function(s,t,e,xfer)" + tag, f4, Category_code::Function, [f4, sp = &src, t = ts[1], x, xp = &xj](Ck& c) { c.same("source", &f4->source(), sp); c.same("target", &f4->target(), t); c.same("throws", &f4->throws(), x); c.yes("transfer", f4->transfer() == *xp, "function type does not report its transfer"); }, false);
               auto* f4n = &lex.get_function(src, *ts[1], *x, impl::cxx_transfer()); add_node("get_function(s,t,e,natural xfer)" + tag, f4n, Category_code::Function, [f4n, fn, x](Ck& c) { c.same("throws", &f4n->throws(), x); c.yes("identity", f4n == fn, "spelling out the natural transfer gave another node than omitting it", A_IDENTITY); }, false); }
            auto* al = lex.make_expr_list(); al->push_back(P.exprs[1]);
            auto* ti = &lex.get_template_id(*x, *al); add_node("get_template_id" + tag, ti, Category_code::Template_id, [ti, x](Ck& c) { c.same("template_name", &ti->template_name(), x); }, false);
            ++twin_requests;
         }
      }
      std::vector<std::tuple<std::string, const Type*, const Type*>> ttw;
      auto& greg = *unit.global_region();
      ttw.emplace_back("classes without a name", lex.make_class(greg), lex.make_class(greg));
      {  auto* c1 = lex.make_class(*P.regions[1]); auto* c2 = lex.make_class(*P.regions[2]); c1->id = P.idents[2]; c2->id = P.idents[2]; ttw.emplace_back("classes of one name in two regions", c1, c2); }
      ttw.emplace_back("class and union", lex.make_class(greg), lex.make_union(greg));
      ttw.emplace_back("enumerations", lex.make_enum(greg, Enum::Kind::Scoped), lex.make_enum(greg, Enum::Kind::Scoped));
      ttw.emplace_back("namespaces", lex.make_namespace(greg), lex.make_namespace(greg));
      ttw.emplace_back("closures", lex.make_closure(greg), lex.make_closure(greg));
      ttw.emplace_back("auto place-holders", &lex.get_auto(), &lex.get_auto());
      ttw.emplace_back("decltypes of one expression", &lex.get_decltype(*P.exprs[2]), &lex.get_decltype(*P.exprs[2]));
      ttw.emplace_back("arrays of unknown bound", &lex.get_array(*ts[1], *lex.make_phantom()), &lex.get_array(*ts[1], *lex.make_phantom()));
      ttw.emplace_back("as-types of twin expressions", &lex.get_as_type(*std::get<1>(xtw[4])), &lex.get_as_type(*std::get<2>(xtw[4])));
      for (auto& [what, t1, t2] : ttw) {
         if (t1 == t2) continue;
         for (const Type* t : { t1, t2, t1 }) {
            const std::string tag = "(twins: " + what + ")";
            auto* p = &lex.get_pointer(*t); add_node("get_pointer" + tag, p, Category_code::Pointer, [p, t](Ck& c) { c.same("points_to", &p->points_to(), t); }, false);
            auto* r = &lex.get_reference(*t); add_node("get_reference" + tag, r, Category_code::Reference, [r, t](Ck& c) { c.same("refers_to", &r->refers_to(), t); }, false);
            auto* rr = &lex.get_rvalue_reference(*t); add_node("get_rvalue_reference" + tag, rr, Category_code::Rvalue_reference, [rr, t](Ck& c) { c.same("refers_to", &rr->refers_to(), t); }, false);
            auto* q = &lex.get_qualified(Qualifiers(1), *t); add_node("get_qualified" + tag, q, Category_code::Qualified, [q, t](Ck& c) { c.same("main_variant", &q->main_variant(), t); c.eq("qualifiers", (long long)q->qualifiers(), 1); }, false);
            auto* ar = &lex.get_array(*t, *P.exprs[3]); add_node("get_array(element)" + tag, ar, Category_code::Array, [ar, t, x = P.exprs[3]](Ck& c) { c.same("element_type", &ar->element_type(), t); c.same("bound", &ar->bound(), x); }, false);
            auto* pm = &lex.get_ptr_to_member(*t, *ts[0]); add_node("get_ptr_to_member(containing)" + tag, pm, Category_code::Ptr_to_member, [pm, t, b = ts[0]](Ck& c) { c.same("containing_type", &pm->containing_type(), t); c.same("member_type", &pm->member_type(), b); }, false);
            auto* pn = &lex.get_ptr_to_member(*ts[0], *t); add_node("get_ptr_to_member(member)" + tag, pn, Category_code::Ptr_to_member, [pn, t, a = ts[0]](Ck& c) { c.same("containing_type", &pn->containing_type(), a); c.same("member_type", &pn->member_type(), t); }, false);
            impl::Warehouse<Type> w1; w1.push_back(*t); w1.push_back(*ts[1]);
            auto* pr = &lex.get_product(w1); add_node("get_product" + tag, pr, Category_code::Product, [pr, t, u = ts[1]](Ck& c) { c.eq("size", (long long)pr->size(), 2); if (pr->size() == 2) { c.same("operator[]", &(*pr)[0], t); c.same("operator[]", &(*pr)[1], u); } }, false);
            auto* sm = &lex.get_sum(w1); add_node("get_sum" + tag, sm, Category_code::Sum, [sm, t, u = ts[1]](Ck& c) { c.eq("size", (long long)sm->size(), 2); if (sm->size() == 2) { c.same("operator[]", &(*sm)[0], t); c.same("operator[]", &(*sm)[1], u); } }, false);
            auto* fn = &lex.get_function(src, *t); add_node("get_function(target)" + tag, fn, Category_code::Function, [fn, sp = &src, t](Ck& c) { c.same("source", &fn->source(), sp); c.same("target", &fn->target(), t); }, false);
            auto* fa = &lex.get_forall(*pr, *t); add_node("get_forall" + tag, fa, Category_code::Forall, [fa, pr, t](Ck& c) { c.same("source", &fa->source(), pr); c.same("target", &fa->target(), t); }, false);
            auto* cv = &lex.get_conversion(*t); add_node("get_conversion" + tag, cv, Category_code::Conversion, [cv, t](Ck& c) { c.same("target", &cv->target(), t); }, false);
            auto* ct = &lex.get_ctor_name(*t); add_node("get_ctor_name" + tag, ct, Category_code::Ctor_name, [ct, t](Ck& c) { c.same("object_type", &ct->object_type(), t); }, false);
            auto* dt = &lex.get_dtor_name(*t); add_node("get_dtor_name" + tag, dt, Category_code::Dtor_name, [dt, t](Ck& c) { c.same("object_type", &dt->object_type(), t); }, false);
            auto* lt = &lex.get_literal(*t, sp7); add_node("get_literal" + tag, lt, Category_code::Literal, [lt, t, s = &sp7](Ck& c) { c.type_is(*lt, *t, "given"); c.same("string", &lt->string(), s); }, false);
            auto* sy = &lex.get_symbol(*P.idents[3], *t); add_node("get_symbol" + tag, sy, Category_code::Symbol, [sy, t, nm = P.idents[3]](Ck& c) { c.type_is(*sy, *t, "given"); c.same("name", &sy->name(), static_cast<const Name*>(nm)); }, false);
            ++twin_requests;
         }
      }
   }
   // literals spelled like the words the library knows (true, false, nullptr, default, int, ...), of types that are NOT the ones those
   // words suggest: a literal's type is the type it was given, its spelling the word, whatever the word means elsewhere
   {
      const Type* lts[] = { &L.int_type(), &lex.get_qualified(Qualifiers(1), L.bool_type()), &lex.get_pointer(L.void_type()), &L.bool_type(), &L.nullptr_value().type(), &L.double_type(), &lex.get_as_type(lex.get_identifier(u8"nullptr_t")) };
      std::size_t k = 0;
      for (auto w : reserved_words) {
         for (int j = 0; j < 3; ++j, ++k) {
            const Type* t = lts[k % std::size(lts)];
            auto& sp = lex.get_string(w);
            const Literal* lt = j == 0 ? &lex.get_literal(*t, w) : j == 1 ? &lex.get_literal(*t, sp) : lex.make_literal(*t, w);
            add_node(std::string(j == 2 ? "make_literal" : "get_literal") + "(spelled like a reserved word)", lt, Category_code::Literal, [lt, t, s = &sp](Ck& c) { c.type_is(*lt, *t, "given"); c.same("type operand", &lt->first(), t, A_OPERAND); c.same("string", &lt->string(), s); }, false);
         }
      }
   }
   // spellings that are prefixes of one another, through every spelling-keyed constructor
   {
      const char* sp[] = { "ab", "abc", "a", "ab", "abd", "", "abc" };
      for (auto w : sp) {
         auto& s = lex.get_string(widen(w));
         auto* id = &lex.get_identifier(s); add_node("get_identifier(burst)", id, Category_code::Identifier, [id, sp = &s](Ck& c) { c.same("string", &id->string(), sp); }, false);
         auto* op = &lex.get_operator(s); add_node("get_operator(burst)", op, Category_code::Operator, [op, sp = &s](Ck& c) { c.same("opname", &op->opname(), sp); }, false);
         auto* sf = &lex.get_suffix(*id); add_node("get_suffix(burst)", sf, Category_code::Suffix, [sf, id](Ck& c) { c.same("name", &sf->name(), id); }, false);
         auto& lg = lex.get_logogram(s); add_other("get_logogram(burst)", &lg, [g = &lg, sp = &s](Ck& c) { c.same("what", &g->what(), sp); });
         auto& lk = lex.get_linkage(s); add_other("get_linkage(burst)", &lk, [l = &lk, w = std::string(w)](Ck& c) { c.yes("language.what", narrow(l->language().what().characters()) == w, "linkage spelled differently from the request"); });
         auto& cc = lex.get_calling_convention(widen(w)); add_other("get_calling_convention(burst)", &cc, [k = &cc, w = std::string(w)](Ck& c) { c.yes("name.what", narrow(k->name().what().characters()) == w, "calling convention spelled differently from the request"); });
         auto& x = lex.get_transfer(lk, cc); add_other("get_transfer(burst)", &x, [xp = &x, l = &lk, k = &cc](Ck& c) { c.yes("linkage", xp->linkage() == *l, "transfer does not report its linkage"); c.yes("convention", xp->convention() == *k, "transfer does not report its convention"); });
      }
   }
}
} // namespace vh
#endif
