// C03 -- words are interned: one String node per distinct byte content, content preserved for ever.
// Monitor: history of interned words vs a byte-string -> node model with full content re-verification and
// storage-interval disjointness at checkpoints; boundary steering through the IPR_VERIF hook; ASan+UBSan
// with exact-size, non-NUL-terminated sources.
#include "common.hpp"
#include "inspect.hpp"
#include "digest_twins.hpp"
#include "hashtwins.hpp"
#include "reserved.hpp"
#include <ipr/impl>
#include <unordered_map>
#include <algorithm>
#include <memory>

using namespace vh;
using namespace ipr;

// libstdc++'s byte hash on 64-bit targets is Murmur-like: f(k) = shift_mix(k*mul)*mul per 8-byte block, combined
// by hash = (hash ^ f(k)) * mul.  Flipping bit 63 of f() on an even number of blocks leaves the hash unchanged.
static constexpr std::uint64_t MUL = (std::uint64_t(0xc6a4a793UL) << 32) + 0x5bd1e995UL;
static std::uint64_t shift_mix(std::uint64_t v) { return v ^ (v >> 47); }
static std::uint64_t inv_mul()
{
   std::uint64_t x = MUL;           // Newton iteration for the inverse modulo 2^64
   for (int i = 0; i < 6; ++i) x *= 2 - MUL * x;
   return x;
}
static std::uint64_t f(std::uint64_t k) { return shift_mix(k * MUL) * MUL; }
static std::uint64_t finv(std::uint64_t d) { static const std::uint64_t IM = inv_mul(); return shift_mix(d * IM) * IM; }

struct Entry { std::string bytes; const String* node; const char8_t* data; bool dynamic; };

struct Harness {
   impl::Lexicon lex;
   Rng rng;
   std::unordered_map<std::string, std::size_t> by_content;
   std::unordered_map<const String*, std::size_t> by_node;
   std::vector<Entry> entries;
   long long interned = 0, bytes_total = 0;
   long long pools_seen = 1;
   unsigned long long alternate = 0;

   explicit Harness(std::uint64_t seed) : rng(seed) { }

   const util::string_pool& pool() { return Inspector::strings(static_cast<const impl::name_factory&>(lex)); }
   long long remaining() { return Inspector::arena_remaining(Inspector::arena(pool())); }
   long long pools() { return Inspector::arena_pools(Inspector::arena(pool())); }

   // intern `s` from an exact-size heap buffer that is not NUL-terminated
   const String& intern(const std::string& s, const char* family)
   {
      // an exact-size unterminated heap buffer (ASan traps any read past it) ...
      std::unique_ptr<char8_t[]> buf(new char8_t[s.size() ? s.size() : 1]);
      std::memcpy(buf.get(), s.data(), s.size());
      if (++alternate % 3 != 0) return intern_view(util::word_view(buf.get(), s.size()), s, family);
      // ... or, every third time, the same bytes starting at an odd offset of a larger buffer: where the caller's bytes start
      // (their alignment) is not part of what is asked
      const std::size_t off = 1 + (alternate / 3) % 15;
      std::unique_ptr<char8_t[]> wide(new char8_t[s.size() + off]);
      std::memcpy(wide.get() + off, s.data(), s.size());
      ctx().count("sources_at_odd_alignment");
      return intern_view(util::word_view(wide.get() + off, s.size()), s, family);
   }
   // intern the bytes `v` designates (wherever they live: the caller's buffer, or the pool's own storage); `s` = the same bytes
   const String& intern_view(util::word_view v, const std::string& s, const char* family)
   {
      const String& n = lex.get_string(v);
      ++interned; bytes_total += (long long)s.size();
      ctx().count(std::string("interned:") + family);
      auto w = n.characters();
      if (w.size() != s.size() || std::memcmp(w.data(), s.data(), s.size()) != 0)
         ctx().viol(std::string("content-at-return:") + family, "the returned String does not have the interned bytes", desc(s, family));
      if (n.category != Category_code::String) ctx().viol("category", "String node has another category");
      auto it = by_content.find(s);
      if (it != by_content.end()) {
         ctx().count("re_interned");
         if (entries[it->second].node != &n)
            ctx().viol(std::string("equal-content-different-node:") + family, "interning equal bytes again returned another node", desc(s, family));
      } else {
         auto nit = by_node.find(&n);
         if (nit != by_node.end())
            ctx().viol(std::string("different-content-same-node:") + family, "interning new bytes returned the node of other bytes", desc(s, family));
         else {
            by_content.emplace(s, entries.size());
            by_node.emplace(&n, entries.size());
            bool constant = s.empty();
            for (auto r : reserved_words) if (narrow(r) == s) constant = true;
            entries.push_back(Entry{s, &n, w.data(), !constant});
         }
      }
      ctx().eval(hash_bytes(s), true);
      long long p = pools();
      if (p > pools_seen) { ctx().count("pool_rollovers", p - pools_seen); pools_seen = p; }
      return n;
   }
   static std::string desc(const std::string& s, const char* family)
   {
      return J().s("family", family).n("length", (long long)s.size()).s("prefix", s.substr(0, 24)).str();
   }

   // every recorded node still has exactly its bytes at the same place; storage intervals are pairwise disjoint
   void checkpoint(bool intervals)
   {
      ctx().count("checkpoints");
      std::vector<std::pair<const char8_t*, const char8_t*>> iv;
      for (auto& e : entries) {
         auto w = e.node->characters();
         if (w.data() != e.data) ctx().viol("moved", "a String's characters moved after later interning", desc(e.bytes, "recheck"));
         if (w.size() != e.bytes.size() || std::memcmp(w.data(), e.bytes.data(), e.bytes.size()) != 0)
            ctx().viol("content-changed-later", "a String returned earlier no longer has its bytes", desc(e.bytes, "recheck"));
         if (e.dynamic && intervals && !e.bytes.empty()) iv.emplace_back(w.data() - 8, w.data() + w.size());
         ctx().count("rechecks");
      }
      if (intervals) {
         std::sort(iv.begin(), iv.end());
         for (std::size_t i = 1; i < iv.size(); ++i)
            if (std::less<const char8_t*>()(iv[i].first, iv[i - 1].second)) {
               ctx().viol("storage-overlap", "the storage of two interned words overlaps (length header + characters)",
                          J().n("len_a", (long long)(iv[i - 1].second - iv[i - 1].first - 8)).n("len_b", (long long)(iv[i].second - iv[i].first - 8)).str());
               break;
            }
         ctx().count("interval_checks");
      }
   }

   std::string random_bytes(std::size_t n)
   {
      std::string s(n, '\0');
      for (auto& c : s) c = char(rng.below(256));
      return s;
   }
   std::string unique_bytes(std::size_t n, std::uint64_t tag)
   {
      std::string s = random_bytes(n);
      for (std::size_t i = 0; i < sizeof tag && i < n; ++i) s[i] = char(tag >> (8 * i));
      return s;
   }
   static long long granules(long long n) { return (n - 8 + 15) / 16 + 1; }   // used for steering only, never as oracle

   // fill the current pool until exactly `want` granules remain (or fewer than `want` if impossible)
   void fill_until_remaining(long long want, std::uint64_t& tag)
   {
      for (;;) {
         long long r = remaining();
         if (r <= want) return;
         long long g = std::min<long long>(r - want, 2000 + (long long)rng.below(2000));
         long long n = (g - 1) * 16 + 8;                 // exactly g granules
         if (n < 9) n = 8;
         intern(unique_bytes(std::size_t(n), ++tag), "filler");
      }
   }
};

static void reserved_and_empty(Harness& H, Harness& other)
{
   const Lexicon& L = H.lex;
   for (int pass = 0; pass < 2; ++pass) {
      auto& e = H.lex.get_string(u8"");
      if (&e != &String::empty_string() || e.size() != 0) ctx().viol("empty-word", "the empty word is not String::empty_string()");
      char8_t one = u8'x';
      if (&H.lex.get_string(util::word_view(&one, 0)) != &String::empty_string()) ctx().viol("empty-word", "a zero-length view of a non-empty buffer is not the empty word");
   }
   for (auto w : reserved_words) {
      std::string s = narrow(w);
      auto& a = H.lex.get_string(widen(s));
      auto& b = other.lex.get_string(widen(s));
      ctx().count("reserved_words_checked");
      if (&a != &b) ctx().viol("reserved-word:not-process-wide", "reserved word '" + s + "' maps to different nodes in two Lexicons");
      if (narrow(a.characters()) != s) ctx().viol("reserved-word:content", "reserved word '" + s + "' has other characters");
      if (&a != &H.lex.get_string(widen(s))) ctx().viol("reserved-word:not-stable", "reserved word '" + s + "' maps to two nodes in one Lexicon");
      // near misses are dynamic words with exact content, distinct from the constant
      std::vector<std::string> near;
      for (std::size_t i = 1; i < s.size(); ++i) { near.push_back(s.substr(0, i)); near.push_back(s.substr(i)); }
      for (std::size_t i = 0; i < s.size(); ++i) {
         std::string t = s; t[i] = char(t[i] ^ 1); near.push_back(t);
         t = s; t[i] = char(t[i] ^ 0x20); near.push_back(t);
         t = s; t.erase(i, 1); near.push_back(t);
         t = s; t.insert(i, 1, s[i]); near.push_back(t);
      }
      near.push_back(s + std::string(1, '\0')); near.push_back(std::string(1, '\0') + s); near.push_back(s + " "); near.push_back(s + s);
      for (auto& t : near) {
         if (t.empty()) continue;
         bool is_reserved = false;
         for (auto r : reserved_words) if (narrow(r) == t) is_reserved = true;
         if (is_reserved) continue;
         auto& n = H.intern(t, "reserved-near-miss");
         if (&n == &a) ctx().viol("reserved-word:near-miss-maps-to-constant", "near miss '" + t + "' of reserved word '" + s + "' maps to the constant");
         if (&other.lex.get_string(widen(t)) == &n) ctx().viol("dynamic-word-shared-between-lexicons", "a dynamic word is the same node in two Lexicons");
      }
   }
   // the node carried by the corresponding built-in
   struct { const Type* t; const char* sp; } carried[] = { {&L.int_type(), "int"}, {&L.void_type(), "void"}, {&L.long_long_type(), "long long"},
      {&L.ellipsis_type(), "..."}, {&L.typename_type(), "typename"}, {&L.namespace_type(), "namespace"}, {&L.ulong_long_type(), "unsigned long long"} };
   for (auto& c : carried) {
      auto id = util::view<Identifier>(c.t->name());
      if (!id || &id->string() != &H.lex.get_string(widen(c.sp))) ctx().viol("reserved-word:builtin-carries-other-node", std::string("the built-in type '") + c.sp + "' does not carry the interned reserved word");
   }
}

static void lengths_workload(Harness& H, bool thorough)
{
   std::uint64_t tag = 0;
   // every length 0..96 with all-distinct contents, then boundary lengths around multiples of 16
   for (std::size_t n = 0; n <= 96; ++n) H.intern(H.unique_bytes(n, ++tag), "small-lengths");
   const std::size_t top = thorough ? 8192 : 2048;
   for (std::size_t k = 16; k <= top; k += 16)
      for (int d : { 0, 1, 7, 8, 9, -1, -7, -8, -9 }) H.intern(H.unique_bytes(std::size_t(long(k) + d), ++tag), "granule-boundaries");
   // every byte value; NUL at start / middle / end; all-NUL words
   for (int b = 0; b < 256; ++b) { H.intern(std::string(1, char(b)), "single-bytes"); H.intern(std::string(3, char(b)), "single-bytes"); }
   for (std::size_t n = 1; n <= 40; ++n) H.intern(std::string(n, '\0'), "all-nul");
   for (std::size_t n = 2; n <= 40; n += 3) {
      std::string s = H.unique_bytes(n, ++tag);
      std::string a = s; a[0] = '\0'; H.intern(a, "nul-inside");
      a = s; a[n / 2] = '\0'; H.intern(a, "nul-inside");
      a = s; a[n - 1] = '\0'; H.intern(a, "nul-inside");
      H.intern(s.substr(0, n - 1), "nul-inside");          // a proper prefix of the same buffer
   }
   // equal length, common prefix, differing only in the last byte / first byte
   for (std::size_t n : { 8u, 9u, 16u, 17u, 24u, 25u, 100u, 1000u }) {
      std::string s = H.unique_bytes(n, ++tag);
      for (int v = 0; v < 6; ++v) { std::string a = s; a[n - 1] = char(v); H.intern(a, "last-byte-differs"); a = s; a[0] = char(200 + v); H.intern(a, "first-byte-differs"); }
   }
   H.checkpoint(true);
}

// Words that continue one another: every cut k of one long word for k around 8, 16, 32, 64, 128, 256 and 1024 (+-9), entered longest
// first, shortest first and in random order (three different long words), then all again; a proper prefix of a known word is
// another word, and so is a known word continued by anything (a NUL, a repeat of itself)
static void continued_words_workload(Harness& H)
{
   std::uint64_t tag = 7000000;
   for (int order = 0; order < 3; ++order) {
      std::string longw = H.unique_bytes(1100, ++tag);
      if (order == 1) for (auto& c : longw) c = char('a' + (unsigned char)c % 26);       // a printable family
      std::vector<std::size_t> cuts;
      for (std::size_t mid : { 8u, 16u, 32u, 64u, 128u, 256u, 1024u }) for (std::size_t k = mid > 9 ? mid - 9 : 1; k <= mid + 9; ++k) cuts.push_back(k);
      cuts.push_back(1100);
      if (order == 0) std::reverse(cuts.begin(), cuts.end());
      if (order == 2) for (std::size_t i = cuts.size(); i > 1; --i) std::swap(cuts[i - 1], cuts[H.rng.below(i)]);
      for (int pass = 0; pass < 2; ++pass) {
         for (auto k : cuts) { H.intern(longw.substr(0, k), "continued-words"); ctx().count("words_that_continue_or_cut_short_a_known_word"); }
         std::reverse(cuts.begin(), cuts.end());
      }
      for (std::size_t k : { 31u, 32u, 33u, 40u }) { std::string w = longw.substr(0, k); H.intern(w + std::string(1, '\0'), "continued-words"); H.intern(w + w, "continued-words"); H.intern(w, "continued-words"); }
   }
   H.checkpoint(true);
}

static void collisions_workload(Harness& H, bool thorough)
{
   // equal-hash, equal-length words; verified against std::hash at run time
   long long verified = 0, failed = 0;
   const int blocks_max = thorough ? 8 : 7;
   for (int blocks = 2; blocks <= blocks_max; ++blocks) {
      for (int rep = 0; rep < (thorough ? 6 : 2); ++rep) {
         std::vector<std::uint64_t> k(blocks);
         for (auto& x : k) x = H.rng.next();
         std::string suffix = H.random_bytes(H.rng.below(8));      // a common tail shorter than a block
         std::vector<std::string> chain;
         const unsigned total = 1u << blocks;
         for (unsigned mask = 0; mask < total; ++mask) {
            if (__builtin_popcount(mask) % 2) continue;
            std::string s;
            for (int b = 0; b < blocks; ++b) {
               std::uint64_t kb = (mask >> b) & 1 ? finv(f(k[b]) ^ (std::uint64_t(1) << 63)) : k[b];
               s.append(reinterpret_cast<const char*>(&kb), 8);
            }
            s += suffix;
            chain.push_back(s);
            if (chain.size() >= (thorough ? 128u : 64u)) break;
         }
         std::hash<util::word_view> hs;
         auto h0 = hs(widen(chain[0]));
         bool all = true;
         for (auto& s : chain) if (hs(widen(s)) != h0) all = false;
         if (!all) { ++failed; continue; }
         ++verified;
         ctx().maxi("max_equal_hash_chain", (long long)chain.size());
         for (auto& s : chain) H.intern(s, "equal-hash");
         for (auto it = chain.rbegin(); it != chain.rend(); ++it) H.intern(*it, "equal-hash");     // find each again in a long bucket
      }
   }
   // equal-hash words of DIFFERENT lengths, each a proper prefix of the next: w, w+x1, w+x1+x2, ... (the block x that
   // keeps the hash is obtained by inverting the per-block step from the two running states); interned longest-first,
   // shortest-first and shuffled, so that a bucket comparison that trusts a prefix (or a length) is exposed
   {
      constexpr std::uint64_t SEED = 0xc70f6907UL;
      auto fold = [](std::uint64_t h, const std::string& bytes) {
         for (std::size_t i = 0; i + 8 <= bytes.size(); i += 8) { std::uint64_t k; std::memcpy(&k, bytes.data() + i, 8); h = (h ^ f(k)) * MUL; }
         return h;
      };
      static const std::uint64_t IM = inv_mul();
      long long nested_ok = 0, nested_bad = 0;
      for (int rep = 0; rep < (thorough ? 40 : 12); ++rep) {
         std::string w = H.random_bytes(8 * (1 + H.rng.below(4)));
         std::vector<std::string> chain { w };
         const int depth = 2 + int(H.rng.below(4));
         for (int d = 0; d < depth; ++d) {
            const std::string& cur = chain.back();
            const std::uint64_t hs = fold(SEED ^ (std::uint64_t(cur.size()) * MUL), cur);
            const std::uint64_t hl = fold(SEED ^ (std::uint64_t(cur.size() + 8) * MUL), cur);
            const std::uint64_t x = finv(hl ^ (hs * IM));
            std::string nxt = cur; nxt.append(reinterpret_cast<const char*>(&x), 8);
            chain.push_back(nxt);
         }
         std::hash<util::word_view> hs;
         bool all = true;
         for (auto& c : chain) if (hs(widen(c)) != hs(widen(chain[0]))) all = false;
         if (!all) { ++nested_bad; continue; }
         ++nested_ok;
         std::vector<std::string> order = chain;
         if (rep % 3 == 0) std::reverse(order.begin(), order.end());
         else if (rep % 3 == 2) for (std::size_t i = order.size(); i > 1; --i) std::swap(order[i - 1], order[H.rng.below(i)]);
         for (auto& c : order) H.intern(c, "equal-hash-prefix");
         for (auto& c : chain) H.intern(c, "equal-hash-prefix");
      }
      ctx().count("equal_hash_prefix_chains_verified", nested_ok);
      if (nested_bad) ctx().inconclusive("equal-hash prefix generator does not match this platform's std::hash (" + std::to_string(nested_bad) + " chains)");
   }
   // ordinary 16-byte words with the same hash code as a reserved word (and as a few ordinary short words): the bucket of a
   // process-wide word's hash is then not empty.  Interned before and after the word they collide with, in both orders.
   {
      constexpr std::uint64_t SEED = 0xc70f6907UL;
      static const std::uint64_t IM = inv_mul();
      auto prefinal = [&](const std::string& w) {                 // hash state before the final mixing (a bijection)
         std::uint64_t h = SEED ^ (std::uint64_t(w.size()) * MUL);
         std::size_t i = 0;
         for (; i + 8 <= w.size(); i += 8) { std::uint64_t k; std::memcpy(&k, w.data() + i, 8); h = (h ^ f(k)) * MUL; }
         if (w.size() & 7) { std::uint64_t t = 0; for (std::size_t j = w.size(); j-- > i; ) t = (t << 8) + static_cast<unsigned char>(w[j]); h ^= t; h *= MUL; }
         return h;
      };
      auto collider = [&](const std::string& target, std::uint64_t first) {
         const std::uint64_t want = prefinal(target);
         const std::uint64_t h1 = ((SEED ^ (16 * MUL)) ^ f(first)) * MUL;
         const std::uint64_t second = finv((want * IM) ^ h1);
         std::string c(16, '\0'); std::memcpy(c.data(), &first, 8); std::memcpy(c.data() + 8, &second, 8);
         return c;
      };
      std::vector<std::string> targets;
      for (auto w : reserved_words) targets.push_back(narrow(w));
      for (auto w : { "x", "main", "size_type", "operator+", "a_longer_ordinary_identifier" }) targets.push_back(w);
      impl::Lexicon elsewhere;                                     // reserved words are the same nodes in every Lexicon
      std::hash<util::word_view> hs;
      long long ok = 0, bad = 0; int i = 0;
      for (auto& t : targets) {
         const std::string c = collider(t, H.rng.next() | 1);
         if (c == t || hs(widen(c)) != hs(widen(t))) { ++bad; continue; }
         ++ok;
         const bool is_reserved = i < int(std::size(reserved_words));
         const String* first = nullptr;
         if (i % 2 == 0) first = &H.intern(t, "word-with-an-equal-hash-neighbour");
         H.intern(c, "equal-hash-neighbour-of-a-word");
         const String& after = H.intern(t, "word-with-an-equal-hash-neighbour");
         H.intern(c, "equal-hash-neighbour-of-a-word");
         if (first && first != &after) ctx().viol("equal-hash-neighbour:word-changed-node", "a word maps to another node once an ordinary word with the same hash code has been interned", H.desc(t, "word-with-an-equal-hash-neighbour"));
         if (is_reserved && &after != &elsewhere.get_string(widen(t))) ctx().viol("equal-hash-neighbour:reserved-word-lost-its-constant", "a reserved word no longer maps to its process-wide node once an ordinary word with the same hash code has been interned", H.desc(t, "word-with-an-equal-hash-neighbour"));
         ++i;
      }
      ctx().count("words_given_an_equal_hash_neighbour", ok);
      // ... and ordinary words with the same hash code AND the same length as the word (possible from 9 bytes on), with a printable,
      // a NUL and a high last byte: interned before and after the word they collide with
      for (auto w : { "a_nine_by", "exactly_16_bytes", "seventeen_bytes_x", "a_word_of_thirty_three_bytes_____", "unsigned long long int" }) targets.push_back(w);
      long long same_len = 0; i = 0;
      for (auto& t : targets) {
         for (unsigned char last : { (unsigned char)'~', (unsigned char)0, (unsigned char)0x9F }) {
            const std::string c = same_length_hash_twin(t, last);
            if (c.empty()) continue;
            ++same_len;
            const bool is_reserved = std::find(std::begin(reserved_words), std::end(reserved_words), widen(t)) != std::end(reserved_words);
            const String* first = nullptr;
            if (i++ % 2 == 0) first = &H.intern(t, "word-with-an-equal-hash-and-length-neighbour");
            H.intern(c, "equal-hash-and-length-neighbour-of-a-word");
            const String& after = H.intern(t, "word-with-an-equal-hash-and-length-neighbour");
            const String& twin_again = H.intern(c, "equal-hash-and-length-neighbour-of-a-word");
            if (&twin_again == &after) ctx().viol("equal-hash-neighbour:same-length:one-node-for-two-words", "a word and an ordinary word with the same length and hash code are one node", H.desc(t, "word-with-an-equal-hash-and-length-neighbour"));
            if (first && first != &after) ctx().viol("equal-hash-neighbour:same-length:word-changed-node", "a word maps to another node once an ordinary word with the same length and hash code has been interned", H.desc(t, "word-with-an-equal-hash-and-length-neighbour"));
            if (is_reserved && &after != &elsewhere.get_string(widen(t))) ctx().viol("equal-hash-neighbour:same-length:reserved-word-lost-its-constant", "a reserved word no longer maps to its process-wide node once an ordinary word with the same length and hash code has been interned", H.desc(t, "word-with-an-equal-hash-and-length-neighbour"));
         }
      }
      ctx().count("words_given_an_equal_hash_and_length_neighbour", same_len);
      if (bad) ctx().inconclusive("equal-hash neighbour generator does not match this platform's std::hash (" + std::to_string(bad) + " words)");
   }
   ctx().count("equal_hash_chains_verified", verified);
   if (failed) ctx().inconclusive("equal-hash generator does not match this platform's std::hash (" + std::to_string(failed) + " chains)");
   // read the real bucket chain lengths through the hook
   long long longest = 0;
   for (auto& [h, lst] : Inspector::buckets(H.pool())) { (void)h; long long n = std::distance(lst.begin(), lst.end()); if (n > longest) longest = n; }
   ctx().maxi("longest_bucket_observed", longest);
   H.checkpoint(true);
}

static void pool_boundaries_workload(Harness& H, int rollovers, bool thorough)
{
   std::uint64_t tag = 1u << 30;
   const long long deltas[] = { 0, 1, -1, 2, -2, 5 };
   for (int r = 0; r < rollovers; ++r) {
      // leave `left` granules, then ask for exactly left / left+1 / left-1 ... granules
      long long left = 1 + (long long)H.rng.below(r % 3 == 0 ? 6 : 300);
      H.fill_until_remaining(left, tag);
      long long rem = H.remaining();
      long long g = std::max<long long>(1, rem + deltas[r % 6]);
      long long n = (g - 1) * 16 + 8 - (long long)H.rng.below(2) * (g > 1 ? 7 : 0);
      long long before = H.pools();
      H.intern(H.unique_bytes(std::size_t(n), ++tag), "pool-boundary");
      ctx().count(H.pools() > before ? "boundary_requests_rolled_over" : "boundary_requests_fitted");
      // ordinary allocation right after
      for (int i = 0; i < 5; ++i) H.intern(H.unique_bytes(1 + H.rng.below(60), ++tag), "after-boundary");
      if (r % 4 == 3) H.checkpoint(true);
   }
   (void)thorough;
   H.checkpoint(true);
}

// Words given as views into the pool's own storage: the front, the tail and the middle of the characters of a word that
// was handed out just before (no other word in between) and of words handed out long before.  What is asked is what the
// view covers; where the bytes happen to live is irrelevant.
static void own_storage_workload(Harness& H, bool thorough)
{
   std::vector<std::string> hosts { "integer", "voidness", "longest", "charter", "intint", "classes", "unsigned long longer", "C++20", "thistle", "autos", "a", "ab" };
   for (int i = 0; i < (thorough ? 400 : 60); ++i) hosts.push_back(H.unique_bytes(2 + H.rng.below(i % 10 == 0 ? 70000 : 60), 0x5000000u + std::uint64_t(i)));
   std::vector<const String*> earlier;
   for (auto& w : hosts) {
      const String& host = H.intern(w, "host-of-views");
      earlier.push_back(&host);
      const auto chars = host.characters();
      // right after the host was handed out
      std::vector<std::pair<std::size_t, std::size_t>> cuts { { 0, 1 }, { 0, chars.size() - 1 }, { 0, chars.size() / 2 }, { 0, 3 }, { 0, 4 }, { 1, chars.size() - 1 }, { chars.size() / 2, chars.size() - chars.size() / 2 }, { 1, 1 }, { 0, chars.size() } };
      for (auto [from, len] : cuts) {
         if (from + len > chars.size() || len == 0) continue;
         H.intern_view(chars.substr(from, len), w.substr(from, len), from == 0 ? "front-of-a-word-in-the-pool" : "inside-a-word-in-the-pool");
         ctx().count("views_into_pool_storage");
      }
      // and into a word handed out long before
      if (earlier.size() > 3) {
         const String& old = *earlier[H.rng.below(earlier.size() - 1)];
         auto oc = old.characters(); std::size_t len = 1 + H.rng.below(oc.size());
         H.intern_view(oc.substr(0, len), narrow(oc.substr(0, len)), "front-of-an-older-word-in-the-pool");
         ctx().count("views_into_pool_storage");
      }
   }
   H.checkpoint(true);
}

// A keyword table looked up by a digest instead of by spelling would take these ordinary words for reserved ones.
static void digest_twins_workload(Harness& H)
{
   impl::Lexicon elsewhere;
   for (auto w : digest_twins_of_reserved_words) {
      const String& n = H.intern(w, "digest-twin-of-a-reserved-word");
      for (auto r : reserved_words) if (&n == &elsewhere.get_string(r)) ctx().viol("digest-twin:ordinary-word-is-a-reserved-constant", "an ordinary word was interned as the process-wide node of a reserved word", Harness::desc(w, "digest-twin-of-a-reserved-word"));
      ctx().count("digest_twins_interned");
   }
   for (auto r : reserved_words) H.intern(narrow(r), "reserved");
   for (auto w : digest_twins_of_reserved_words) H.intern(w, "digest-twin-of-a-reserved-word");
}

static void oversize_workload(Harness& H, bool thorough)
{
   std::uint64_t tag = 1u << 29;
   std::vector<std::size_t> sizes = { 65535, 65536, 65537, 65544, 65545, (1u << 20) - 8, 1u << 20, (1u << 20) + 1, (2u << 20) + 3 };
   if (thorough) { sizes.push_back(8u << 20); sizes.push_back((1u << 20) - 9); sizes.push_back((1u << 20) - 7); sizes.push_back(3u << 20); }
   // every length around the two thresholds of the allocator (the oversize test at 65536 and the byte capacity of a pool,
   // 65536 granules of 16 bytes = 2^20, less the 8-byte length field): the windows are shared out among the workers
   {
      const std::size_t w = std::size_t(ctx().worker), nw = std::size_t(std::max(1, ctx().workers));
      for (std::size_t n = 65536 - 24; n <= 65536 + 40; ++n) if (n % nw == w) sizes.push_back(n);
      for (std::size_t n = (1u << 20) - 40; n <= (1u << 20) + 24; ++n) if (n % nw == w) sizes.push_back(n);
      ctx().count("threshold_window_lengths", (long long)sizes.size());
   }
   for (int round = 0; round < 2; ++round)
      for (auto n : sizes) {
         // round 0: current pool nearly full -> the separate oversize path for n > 65536; round 1: as found
         // (every fourth time the pool is used up to its very last granule, or to one or two granules, before the big word comes)
         if (round == 0) { static int nth = 0; const int k = nth++ % 8; H.fill_until_remaining(k == 0 || k == 4 ? 0 : k == 2 ? 1 : k == 6 ? 2 : 3 + (long long)H.rng.below(40), tag); if (H.remaining() == 0) ctx().count("oversize_words_right_after_a_pool_was_used_up_exactly"); }
         long long before = H.pools(), rem = H.remaining();
         std::string s = H.unique_bytes(n, ++tag);
         H.intern(s, "oversize");
         bool fitted = Harness::granules((long long)n) <= rem;
         ctx().count(fitted ? "oversize_fitted_current_pool" : (n > 65536 ? "oversize_own_pool" : "oversize_fresh_pool"));
         if (H.pools() == before && !fitted) ctx().count("oversize_unexpected_fit");
         for (int i = 0; i < 8; ++i) H.intern(H.unique_bytes(1 + H.rng.below(200), ++tag), "after-oversize");
         H.intern(s, "oversize");                                    // found again, not stored twice
         H.checkpoint(true);
      }
}

// Words interned during static initialisation (constructor of a namespace-scope object, earliest priority a program may ask
// for): the reserved words and the empty word lead to the same process-wide nodes as inside main(), ordinary words keep their
// bytes and are shared within that Lexicon.  Plain arrays only; compared in body().
struct EarlyWords {
   bool ran = false, threw = false;
   const String* reserved[std::size(reserved_words)] = { }; const String* empty = nullptr;
   bool reserved_spelled[std::size(reserved_words)] = { };
   bool ordinary_ok = true;
   EarlyWords()
   {
      try {
         impl::Lexicon lex;
         std::size_t i = 0;
         for (auto w : reserved_words) { auto& s = lex.get_string(w); reserved[i] = &s; reserved_spelled[i] = s.characters() == w; ++i; }
         empty = &lex.get_string(u8"");
         const char8_t* words[] = { u8"in", u8"inta", u8"Int", u8"an_ordinary_word_of_some_length", u8"x" };
         for (auto w : words) { auto& a = lex.get_string(w); auto& b = lex.get_string(w); if (&a != &b || a.characters() != std::u8string_view(w)) ordinary_ok = false; for (auto r : reserved) if (r == &a) ordinary_ok = false; }
      } catch (...) { threw = true; }
      ran = true;
   }
};
__attribute__((init_priority(101))) static EarlyWords early_words;

// One word longer than 32 bits can count (2^32 + 5 bytes; thorough tier, one worker; about 9 GiB of address space, of which the
// copy kept by the Lexicon is resident): its length and its bytes at both ends and on either side of the 2^32 boundary are
// preserved, it is found again, and the 5-byte word that a length reduced modulo 2^32 would leave is another word.
static void huge_word(Ctx& C)
{
   const std::size_t n = (std::size_t(1) << 32) + 5;
   char8_t* buf = static_cast<char8_t*>(std::calloc(n, 1));
   if (!buf) { C.count("huge_word_skipped_for_lack_of_memory"); return; }
   buf[0] = u8'h'; buf[4] = u8'!'; buf[(std::size_t(1) << 32) - 1] = u8'b'; buf[std::size_t(1) << 32] = u8'm'; buf[n - 1] = u8'z';
   {
      impl::Lexicon lex;
      const String& s = lex.get_string(util::word_view(buf, n));
      auto w = s.characters();
      const std::string where = J().n("length", (long long)n).str();
      if (w.size() != n) C.viol("content-at-return:longer-than-32-bits:length", "a word of 2^32+5 bytes was interned with length " + std::to_string(w.size()), where);
      else {
         if (w[0] != u8'h' || w[4] != u8'!' || w[(std::size_t(1) << 32) - 1] != u8'b' || w[std::size_t(1) << 32] != u8'm' || w[n - 1] != u8'z' || w[n - 2] != 0 || w[12345678901ull % n] != 0)
            C.viol("content-at-return:longer-than-32-bits:bytes", "a word of 2^32+5 bytes does not have its bytes", where);
         if (s.size() != n) C.viol("content-at-return:longer-than-32-bits:size", "String::size() of a word of 2^32+5 bytes is " + std::to_string(s.size()), where);
      }
      if (&lex.get_string(util::word_view(buf, n)) != &s) C.viol("equal-content-different-node:longer-than-32-bits", "interning a word of 2^32+5 bytes again returned another node", where);
      const String& five = lex.get_string(util::word_view(buf, 5));
      if (&five == &s) C.viol("different-content-same-node:longer-than-32-bits", "the first 5 bytes of a word of 2^32+5 bytes are the same node as the word", where);
      if (five.characters().size() != 5) C.viol("content-at-return:longer-than-32-bits:prefix", "the 5-byte word interned after a word of 2^32+5 bytes has another length", where);
      C.count("words_longer_than_32_bits_interned");
   }
   std::free(buf);
}

static void body(Ctx& C)
{
   // quick tier too when the machine has memory to spare (at least 24 GiB available right now); lack of memory is never a verdict
   {
      long long avail_kib = 0; if (std::FILE* mi = std::fopen("/proc/meminfo", "r")) { char line[256]; while (std::fgets(line, sizeof line, mi)) if (std::sscanf(line, "MemAvailable: %lld kB", &avail_kib) == 1) break; std::fclose(mi); }
      const bool roomy = avail_kib >= 24ll * 1024 * 1024;
      if (C.worker == 0 && ((C.thorough && avail_kib >= 12ll * 1024 * 1024) || roomy || std::getenv("VERIF_C03_HUGE"))) huge_word(C);
      else if (C.worker == 0) C.count("huge_word_skipped_for_lack_of_memory");
   }
   C.rule("a case = one interned word, distinct by content; sources are exact-size heap buffers without terminator; families: every "
          "length 0..96, every multiple of 16 +-{0,1,7,8,9}, all 256 byte values, NUL placements, equal-hash equal-length chains "
          "(constructed by inverting the platform hash and verified with std::hash), pool-boundary requests steered through the hook "
          "(request exactly remaining/+-1 granules), oversize words (65535..8MiB) on full and fresh pools, all 56 reserved words with "
          "every prefix/suffix/one-byte edit, random words, and re-interning of every earlier word in random order; after each family "
          "all earlier Strings are re-read (address, length, bytes) and storage intervals [header,end) are checked pairwise disjoint");
   C.assume("storage interval of a dynamic word = 8-byte length header immediately before characters() (pinned layout), used only for the overlap check");
   for (auto k : { "pool_rollovers", "oversize_own_pool", "oversize_fitted_current_pool", "boundary_requests_rolled_over", "boundary_requests_fitted",
                   "equal_hash_chains_verified", "equal_hash_prefix_chains_verified", "words_given_an_equal_hash_neighbour", "words_given_an_equal_hash_and_length_neighbour", "re_interned", "rechecks", "interval_checks", "reserved_words_checked", "interned:reserved-near-miss", "first_pool_filled_exactly", "views_into_pool_storage", "sources_at_odd_alignment", "digest_twins_interned", "oversize_words_right_after_a_pool_was_used_up_exactly", "words_interned_during_static_initialisation", "words_that_continue_or_cut_short_a_known_word" }) C.need(k);
   {  // what the early probe saw
      const EarlyWords& E = early_words;
      C.count("words_interned_during_static_initialisation", E.ran ? (long long)std::size(reserved_words) + 6 : 0);
      if (!E.ran || E.threw) C.viol("static-initialisation:lexicon-unusable", "a Lexicon built during static initialisation raised an exception when words were interned");
      else {
         impl::Lexicon now; std::size_t i = 0;
         for (auto w : reserved_words) {
            if (E.reserved[i] != &now.get_string(w)) C.viol("reserved-word:other-node-during-static-initialisation", "a reserved word interned during static initialisation is not the process-wide node it maps to inside main()", Harness::desc(narrow(w), "reserved"));
            if (!E.reserved_spelled[i]) C.viol("content-at-return:during-static-initialisation", "a reserved word interned during static initialisation does not have its characters", Harness::desc(narrow(w), "reserved"));
            ++i;
         }
         if (E.empty != &now.get_string(u8"")) C.viol("empty-word:other-node-during-static-initialisation", "the empty word interned during static initialisation is not the process-wide empty word");
         if (!E.ordinary_ok) C.viol("ordinary-word:during-static-initialisation", "an ordinary word interned during static initialisation lost its characters, was not shared, or was answered with a reserved word's node");
      }
   }
   {  // a completely empty first pool: words that fill it exactly, or miss by one byte
      for (long long n : { (1LL << 20) - 8, (1LL << 20) - 7, (1LL << 20) - 24, (1LL << 20) - 9 }) {
         Harness F(C.seed + 17 + std::uint64_t(n));
         long long rem0 = F.remaining();
         F.intern(F.unique_bytes(std::size_t(n), 99), "exact-fill");
         C.count(F.remaining() == 0 ? "first_pool_filled_exactly" : "first_pool_not_filled_exactly");
         C.maxi("first_pool_granules", rem0);
         for (int i = 0; i < 20; ++i) F.intern(F.unique_bytes(1 + F.rng.below(100), 1000 + i), "after-exact-fill");
         F.checkpoint(true);
      }
   }
   Harness H(C.seed), other(C.seed + 1);
   lengths_workload(H, C.thorough);
   reserved_and_empty(H, other);
   continued_words_workload(H);
   collisions_workload(H, C.thorough);
   own_storage_workload(H, C.thorough);
   digest_twins_workload(H);
   pool_boundaries_workload(H, C.thorough ? 60 : 10, C.thorough);
   oversize_workload(H, C.thorough);
   // random words, then everything again in random order
   const long long nrand = C.thorough ? 150000 : 6000;
   for (long long i = 0; i < nrand; ++i) {
      std::size_t n = H.rng.chance(80) ? H.rng.below(40) : H.rng.below(600);
      std::string s = H.random_bytes(n);
      if (H.rng.chance(30)) for (auto& c : s) c = char('a' + (unsigned char)c % 4);     // many natural collisions of content
      H.intern(s, "random");
      if ((i + 1) % 2000 == 0) H.checkpoint(false);
   }
   std::vector<std::size_t> order(H.entries.size());
   for (std::size_t i = 0; i < order.size(); ++i) order[i] = i;
   for (std::size_t i = order.size(); i > 1; --i) std::swap(order[i - 1], order[H.rng.below(i)]);
   for (auto i : order) { std::string s = H.entries[i].bytes; H.intern(s, "re-intern-all"); }
   H.checkpoint(true);
   C.count("bytes_interned", H.bytes_total);
   C.maxi("pools_at_end", H.pools());
   C.maxi("distinct_words_in_one_lexicon", (long long)H.entries.size());
   C.sample(J().s("kind", "word").s("family", "granule-boundaries").n("length", 4097).str());
   C.sample(J().s("kind", "word").s("family", "reserved-near-miss").s("bytes", "unsigned  long").str());
   C.sample(J().s("kind", "word").s("family", "equal-hash").n("length", 56).s("note", "64 words of equal length and equal std::hash").str());
}

int main(int argc, char** argv) { return guarded_main(argc, argv, body); }
