// C12 -- regions form a tree rooted at the global region; owners and positions are right.
// A RegionModel (parent map, owner map, depth, member lists) is kept beside random nesting programs over every
// region-opening construct; the library's answers are compared with the model after every step (short programs)
// or at checkpoints (long ones).
#include "common.hpp"
#include "reserved.hpp"
#include <ipr/impl>
#include <ipr/traversal>
#include <deque>
#include <set>

using namespace vh;
using namespace ipr;

namespace {
enum Construct { SUBREGION, CLASS, UNION, ENUM, NAMESPACE, CLOSURE, BLOCK, HANDLER, MAPPING, LAMBDA, REQUIRES, FUN_MORPHISM, WHERE, NCONSTRUCT };
const char* construct_name[] = { "subregion", "class", "union", "enum", "namespace", "closure", "block", "handler", "mapping", "lambda", "requires", "function-morphism", "where" };

struct RNode {
   const Region* r = nullptr;
   int parent = -1;                  // index of the model parent; -1 for a unit's global region
   const Expr* owner = nullptr;      // expected owner (null: absent)
   int depth = 0;
   int construct = -1;
   impl::Region* as_impl = nullptr;  // when make_subregion is available on it
   int root = -1;                    // index of the global region it must reach
};

struct World {
   impl::Lexicon lex;
   Rng rng;
   std::deque<impl::Translation_unit> units;
   std::deque<impl::Module> modules;
   std::vector<RNode> regions;
   std::map<const Region*, int> index;
   std::vector<impl::Block*> blocks; std::vector<int> block_region;
   std::string trace;
   // member lists
   struct ParamList { const Parameter_list* list; std::vector<const Parameter*> members; Mapping_level level; impl::Parameter_list* impl_list; };
   std::vector<ParamList> plists;
   struct EnumList { impl::Enum* e; std::vector<const Enumerator*> members; };
   std::vector<EnumList> enums;
   struct BaseList { impl::Class* c; std::vector<const Base_type*> members; int region = -1; };
   std::vector<BaseList> classes;
   std::vector<const Identifier*> ids;
   std::vector<const Type*> types;

   explicit World(std::uint64_t seed) : rng(seed)
   {
      const Lexicon& L = lex;
      for (int i = 0; i < 12; ++i) ids.push_back(&lex.get_identifier(widen("n" + std::to_string(i))));
      // every built-in (the ellipsis type is what a catch-all handler is declared with), compound and user-defined types
      types = { &L.void_type(), &L.bool_type(), &L.char_type(), &L.schar_type(), &L.uchar_type(), &L.wchar_t_type(), &L.char8_t_type(), &L.char16_t_type(), &L.char32_t_type(),
                &L.short_type(), &L.ushort_type(), &L.int_type(), &L.uint_type(), &L.long_type(), &L.ulong_type(), &L.long_long_type(), &L.ulong_long_type(), &L.float_type(),
                &L.double_type(), &L.long_double_type(), &L.ellipsis_type(), &L.typename_type(), &L.class_type(), &L.union_type(), &L.enum_type(), &L.namespace_type(),
                &lex.get_pointer(L.char_type()), &lex.get_reference(L.int_type()), &lex.get_rvalue_reference(L.double_type()), &lex.get_qualified(Qualifiers(1), L.int_type()),
                &lex.get_auto(), &L.nullptr_value().type() };
   }

   std::string where() { return J().n("regions", (long long)regions.size()).s("program", trace.size() > 500 ? trace.substr(trace.size() - 500) : trace).str(); }
   void V(const std::string& key, const std::string& msg) { ctx().viol(key, msg, where()); }

   int add(const Region& r, int parent, const Expr* owner, int construct, impl::Region* as_impl = nullptr)
   {
      RNode n; n.r = &r; n.parent = parent; n.owner = owner; n.construct = construct; n.as_impl = as_impl;
      n.depth = parent < 0 ? 0 : regions[parent].depth + 1;
      n.root = parent < 0 ? int(regions.size()) : regions[parent].root;
      if (index.count(&r)) V(std::string("region:aliases-earlier-region:") + (construct >= 0 ? construct_name[construct] : "global"), "a newly created region has the address of a live earlier region");
      index[&r] = int(regions.size());
      regions.push_back(n);
      ctx().count(std::string("created:") + (construct >= 0 ? construct_name[construct] : "global"));
      ctx().maxi("max_depth", n.depth);
      return int(regions.size()) - 1;
   }

   void new_unit(int kind)
   {
      const Lexicon& L = lex;
      auto check_unit = [&](const ipr::Translation_unit& u, impl::Region* greg, const char* what) {
         ctx().count("units_checked");
         auto& ns = u.global_namespace();
         auto id = util::view<Identifier>(ns.name());
         if (!id || !id->string().characters().empty()) V(std::string("unit:global-namespace-named:") + what, "a unit's global namespace is not named by the identifier with the empty spelling");
         if (&ns.type() != &L.namespace_type()) V(std::string("unit:global-namespace-type:") + what, "a unit's global namespace is not typed `namespace`");
         if (&ns.region() != greg) V(std::string("unit:global-region:") + what, "global_region() is not the region of the global namespace");
         add(*greg, -1, &ns, -1, greg);
      };
      if (kind == 0) { units.emplace_back(lex); check_unit(units.back(), units.back().global_region(), "translation-unit"); trace += "unit "; }
      else {
         modules.emplace_back(lex);
         auto& m = modules.back();
         check_unit(m.iface, m.iface.global_region(), "interface-unit");
         if (&m.interface_unit() != &m.iface) V("module:interface-unit", "Module::interface_unit() is not the module's interface unit");
         if (&m.iface.parent_module() != &m) V("module:interface-unit-parent", "the interface unit does not link back to its module");
         int k = int(rng.below(4));
         std::vector<const ipr::Module_unit*> made;
         for (int i = 0; i < k; ++i) {
            auto* u = m.make_unit();
            made.push_back(u);
            check_unit(*u, u->global_region(), "module-unit");
            if (&u->parent_module() != &m) V("module:unit-parent", "a module unit does not link back to its module");
         }
         auto& ius = m.implementation_units();
         if (ius.size() != made.size()) V("module:implementation-units:size", "implementation_units() does not list the units made");
         else { std::size_t i = 0; for (auto& u : ius) { if (&u != made[i]) { V("module:implementation-units:order", "implementation_units() is not the units in creation order"); break; } ++i; } }
         trace += "module(" + std::to_string(k) + ") ";
      }
   }

   // one nesting step under region index p
   void open(int p, int c)
   {
      const Region& parent = *regions[p].r;
      trace += std::string(construct_name[c]) + "@" + std::to_string(p) + " ";
      switch (c) {
      case SUBREGION: {
         if (!regions[p].as_impl) { trace += "(n/a) "; return; }
         auto* r = regions[p].as_impl->make_subregion(); add(*r, p, nullptr, c, r); break; }
      case CLASS: {
         auto* k = lex.make_class(parent); if (rng.chance(70)) k->id = rng.pick(ids); int ri = add(k->region(), p, k, c, &k->body); types.push_back(k); types.push_back(&lex.get_reference(*k));
         classes.push_back({ k, {}, -1 });
         // the base-subobject region is created with the class, enclosed by the class's enclosing region and owned by the class
         (void)ri; break; }
      case UNION: { auto* k = lex.make_union(parent); add(k->region(), p, k, c, &k->body); types.push_back(k); break; }
      case ENUM: { auto* k = lex.make_enum(parent, rng.chance(50) ? Enum::Kind::Scoped : Enum::Kind::Legacy); add(k->region(), p, k, c); enums.push_back({ k, {} }); break; }
      case NAMESPACE: { auto* k = lex.make_namespace(parent);
         // names are given afterwards, as a front end does: none, the empty identifier (an unnamed namespace: the spelling the
         // unit's own global namespace carries), an ordinary one
         switch (rng.below(4)) { case 0: break; case 1: k->id = &lex.get_identifier(u8""); ctx().count("namespaces_named_by_the_empty_identifier"); break; default: k->id = &lex.get_identifier(u8"ns"); break; }
         add(k->region(), p, k, c, &k->body); break; }
      case CLOSURE: { auto* k = lex.make_closure(parent); add(k->region(), p, k, c, &k->body); break; }
      case BLOCK: { auto* b = lex.make_block(parent); int ri = add(b->region(), p, b, c, &b->lexical_region); blocks.push_back(b); block_region.push_back(ri); break; }
      case HANDLER: {
         if (blocks.empty()) { trace += "(n/a) "; return; }
         std::size_t bi = rng.below(blocks.size());
         auto* b = blocks[bi];
         const int guarded_parent = regions[block_region[bi]].parent;
         const auto before = b->handlers().size();
         auto* id = rng.pick(ids); auto* ty = rng.pick(types);
         auto* h = b->new_handler(*id, *ty);
         if (b->handlers().size() != before + 1 || &*b->handlers().position(before) != h) V("handler:not-appended", "new_handler did not append the handler to its block");
         const Region& body_region = h->body().region();
         const Region* eh = nullptr;
         try { eh = &body_region.enclosing(); } catch (const std::logic_error&) { V("handler:body-region-has-no-enclosing", "a handler body's region has no enclosing region"); return; }
         // the region binding exactly the exception parameter, enclosed by the region that encloses the guarded block
         int ei = add(*eh, guarded_parent, nullptr, c);
         regions[ei].owner = eh->owner().is_valid() ? &eh->owner().get() : nullptr;     // the property does not prescribe an owner for it
         auto& els = eh->bindings().elements();
         ctx().count("handler_region_checks");
         if (els.size() != 1 || static_cast<const Node*>(&*els.begin()) != static_cast<const Node*>(&h->exception()))
            V("handler:eh-region-bindings", "the region enclosing a handler's body does not bind exactly the handler's exception parameter");
         if (&h->exception().name() != id || &h->exception().type() != ty) V("handler:exception-decl", "the exception parameter does not report its name/type");
         add(body_region, ei, &h->body(), c, &h->body().lexical_region);
         break; }
      case MAPPING: case LAMBDA: case REQUIRES: case FUN_MORPHISM: {
         Mapping_level lvl { std::size_t(rng.below(5)) };
         ParamList pl; pl.level = lvl;
         const Expr* owner = nullptr;
         if (c == MAPPING) { auto* m = lex.make_mapping(parent, lvl); pl.list = &m->parameters(); pl.impl_list = &m->inputs; owner = m; }
         else if (c == LAMBDA) { auto* m = lex.make_lambda(parent, lvl); pl.list = &m->parameters(); pl.impl_list = &m->inputs; owner = m; }
         else if (c == REQUIRES) { auto* m = lex.make_requires(parent, lvl); pl.list = &m->parameters(); pl.impl_list = &m->formals; }
         else { auto* m = regions[regions[p].root].as_impl->make_function_morphism(parent, lvl); pl.list = &m->parameters(); pl.impl_list = &m->inputs;
                if (rng.chance(50)) { auto* spread = lex.make_specifiers_spread(); m->inputs.parms.owned_by = spread; owner = spread; } }   // owner set by the client
         add(pl.list->region(), p, owner, c);
         plists.push_back(pl);
         break; }
      case WHERE: { auto* w = lex.make_where(parent); add(w->region, p, nullptr, c, &w->region); break; }
      }
   }

   // a question asked of a list between two additions: one member that is not the first is looked up by its name in its home region
   // and another one is read by position; asking changes nothing (the later checks judge positions and order)
   template<class Members> void ask_between_additions(const Members& members)
   {
      if (members.size() < 2) return;
      auto* m = members[1 + rng.below(members.size() - 1)];
      try { auto& sc = m->home_region().bindings(); (void)sc[m->name()].is_valid(); (void)&*sc.elements().position(rng.below(sc.size() - 1)); ctx().count("lookups_between_member_additions"); }
      catch (const std::logic_error&) { }
   }

   void grow_members()
   {
      // a few members into random lists
      if (!plists.empty()) {
         auto& pl = rng.pick(plists);
         int k = 1 + int(rng.below(4));
         for (int i = 0; i < k; ++i) { if (rng.chance(60)) ask_between_additions(pl.members); pl.members.push_back(pl.impl_list->add_member(*rng.pick(ids), *rng.pick(types))); }
         if (rng.chance(50)) ask_between_additions(pl.members);
         trace += "params+" + std::to_string(k) + " ";
      }
      if (!enums.empty()) { auto& e = rng.pick(enums); int k = 1 + int(rng.below(4)); for (int i = 0; i < k; ++i) { if (rng.chance(60)) ask_between_additions(e.members); e.members.push_back(e.e->add_member(*rng.pick(ids))); } if (rng.chance(50)) ask_between_additions(e.members); trace += "enumerators+" + std::to_string(k) + " "; }
      if (!classes.empty()) {
         auto& c = rng.pick(classes); int k = 1 + int(rng.below(3));
         for (int i = 0; i < k; ++i) { if (rng.chance(60)) ask_between_additions(c.members); c.members.push_back(c.c->declare_base(*classes[rng.below(classes.size())].c)); }
         if (rng.chance(50)) ask_between_additions(c.members);
         trace += "bases+" + std::to_string(k) + " ";
      }
   }

   void check_region(int i)
   {
      const RNode& n = regions[i];
      const Region& r = *n.r;
      const std::string k = n.construct >= 0 ? construct_name[n.construct] : "global";
      ctx().count("region_checks");
      ctx().eval(hash_mix(hash_mix(hash_bytes(k), n.depth), n.parent < 0 ? 0 : regions[n.parent].construct + 2));
      if (n.parent < 0) {
         if (!r.global()) V("global:root-not-global", "a unit's global region does not report itself global");
         try { (void)&r.enclosing(); V("global:root-has-enclosing", "enclosing() of a global region returned instead of raising logic_error"); }
         catch (const std::logic_error&) { }
         catch (...) { V("global:root-enclosing-other-exception", "enclosing() of a global region raised something that is not a logic_error"); }
      } else {
         if (r.global()) V("global:inner-region-global:" + k, "a region other than the root reports itself global");
         const Region* e = nullptr;
         try { e = &r.enclosing(); } catch (const std::exception&) { V("enclosing:throws:" + k, "enclosing() of a nested region raised"); return; }
         if (e != regions[n.parent].r) V("enclosing:not-creation-region:" + k, "a region is not enclosed by the region it was created in");
         // walk outward
         int steps = 0; const Region* cur = &r;
         while (!cur->global() && steps <= n.depth + 1) { cur = &cur->enclosing(); ++steps; }
         ctx().count("outward_walks");
         if (steps != n.depth) V("walk:depth:" + k, "walking outward takes " + std::to_string(steps) + " steps, the nesting depth is " + std::to_string(n.depth));
         else if (cur != regions[n.root].r) V("walk:other-root:" + k, "walking outward does not end at the unit's global region");
      }
      auto o = r.owner();
      const bool prescribes = n.construct != HANDLER || n.owner != nullptr;
      if (n.owner) {
         if (!o.is_valid()) V("owner:missing:" + k + (n.construct == HANDLER ? "-body-block" : ""), "the region of a " + k + " does not name its entity as owner");
         else if (static_cast<const Node*>(&o.get()) != static_cast<const Node*>(n.owner)) V("owner:wrong:" + k, "the region of a " + k + " names another node as owner");
      } else if (prescribes && o.is_valid()) V("owner:unexpected:" + k, "a region that belongs to no entity reports an owner");
   }

   void check_members()
   {
      for (auto& pl : plists) {
         auto& els = pl.list->elements();
         ctx().count("member_list_checks");
         if (els.size() != pl.members.size()) { V("members:parameter:size", "a parameter list does not list the parameters added"); continue; }
         std::size_t i = 0;
         for (auto& p : els) {
            ctx().count("members_checked:parameter");
            if (&p != pl.members[i]) V("members:parameter:order", "parameter " + std::to_string(i) + " is not the one added at that position");
            if (&p.home_region() != &pl.list->region()) V("members:parameter:home-region", "a parameter's home region is not the region of its list");
            if (p.level() != pl.level || pl.list->level() != pl.level) V("members:parameter:level", "a parameter does not report the nesting level of its list");
            if (std::size_t(p.position()) != i) V("members:parameter:position", "a parameter's position is not its zero-based index");
            ++i;
         }
         // the region of the list binds exactly the parameters
         if (pl.list->region().bindings().size() != pl.members.size()) V("members:parameter:region-bindings", "the parameter region does not bind exactly the parameters");
      }
      for (auto& e : enums) {
         auto& els = e.e->members();
         ctx().count("member_list_checks");
         if (els.size() != e.members.size()) { V("members:enumerator:size", "an enumeration does not list the enumerators added"); continue; }
         std::size_t i = 0;
         for (auto& m : els) {
            ctx().count("members_checked:enumerator");
            if (&m != e.members[i]) V("members:enumerator:order", "enumerator " + std::to_string(i) + " is not the one added at that position");
            if (&m.home_region() != &e.e->region()) V("members:enumerator:home-region", "an enumerator's home region is not the enumeration's region");
            if (std::size_t(m.position()) != i) V("members:enumerator:position", "an enumerator's position is not its zero-based index");
            ++i;
         }
      }
      for (auto& c : classes) {
         auto& els = c.c->bases();
         ctx().count("member_list_checks");
         if (els.size() != c.members.size()) { V("members:base:size", "a class does not list the bases declared"); continue; }
         std::size_t i = 0;
         for (auto& b : els) {
            ctx().count("members_checked:base");
            if (&b != c.members[i]) V("members:base:order", "base " + std::to_string(i) + " is not the one declared at that position");
            if (std::size_t(b.position()) != i) V("members:base:position", "a base's position is not its zero-based index");
            // home region = the region of the base list: binds exactly the bases, is owned by the class, enclosed by the class's enclosing region
            const Region& hr = b.home_region();
            if (&hr != &c.members[0]->home_region()) V("members:base:home-region-differs", "bases of one class report different home regions");
            auto o = hr.owner();
            if (!o.is_valid() || static_cast<const Node*>(&o.get()) != static_cast<const Node*>(c.c)) V("members:base:home-region-owner", "the home region of a base is not owned by the class");
            if (hr.bindings().size() != c.members.size()) V("members:base:home-region-bindings", "the home region of a base does not bind exactly the bases");
            if (&hr.enclosing() != &c.c->region().enclosing()) V("members:base:home-region-enclosing", "the base region is not enclosed by the region the class was created in");
            if (hr.global()) V("global:inner-region-global:base-region", "a base region reports itself global");
            ++i;
         }
      }
   }
   void check_all() { for (int i = 0; i < int(regions.size()); ++i) check_region(i); check_members(); ctx().count("full_checks"); }
};

void random_program(std::uint64_t seed, int steps, int max_depth, bool every_step)
{
   World W(seed);
   W.new_unit(0);
   if (W.rng.chance(50)) W.new_unit(1);
   for (int s = 0; s < steps; ++s) {
      if (W.rng.chance(2)) W.new_unit(int(W.rng.below(2)));
      // parent: the most recent region (depth-first), or any earlier one (interleaved creation under several parents)
      int p = W.rng.chance(55) ? int(W.regions.size()) - 1 - int(W.rng.below(std::min<std::size_t>(3, W.regions.size()))) : int(W.rng.below(W.regions.size()));
      if (W.regions[p].depth >= max_depth) p = int(W.rng.below(W.regions.size()));
      if (W.regions[p].depth >= max_depth) continue;
      W.open(p, int(W.rng.below(NCONSTRUCT)));
      if (W.rng.chance(30)) W.grow_members();
      if (every_step) W.check_all();
      else if (s % 64 == 63) { for (int k = 0; k < 16; ++k) W.check_region(int(W.rng.below(W.regions.size()))); }
   }
   W.check_all();
   ctx().count("programs");
   ctx().sample(J().s("kind", "nesting-program").n("steps", steps).n("regions", (long long)W.regions.size()).s("program_tail", W.trace.substr(0, 300)).str(), 3);
}

// degenerate chains: one construct nested to great depth
void chain(std::uint64_t seed, int depth)
{
   World W(seed);
   W.new_unit(int(W.rng.below(2)));
   const int cs[] = { SUBREGION, CLASS, NAMESPACE, BLOCK, MAPPING, WHERE, UNION, LAMBDA };
   const int c = cs[W.rng.below(8)];
   const bool mixed = W.rng.chance(40);
   for (int d = 0; d < depth; ++d) {
      int cc = mixed ? cs[W.rng.below(8)] : c;
      int p = int(W.regions.size()) - 1;
      if (cc == SUBREGION && !W.regions[p].as_impl) cc = CLASS;
      W.open(p, cc);
   }
   W.check_all();
   ctx().count("chains");
}
// Member lists longer than any narrow index type could count: positions and levels at and beyond 2^8 and 2^16.
// Positions are read from the members themselves (the list's own indexing is linear per access); the list is probed at a few
// indices around the boundaries.  `which`: 0 mapping parameters, 1 enumerators, 2 bases, 3 lambda parameters.
void long_list(std::uint64_t seed, int which)
{
   Rng rng(seed);
   impl::Lexicon lex; impl::Translation_unit unit { lex };
   const Lexicon& L = lex; auto& greg = *unit.global_region();
   const std::size_t n = 65536 + 24 + rng.below(40);
   auto& id = lex.get_identifier(u8"m");
   const char* kind = which == 0 ? "parameter" : which == 1 ? "enumerator" : which == 2 ? "base" : "lambda-parameter";
   auto V = [&](const std::string& what, const std::string& msg, std::size_t i) { ctx().viol(std::string("long-list:") + kind + ":" + what, msg, J().s("kind", kind).n("members", (long long)n).n("index", (long long)i).str()); };
   std::vector<const Decl*> ms; ms.reserve(n);
   const Sequence<Decl>* seq_p = nullptr; const Sequence<Enumerator>* seq_e = nullptr; const Sequence<Base_type>* seq_b = nullptr; const Sequence<Parameter>* seq_pp = nullptr;
   const Region* home = nullptr;
   const Mapping_level lvl { 1 + rng.below(3) };
   if (which == 0) { auto* m = lex.make_mapping(greg, lvl); for (std::size_t i = 0; i < n; ++i) ms.push_back(m->param(id, L.int_type())); seq_pp = &m->parameters().elements(); home = &m->parameters().region(); }
   else if (which == 1) { auto* e = lex.make_enum(greg, Enum::Kind::Scoped); for (std::size_t i = 0; i < n; ++i) ms.push_back(e->add_member(id)); seq_e = &e->members(); home = &e->region(); }
   else if (which == 2) { auto* c = lex.make_class(greg); for (std::size_t i = 0; i < n; ++i) ms.push_back(c->declare_base(L.int_type())); seq_b = &c->bases(); }
   else { auto* m = lex.make_lambda(greg, lvl); for (std::size_t i = 0; i < n; ++i) ms.push_back(m->inputs.add_member(id, L.int_type())); seq_pp = &m->parameters().elements(); home = &m->parameters().region(); }
   (void)seq_p;
   for (std::size_t i = 0; i < n; ++i) {
      std::size_t pos = ~std::size_t(0);
      if (auto p = util::view<Parameter>(*ms[i])) { pos = std::size_t(p->position()); if (p->level() != lvl) V("level", "a parameter far down a long list does not report the level of its list", i); }
      else if (auto e = util::view<Enumerator>(*ms[i])) pos = std::size_t(e->position());
      else if (auto b = util::view<Base_type>(*ms[i])) pos = std::size_t(b->position());
      if (pos != i) { V("position", std::string("member ") + (i < 256 ? "below 2^8" : i < 65536 ? "between 2^8 and 2^16" : "at or beyond 2^16") + " reports a position that is not its zero-based index", i); break; }
      if (home && &ms[i]->home_region() != home) { V("home-region", "a member far down a long list does not report the region of its list", i); break; }
      ctx().count(std::string("long_list_members_checked:") + kind);
   }
   const std::size_t probes[] = { 0, 255, 256, 257, 65535, 65536, 65537, n - 1 };
   for (auto i : probes) {
      const Decl* got = seq_pp ? static_cast<const Decl*>(&*seq_pp->position(i)) : seq_e ? static_cast<const Decl*>(&*seq_e->position(i)) : static_cast<const Decl*>(&*seq_b->position(i));
      if (got != ms[i]) V("order", "element " + std::to_string(i) + " of a long list is not the member added at that position", i);
   }
   const std::size_t sz = seq_pp ? seq_pp->size() : seq_e ? seq_e->size() : seq_b->size();
   if (sz != n) V("size", "a long list reports " + std::to_string(sz) + " members, " + std::to_string(n) + " were added", n);
   ctx().count("long_lists"); ctx().maxi("longest_member_list", (long long)n);
   ctx().eval(hash_mix(0x10461157, std::uint64_t(which)));
}

// Position-reporting containers given successive lifetimes in ONE storage (what a recycled heap block or a re-used stack slot
// does by itself): the members of the container that lives there now are numbered from zero, at its own level, in its own
// region, whatever the container that lived there before held.  Mappings, lambdas, enumerations and classes: first eight
// consecutive lifetimes of one kind with nothing else added to in between (the last list added to before a container is built is
// the one that died in that storage), then all four kinds interleaved.
void successive_lifetimes(std::uint64_t seed)
{
   Rng rng(seed);
   impl::Lexicon lex; impl::Translation_unit unit { lex };
   const Lexicon& L = lex; auto& greg = *unit.global_region();
   auto* sub = greg.make_subregion();
   alignas(64) static std::byte slot_m[sizeof(impl::Mapping)]; alignas(64) static std::byte slot_l[sizeof(impl::Lambda)];
   alignas(64) static std::byte slot_e[sizeof(impl::Enum)]; alignas(64) static std::byte slot_c[sizeof(impl::Class)];
   auto V = [&](const std::string& what, const std::string& msg, int life, std::size_t i) { ctx().viol("successive-lifetimes:" + what, msg, J().n("lifetime", life).n("index", (long long)i).str()); };
   std::vector<const Name*> ids; for (int i = 0; i < 12; ++i) ids.push_back(&lex.get_identifier(widen("sl" + std::to_string(i))));
   for (int pass = 0; pass < 5; ++pass)
   for (int life = 0; life < 8; ++life) {
      const Region& where = life % 2 ? static_cast<const Region&>(*sub) : static_cast<const Region&>(greg);
      const std::size_t k = 1 + rng.below(9);
      const Mapping_level lvl { std::size_t(life % 3) };
      if (pass == 0 || pass == 4)
      {  auto* m = std::construct_at(reinterpret_cast<impl::Mapping*>(slot_m), where, lvl);
         for (std::size_t i = 0; i < k; ++i) {
            auto* p = m->param(*ids[i], L.int_type());
            if (std::size_t(p->position()) != i) { V("parameter:position", "parameter " + std::to_string(i) + " of a mapping built where an earlier mapping lived reports position " + std::to_string(std::size_t(p->position())), life, i); break; }
            if (p->level() != lvl) V("parameter:level", "a parameter of a mapping built where an earlier mapping lived reports another level than its list", life, i);
            if (&p->home_region() != &m->parameters().region()) V("parameter:home-region", "a parameter of a mapping built where an earlier mapping lived does not report the region of its list", life, i);
         }
         if (m->parameters().size() != k) V("parameter:size", "a parameter list built where an earlier one lived reports " + std::to_string(m->parameters().size()) + " members, " + std::to_string(k) + " were added", life, k);
         if (&m->parameters().region().enclosing() != &where) V("parameter:enclosing", "the parameter region of a mapping built where an earlier mapping lived is not enclosed by the region it was created in", life, 0);
         ctx().count("containers_built_where_an_earlier_one_lived");
         std::destroy_at(m); }
      if (pass == 1 || pass == 4)
      {  auto* m = std::construct_at(reinterpret_cast<impl::Lambda*>(slot_l), where, lvl);
         for (std::size_t i = 0; i < k; ++i) {
            auto* p = m->inputs.add_member(*ids[i], L.int_type());
            if (std::size_t(p->position()) != i) { V("lambda-parameter:position", "parameter " + std::to_string(i) + " of a lambda built where an earlier lambda lived reports position " + std::to_string(std::size_t(p->position())), life, i); break; }
            if (p->level() != lvl) V("lambda-parameter:level", "a parameter of a lambda built where an earlier lambda lived reports another level than its list", life, i);
         }
         ctx().count("containers_built_where_an_earlier_one_lived");
         std::destroy_at(m); }
      if (pass == 2 || pass == 4)
      {  auto* e = std::construct_at(reinterpret_cast<impl::Enum*>(slot_e), where, Enum::Kind::Scoped);
         for (std::size_t i = 0; i < k + 2; ++i) {
            auto* en = e->add_member(*ids[i]);
            if (std::size_t(en->position()) != i) { V("enumerator:position", "enumerator " + std::to_string(i) + " of an enumeration built where an earlier one lived reports position " + std::to_string(std::size_t(en->position())), life, i); break; }
            if (&en->home_region() != &e->region()) V("enumerator:home-region", "an enumerator of an enumeration built where an earlier one lived does not report its enumeration's region", life, i);
         }
         if (!e->region().owner().is_valid() || &e->region().owner().get() != static_cast<const Expr*>(e)) V("enum:owner", "the region of an enumeration built where an earlier one lived does not name it as owner", life, 0);
         ctx().count("containers_built_where_an_earlier_one_lived");
         std::destroy_at(e); }
      if (pass == 3 || pass == 4)
      {  auto* c = std::construct_at(reinterpret_cast<impl::Class*>(slot_c), where);
         for (std::size_t i = 0; i < k + 1; ++i) {
            auto* b = c->declare_base(i % 2 ? L.int_type() : L.char_type());
            if (std::size_t(b->position()) != i) { V("base:position", "base " + std::to_string(i) + " of a class built where an earlier class lived reports position " + std::to_string(std::size_t(b->position())), life, i); break; }
         }
         if (!c->region().owner().is_valid() || &c->region().owner().get() != static_cast<const Expr*>(c)) V("class:owner", "the region of a class built where an earlier one lived does not name it as owner", life, 0);
         if (&c->region().enclosing() != &where) V("class:enclosing", "the region of a class built where an earlier one lived is not enclosed by the region it was created in", life, 0);
         ctx().count("containers_built_where_an_earlier_one_lived");
         std::destroy_at(c); }
      ctx().eval(hash_mix(0x5ccE55, std::uint64_t(life) * 16 + k));
   }
}

// nesting levels at and beyond the widths a narrow field could hold
void wide_levels(std::uint64_t seed)
{
   Rng rng(seed);
   impl::Lexicon lex; impl::Translation_unit unit { lex };
   const Lexicon& L = lex; auto& greg = *unit.global_region();
   for (std::size_t lv : { std::size_t(0), std::size_t(1), std::size_t(255), std::size_t(256), std::size_t(65535), std::size_t(65536), std::size_t(1) << 31, (std::size_t(1) << 32) + 5, ~std::size_t(0) >> 1 }) {
      auto* m = lex.make_mapping(greg, Mapping_level { lv });
      auto* p = m->param(lex.get_identifier(u8"p"), L.int_type());
      if (std::size_t(m->parameters().level()) != lv || std::size_t(p->level()) != lv)
         ctx().viol("wide-level:parameter", "a mapping created at nesting level " + std::to_string(lv) + " reports another level through its parameter list or parameter", J().n("level", (long long)lv).str());
      ctx().count("wide_levels_checked");
   }
}
} // namespace

static void body(Ctx& C)
{
   C.rule("a case = one region of a random nesting program, distinct by (construct, depth, parent construct); programs nest sub-regions, classes "
          "(with base regions), unions, enums, namespaces, closures, blocks, handlers, mappings, lambdas, requires-expressions, function "
          "declarators and where-expressions under any earlier region in any order, in translation units, interface units and module units; "
          "every region is compared with a parent/owner/depth model (enclosing(), outward walk to the unit's global region, global(), owner()), "
          "parameters/enumerators/bases with their home region, level and index, units with their global namespace and module links");
   C.assume("the property prescribes no owner for plain sub-regions, where-regions, requires-parameter regions, declarator morphisms (unless the client sets one) and the handler's exception region; those are required to report none / are left unconstrained respectively");
   for (auto k : { "created:subregion", "created:class", "created:union", "created:enum", "created:namespace", "created:closure", "created:block", "created:handler",
                   "created:mapping", "created:lambda", "created:requires", "created:function-morphism", "created:where", "created:global", "handler_region_checks",
                   "members_checked:parameter", "members_checked:enumerator", "members_checked:base", "outward_walks", "lookups_between_member_additions", "units_checked", "chains" }) C.need(k);
   Rng seeds(C.seed);
   const int shorts = C.thorough ? 3000 : 60, longs = C.thorough ? 40 : 2;
   for (int i = 0; i < shorts; ++i) random_program(seeds.next(), 10 + int(seeds.below(70)), C.thorough ? 60 : 12, true);
   for (int i = 0; i < longs; ++i) random_program(seeds.next(), C.thorough ? 6000 : 1500, C.thorough ? 200 : 40, false);
   for (int i = 0; i < (C.thorough ? 12 : 2); ++i) chain(seeds.next(), C.thorough ? 2000 : 400);
   // one long list per worker (quadratic to build: a parameter or base list of 65 600 members costs 10-20 s)
   wide_levels(seeds.next());
   for (int i = 0; i < (C.thorough ? 40 : 3); ++i) successive_lifetimes(seeds.next());
   if (C.worker < 4 || C.thorough) long_list(seeds.next(), C.worker % 4);
   for (auto k : { "namespaces_named_by_the_empty_identifier", "long_lists", "wide_levels_checked", "containers_built_where_an_earlier_one_lived", "long_list_members_checked:parameter", "long_list_members_checked:enumerator", "long_list_members_checked:base", "long_list_members_checked:lambda-parameter" }) C.need(k);
}

int main(int argc, char** argv) { return guarded_main(argc, argv, body); }
