// C10 -- specifier and qualifier sets are a Boolean algebra with exact decomposition.
// Ground truth are NAMES: every judgement goes through Lexicon::specifiers(name) and
// Lexicon::decompose(set) -> names; raw bits are never interpreted by the oracle.
#include "common.hpp"
#include "reserved.hpp"
#include <ipr/impl>
#include <deque>
#include <memory>
#include <cstring>
#include <unordered_map>
#include <algorithm>

using namespace vh;
using namespace ipr;

template<class Set, class Basic, std::size_t N>
struct Family {
   const char* tag;
   impl::Lexicon& lex;
   const Lexicon& L;
   const std::u8string_view (&names)[N];
   Set single[N];                                          // S(w) as the Lexicon maps it
   std::unordered_map<const Logogram*, int> index;         // logogram node -> position in our name list

   Family(const char* t, impl::Lexicon& l, const std::u8string_view (&nm)[N]) : tag(t), lex(l), L(l), names(nm) { }

   Set of_name(std::u8string_view w) const
   {
      // The question in every form a client can write it: through the interface with the name wrapped, on the implementation object
      // with the name wrapped, and on the implementation object with the bare logogram (which converts to the name).  The forms
      // must agree: all answer with the same set, or all refuse.
      const Logogram& logo = lex.get_logogram(lex.get_string(w));
      Basic b { logo };
      auto ask = [&](int form, Set& out) -> bool {
         try {
            if constexpr (std::is_same_v<Set, Specifiers>) out = form == 0 ? L.specifiers(b) : form == 1 ? lex.specifiers(b) : lex.specifiers(logo);
            else out = form == 0 ? L.qualifiers(b) : form == 1 ? lex.qualifiers(b) : lex.qualifiers(logo);
            return true;
         } catch (...) { return false; }      // a refusal is any exception (the library throws a class of its own)
      };
      Set r[3] { }; bool ok[3];
      for (int f = 0; f < 3; ++f) ok[f] = ask(f, r[f]);
      ctx().count("names_asked_in_every_call_form");
      for (int f = 1; f < 3; ++f) {
         if (ok[f] != ok[0]) ctx().viol(std::string(tag) + (ok[f] ? ":unknown-name-answered" : ":basic-name-refused") + ":call-form-" + (f == 1 ? "implementation-object" : "bare-logogram"), std::string("the name '") + narrow(w) + "' is " + (ok[f] ? "answered" : "refused") + " when asked " + (f == 1 ? "on the implementation object" : "on the implementation object with the bare logogram") + " but " + (ok[0] ? "answered" : "refused") + " through the interface");
         else if (ok[f] && r[f] != r[0]) ctx().viol(std::string(tag) + ":call-forms-disagree", std::string("the name '") + narrow(w) + "' maps to different sets depending on the form of the call");
      }
      if (!ok[0]) throw std::domain_error("refused");
      return r[0];
   }
   // names(set) as a bitmask over OUR name list, via decompose; reports repeats / unknown elements
   std::uint32_t names_of(Set s, bool& ok) const
   {
      std::uint32_t m = 0;
      for (auto& b : L.decompose(s)) {
         auto it = index.find(&b.logogram());
         if (it == index.end()) { ctx().viol(std::string(tag) + ":decompose-invented", "decompose returned a name that is not a basic name"); ok = false; continue; }
         if (m & (1u << it->second)) { ctx().viol(std::string(tag) + ":decompose-repeated", "decompose returned the same name twice"); ok = false; }
         m |= 1u << it->second;
      }
      return m;
   }
   bool init()
   {
      bool ok = true;
      for (std::size_t i = 0; i < N; ++i) {
         try { single[i] = of_name(names[i]); }
         catch (...) { ctx().viol(std::string(tag) + ":basic-name-refused", "basic name refused: " + narrow(names[i])); return false; }
         index[&lex.get_logogram(lex.get_string(names[i]))] = int(i);
         if (util::rep(single[i]) == 0) { ctx().viol(std::string(tag) + ":empty-singleton", "basic name maps to the empty set: " + narrow(names[i])); ok = false; }
         for (std::size_t j = 0; j < i; ++j)
            if (single[i] == single[j]) { ctx().viol(std::string(tag) + ":not-distinct", "two basic names map to the same set: " + narrow(names[i]) + " / " + narrow(names[j])); ok = false; }
      }
      // the same names carried by String nodes that this Lexicon did not intern (a free-standing node, another Lexicon's word)
      // and by an exact-size unterminated buffer: the mapping goes by the spelling
      {
         static std::deque<impl::String> free_standing;
         impl::Lexicon other;
         for (std::size_t i = 0; i < N; ++i) {
            free_standing.emplace_back(names[i]);
            std::unique_ptr<char8_t[]> exact(new char8_t[names[i].size()]); std::memcpy(exact.get(), names[i].data(), names[i].size());
            const String* routes[] = { &free_standing.back(), &other.get_string(names[i]), &lex.get_string(util::word_view(exact.get(), names[i].size())) };
            for (auto sp : routes) {
               ctx().count(std::string(tag) + "_names_through_other_string_nodes");
               try {
                  Basic b { lex.get_logogram(*sp) };
                  Set got; if constexpr (std::is_same_v<Set, Specifiers>) got = L.specifiers(b); else got = L.qualifiers(b);
                  if (!(got == single[i])) { ctx().viol(std::string(tag) + ":other-string-node-maps-differently", "a basic name carried by a String node that the Lexicon did not intern maps to another set: " + narrow(names[i])); ok = false; }
               } catch (...) { ctx().viol(std::string(tag) + ":basic-name-refused:other-string-node", "basic name refused when carried by a String node that the Lexicon did not intern: " + narrow(names[i])); ok = false; }
            }
         }
      }
      for (std::size_t i = 0; i < N; ++i) {
         bool k = true;
         if (names_of(single[i], k) != (1u << i)) { ctx().viol(std::string(tag) + ":singleton-decomposition", "decompose(S(w)) != [w] for " + narrow(names[i])); ok = false; }
         ctx().count(std::string(tag) + "_singletons_checked");
      }
      return ok;
   }
   Set build(std::uint32_t mask) const
   {
      Set s { };
      for (std::size_t i = 0; i < N; ++i) if (mask & (1u << i)) s |= single[i];
      return s;
   }
   // decompose(union of S(w), w in A) == A for all subsets A handled by this worker
   void all_subsets(int worker, int workers)
   {
      const std::uint32_t total = 1u << N;
      for (std::uint32_t a = std::uint32_t(worker); a < total; a += std::uint32_t(workers)) {
         bool ok = true;
         std::uint32_t got = names_of(build(a), ok);
         if (got != a) {
            const char* what = (got & ~a) ? ":decompose-invented" : ":decompose-lost";
            ctx().viol(std::string(tag) + what, "decompose(union of a subset) != that subset", J().u("subset_mask", a).u("decomposed_mask", got).str());
         }
         ctx().eval(hash_mix(a, N), a != 0);
         ctx().count(std::string(tag) + "_subsets_decomposed");
      }
   }
   // binary operations judged on name sets
   void binary(std::uint32_t a, std::uint32_t b)
   {
      Set A = build(a), B = build(b);
      bool ok = true;
      auto fail = [&](const char* op) { ctx().viol(std::string(tag) + ":" + op, std::string(op) + " does not act as the corresponding set operation on names", J().u("a", a).u("b", b).str()); };
      if (names_of(A | B, ok) != (a | b)) fail("union");
      if (names_of(A & B, ok) != (a & b)) fail("intersection");
      if (names_of(A ^ B, ok) != (a ^ b)) fail("symmetric-difference");
      if (implies(A, B) != ((b & ~a) == 0)) fail("implies");
      Set t = A; t |= B; if (t != (A | B)) fail("or-assign");
      t = A; t &= B; if (t != (A & B)) fail("and-assign");
      t = A; t ^= B; if (t != (A ^ B)) fail("xor-assign");
      if ((A | B) != (B | A) || (A & B) != (B & A) || (A ^ B) != (B ^ A)) fail("commutativity");
      ctx().count(std::string(tag) + "_binary_pairs");
   }
   void refused(std::u8string_view w, const char* kind)
   {
      ctx().count(std::string(tag) + "_unknown_names_asked");
      try {
         Set s = of_name(w);
         ctx().viol(std::string(tag) + ":unknown-name-answered:" + kind, "asking for the set of the non-basic name '" + narrow(w) + "' was answered with " + std::to_string(util::rep(s)));
      } catch (...) { ctx().count(std::string(tag) + "_unknown_names_refused"); }
   }
};

// The algebra on the whole coordinate space (both set types are as wide as a pointer, and the interface keeps the coordinates
// beyond the basis open for extensions): membership of coordinate i is judged through the algebra's own atoms,
// has(x, i) := (x & atom_i) == atom_i, and union / intersection / symmetric difference / implies / the compound assignments must
// act coordinate by coordinate on all 64 of them - for the basis coordinates and for the ones above alike.
template<class Set> void wide_algebra(const char* tag, Rng& rng, long long pairs)
{
   constexpr int W = int(sizeof(std::uintptr_t) * 8);
   auto atom = [](int i) { return Set(std::uintptr_t(1) << i); };
   auto has = [&](Set x, int i) { return (x & atom(i)) == atom(i); };
   auto fail = [&](const char* op, std::uintptr_t a, std::uintptr_t b) { ctx().viol(std::string(tag) + ":" + op + ":whole-coordinate-space", std::string(op) + " does not act coordinate by coordinate on sets that carry coordinates beyond the basis", J().u("a", a).u("b", b).str()); };
   for (int i = 0; i < W; ++i) for (int j = 0; j < W; ++j) {
      if (implies(atom(i), atom(j)) != (i == j)) fail("implies", std::uintptr_t(1) << i, std::uintptr_t(1) << j);
      if (!implies(atom(i) | atom(j), atom(j)) || !implies(atom(i) | atom(j), atom(i))) fail("implies", (std::uintptr_t(1) << i) | (std::uintptr_t(1) << j), std::uintptr_t(1) << j);
      if (i != j && implies(Set(~(std::uintptr_t(1) << j)), atom(j))) fail("implies", ~(std::uintptr_t(1) << j), std::uintptr_t(1) << j);
      ctx().count(std::string(tag) + "_atom_pairs");
   }
   for (long long n = 0; n < pairs; ++n) {
      std::uintptr_t a = std::uintptr_t(rng.next()), b = std::uintptr_t(rng.next());
      switch (rng.below(6)) {
      case 0: a &= std::uintptr_t(rng.next()); b &= std::uintptr_t(rng.next()) & std::uintptr_t(rng.next()); break;          // sparse
      case 1: b = a & std::uintptr_t(rng.next()); break;                                                                       // b within a
      case 2: b = (a & std::uintptr_t(rng.next())) | (std::uintptr_t(1) << rng.below(W)); break;                              // b within a, plus one coordinate
      case 3: a &= 0x3ffff; b = (a & std::uintptr_t(rng.next())) | (std::uintptr_t(1) << (18 + rng.below(W - 18))); break;     // a in the basis, b adds one coordinate above it
      case 4: a |= ~std::uintptr_t(0) << 32; b = a & ~(std::uintptr_t(1) << (32 + rng.below(W - 32))); std::swap(a, b); break; // they differ in one high coordinate only
      default: break;
      }
      const Set A = Set(a), B = Set(b), U = A | B, I = A & B, X = A ^ B;
      bool want_implies = true;
      for (int i = 0; i < W; ++i) {
         const bool ha = has(A, i), hb = has(B, i);
         if (ha != bool((a >> i) & 1) || hb != bool((b >> i) & 1)) fail("atom-membership", a, b);
         if (has(U, i) != (ha || hb)) fail("union", a, b);
         if (has(I, i) != (ha && hb)) fail("intersection", a, b);
         if (has(X, i) != (ha != hb)) fail("symmetric-difference", a, b);
         if (hb && !ha) want_implies = false;
      }
      if (implies(A, B) != want_implies) fail("implies", a, b);
      if (!implies(U, A) || !implies(U, B) || !implies(A, I) || !implies(B, I)) fail("implies", a, b);
      Set t = A; t |= B; if (t != U) fail("or-assign", a, b);
      t = A; t &= B; if (t != I) fail("and-assign", a, b);
      t = A; t ^= B; if (t != X) fail("xor-assign", a, b);
      ctx().count(std::string(tag) + "_pairs_over_the_whole_coordinate_space");
      ctx().eval(hash_mix(a, hash_mix(b, 64)), true);
   }
}

// The same mapping asked during static initialisation, before any initialiser of the library's own translation units can have
// run (a client's namespace-scope object that uses a Lexicon in its constructor; init_priority 101 is the earliest a program
// may ask for).  Only plain arrays are filled here; the answers are compared in body() with those obtained inside main().
struct EarlyProbe {
   bool ran = false, threw = false;
   std::uintptr_t spec[18] = { }, qual[3] = { };
   bool spec_refused[18] = { }, qual_refused[3] = { }, spec_decomp_ok[18] = { }, qual_decomp_ok[3] = { };
   std::uintptr_t all_specs = 0; std::size_t all_specs_decomposed = 0;
   bool unknown_answered = false;
   EarlyProbe()
   {
      try {
         impl::Lexicon lex; const Lexicon& L = lex;
         for (std::size_t i = 0; i < 18; ++i) {
            try {
               auto v = L.specifiers(Basic_specifier { lex.get_logogram(lex.get_string(basic_specifier_words[i])) });
               spec[i] = std::uintptr_t(util::rep(v)); all_specs |= spec[i];
               auto d = L.decompose(v); spec_decomp_ok[i] = d.size() == 1 && d[0].logogram().what().characters() == basic_specifier_words[i];
            } catch (...) { spec_refused[i] = true; }
         }
         for (std::size_t i = 0; i < 3; ++i) {
            try {
               auto v = L.qualifiers(Basic_qualifier { lex.get_logogram(lex.get_string(basic_qualifier_words[i])) });
               qual[i] = std::uintptr_t(util::rep(v));
               auto d = L.decompose(v); qual_decomp_ok[i] = d.size() == 1 && d[0].logogram().what().characters() == basic_qualifier_words[i];
            } catch (...) { qual_refused[i] = true; }
         }
         all_specs_decomposed = L.decompose(Specifiers(all_specs)).size();
         try { (void)L.specifiers(Basic_specifier { lex.get_logogram(lex.get_string(u8"not_a_specifier")) }); unknown_answered = true; } catch (...) { }
      } catch (...) { threw = true; }
      ran = true;
   }
};
__attribute__((init_priority(101))) static EarlyProbe early_probe;

static void body(Ctx& C)
{
   C.rule("a case = one subset of basic names (decomposition) or one pair of subsets (binary operations); exhaustive: all 2^18 "
          "specifier subsets and all 2^3 qualifier subsets for decompose(union)==subset, all singleton x subset pairs (18 x 2^18) "
          "and all 8 x 8 qualifier pairs for |,&,^,implies and the compound assignments; sampled: random subset pairs; plus the 17+3 "
          "named accessors against the mapping of their own name and every non-basic reserved word, dynamic and empty logogram "
          "against 'refused'.  All judgements are made on names obtained through decompose, never on raw bits");
   C.assume("the 18 specifier and 3 qualifier names of the pinned tree are the oracle list of basic names");
   impl::Lexicon lex;
   const Lexicon& L = lex;
   Family<Specifiers, Basic_specifier, 18> S("specifiers", lex, basic_specifier_words);
   Family<Qualifiers, Basic_qualifier, 3> Q("qualifiers", lex, basic_qualifier_words);
   bool ok = S.init() & Q.init();
   // named accessors equal the mapping of their own name
   auto accessors = [&C](const Lexicon& L, auto& S, auto& Q, const std::string& when) {
      struct Acc { const char8_t* name; Specifiers v; };
      Acc accs[] = {
         {u8"export", L.export_specifier()}, {u8"static", L.static_specifier()}, {u8"extern", L.extern_specifier()},
         {u8"mutable", L.mutable_specifier()}, {u8"thread_local", L.thread_local_specifier()}, {u8"register", L.register_specifier()},
         {u8"inline", L.inline_specifier()}, {u8"constexpr", L.constexpr_specifier()}, {u8"consteval", L.consteval_specifier()},
         {u8"virtual", L.virtual_specifier()}, {u8"=0", L.abstract_specifier()}, {u8"explicit", L.explicit_specifier()},
         {u8"friend", L.friend_specifier()}, {u8"typedef", L.typedef_specifier()}, {u8"public", L.public_specifier()},
         {u8"protected", L.protected_specifier()}, {u8"private", L.private_specifier()} };
      for (auto& a : accs) {
         C.count("named_accessors_checked");
         try { if (a.v != S.of_name(a.name)) C.viol("specifiers:accessor-mismatch" + when, "named accessor differs from specifiers(its own name): " + narrow(a.name)); }
         catch (...) { C.viol("specifiers:basic-name-refused" + when, "the name of a named accessor is refused: " + narrow(a.name)); }
      }
      struct QAcc { const char8_t* name; Qualifiers v; };
      QAcc qaccs[] = { {u8"const", L.const_qualifier()}, {u8"volatile", L.volatile_qualifier()}, {u8"restrict", L.restrict_qualifier()} };
      for (auto& a : qaccs) {
         C.count("named_accessors_checked");
         try { if (a.v != Q.of_name(a.name)) C.viol("qualifiers:accessor-mismatch" + when, "named accessor differs from qualifiers(its own name): " + narrow(a.name)); }
         catch (...) { C.viol("qualifiers:basic-name-refused" + when, "the name of a named accessor is refused: " + narrow(a.name)); }
      }
   };
   accessors(L, S, Q, "");
   // what the early probe saw during static initialisation must be what main() sees
   {
      const EarlyProbe& E = early_probe;
      C.count("questions_asked_during_static_initialisation", E.ran ? 18 + 3 + 2 : 0);
      if (!E.ran || E.threw) C.viol("static-initialisation:lexicon-unusable", "a Lexicon built and asked during static initialisation (constructor of a namespace-scope object) raised an exception");
      else {
         for (std::size_t i = 0; i < 18; ++i) {
            if (E.spec_refused[i]) C.viol("specifiers:basic-name-refused:during-static-initialisation", "a basic specifier name is refused when asked during static initialisation: " + narrow(basic_specifier_words[i]));
            else if (E.spec[i] != std::uintptr_t(util::rep(S.single[i]))) C.viol("specifiers:mapping-differs:during-static-initialisation", "a basic specifier name maps to another set during static initialisation than inside main(): " + narrow(basic_specifier_words[i]));
            else if (!E.spec_decomp_ok[i]) C.viol("specifiers:singleton-decomposition:during-static-initialisation", "decompose(S(w)) != [w] during static initialisation for " + narrow(basic_specifier_words[i]));
         }
         for (std::size_t i = 0; i < 3; ++i) {
            if (E.qual_refused[i]) C.viol("qualifiers:basic-name-refused:during-static-initialisation", "a basic qualifier name is refused when asked during static initialisation: " + narrow(basic_qualifier_words[i]));
            else if (E.qual[i] != std::uintptr_t(util::rep(Q.single[i]))) C.viol("qualifiers:mapping-differs:during-static-initialisation", "a basic qualifier name maps to another set during static initialisation than inside main(): " + narrow(basic_qualifier_words[i]));
            else if (!E.qual_decomp_ok[i]) C.viol("qualifiers:singleton-decomposition:during-static-initialisation", "decompose(S(w)) != [w] during static initialisation for " + narrow(basic_qualifier_words[i]));
         }
         if (E.all_specs_decomposed != 18) C.viol("specifiers:decompose-size:during-static-initialisation", "the union of all 18 basic specifiers decomposes into " + std::to_string(E.all_specs_decomposed) + " names during static initialisation");
         if (E.unknown_answered) C.viol("specifiers:unknown-name-answered:during-static-initialisation", "an unknown name was given a set during static initialisation");
      }
   }
   // The same questions once every other word-keyed factory of the Lexicon has been asked for the basic names (a calling
   // convention, a linkage, an identifier, an operator, a suffix or a label spelled like a specifier or qualifier), in a
   // Lexicon that mapped the names before (ours) and in one that is asked only afterwards: the mapping goes by the spelling,
   // whatever else that spelling designates in the Lexicon.
   auto other_factories_first = [&](impl::Lexicon& X, const char* when) {
      for (int round = 0; round < 2; ++round) {
         auto plant = [&](std::u8string_view w) {
            C.count("basic_names_asked_of_the_other_word_factories");
            (void)X.get_calling_convention(w); (void)X.get_linkage(w); (void)X.get_linkage(X.get_string(w));
            auto& id = X.get_identifier(w); (void)X.get_identifier(X.get_string(w)); (void)X.get_operator(w); (void)X.get_operator(X.get_string(w));
            (void)X.get_suffix(id); (void)X.get_label(id);
         };
         for (auto w : basic_specifier_words) plant(w);
         for (auto w : basic_qualifier_words) plant(w);
         Family<Specifiers, Basic_specifier, 18> S2("specifiers", X, basic_specifier_words);
         Family<Qualifiers, Basic_qualifier, 3> Q2("qualifiers", X, basic_qualifier_words);
         const bool ok2 = S2.init() & Q2.init();
         accessors(X, S2, Q2, when);
         if (ok && ok2) {
            for (int i = 0; i < 18; ++i) if (S2.single[i] != S.single[i]) C.viol(std::string("specifiers:mapping-changed") + when, "a basic specifier name maps to another set " + std::string(when + 1) + ": " + narrow(basic_specifier_words[i]));
            for (int i = 0; i < 3; ++i) if (Q2.single[i] != Q.single[i]) C.viol(std::string("qualifiers:mapping-changed") + when, "a basic qualifier name maps to another set " + std::string(when + 1) + ": " + narrow(basic_qualifier_words[i]));
         }
         for (auto w : basic_specifier_words) Q2.refused(w, "basic-specifier-name");
         for (auto w : basic_qualifier_words) S2.refused(w, "basic-qualifier-name");
      }
   };
   if (C.worker == 0) {
      impl::Lexicon fresh;
      other_factories_first(fresh, ":after the other word factories were asked for the basic names first");
      other_factories_first(lex, ":after the other word factories were asked for the basic names");
      C.need("basic_names_asked_of_the_other_word_factories");
   }
   // unknown names are refused
   if (C.worker == 0) {
      for (auto w : reserved_words) {
         bool spec = std::find(std::begin(basic_specifier_words), std::end(basic_specifier_words), w) != std::end(basic_specifier_words);
         bool qual = std::find(std::begin(basic_qualifier_words), std::end(basic_qualifier_words), w) != std::end(basic_qualifier_words);
         if (!spec) S.refused(w, "reserved");
         if (!qual) Q.refused(w, "reserved");
      }
      // the other family's names, asked right after that family answered them (and right before): a name that is basic in one
      // family is unknown to the other whatever was asked a moment ago
      for (int rep = 0; rep < 2; ++rep) {
         for (auto w : basic_specifier_words) { Q.refused(w, "basic-specifier-name"); (void)S.of_name(w); Q.refused(w, "basic-specifier-name-right-after-the-specifier-lookup"); Q.refused(w, "basic-specifier-name"); C.count("cross_family_lookups"); }
         for (auto w : basic_qualifier_words) { S.refused(w, "basic-qualifier-name"); (void)Q.of_name(w); S.refused(w, "basic-qualifier-name-right-after-the-qualifier-lookup"); S.refused(w, "basic-qualifier-name"); C.count("cross_family_lookups"); }
      }
      // a basic name followed by a NUL byte (and more): another word altogether
      for (auto w : basic_specifier_words) for (auto tail : { std::u8string(1, u8'\0'), std::u8string(u8"\0tail", 5), std::u8string(u8"\0\0", 2) }) { std::u8string s(w); s += tail; S.refused(s, "basic-name-then-NUL"); Q.refused(s, "basic-name-then-NUL"); }
      for (auto w : basic_qualifier_words) for (auto tail : { std::u8string(1, u8'\0'), std::u8string(u8"\0tail", 5) }) { std::u8string s(w); s += tail; S.refused(s, "basic-name-then-NUL"); Q.refused(s, "basic-name-then-NUL"); }
      for (auto w : { u8"", u8"Static", u8"static ", u8"stati", u8"const_", u8"Const", u8"noexcept", u8"signed", u8"x" }) {
         S.refused(w, w[0] ? "dynamic" : "empty"); Q.refused(w, w[0] ? "dynamic" : "empty");
      }
   }
   if (ok) {
      S.all_subsets(C.worker, C.workers);
      Q.all_subsets(0, 1);
      // exhaustive singleton x subset
      for (std::uint32_t a = std::uint32_t(C.worker); a < (1u << 18); a += std::uint32_t(C.workers))
         for (int i = 0; i < 18; ++i) { S.binary(1u << i, a); if ((a & 0xff) == 0) S.binary(a, 1u << i); }
      for (std::uint32_t a = 0; a < 8; ++a) for (std::uint32_t b = 0; b < 8; ++b) Q.binary(a, b);
      Rng rng(C.seed);
      const long long nrand = C.thorough ? 6000000 : 150000;
      for (long long i = 0; i < nrand; ++i) {
         std::uint32_t a = std::uint32_t(rng.next()) & 0x3ffff, b = std::uint32_t(rng.next()) & 0x3ffff;
         if (rng.chance(20)) b = a & std::uint32_t(rng.next());       // subsets, for `implies`
         if (rng.chance(5)) b = a;
         S.binary(a, b);
         C.eval(hash_mix(a, hash_mix(b, 99)), true);
         if (i == 7) C.sample(J().s("kind", "random-pair").u("a_mask", a).u("b_mask", b).str());
      }
   }
   {  Rng wr(C.seed ^ 0x57494445); wide_algebra<Specifiers>("specifiers", wr, C.thorough ? 400000 : 20000); wide_algebra<Qualifiers>("qualifiers", wr, C.thorough ? 400000 : 20000); }
   C.need("specifiers_pairs_over_the_whole_coordinate_space"); C.need("qualifiers_pairs_over_the_whole_coordinate_space"); C.need("specifiers_atom_pairs");
   C.sample(J().s("kind", "subset").u("mask", 0x2a5).raw("names", jarr(basic_specifier_words, basic_specifier_words + 18, [](std::u8string_view w) { return jstr(w); })).str());
   C.need("specifiers_subsets_decomposed"); C.need("qualifiers_subsets_decomposed"); C.need("specifiers_binary_pairs");
   C.need("named_accessors_checked"); C.need("questions_asked_during_static_initialisation");
   if (C.worker == 0) { C.need("specifiers_unknown_names_refused"); C.need("qualifiers_unknown_names_refused"); }
   C.exhaustive(ok);   // the space named by the property: all subsets enumerated; pairs are sampled as the property states
   C.extra("exhaustive_subspaces", "\"decompose over all 2^18 + 2^3 subsets; binary operations over all 18 x 2^18 singleton-subset pairs and all 8 x 8 qualifier pairs; random pairs beyond that are sampled\"");
}

int main(int argc, char** argv) { return guarded_main(argc, argv, body); }
