#ifndef VERIF_SWEEP_ALL_HPP
#define VERIF_SWEEP_ALL_HPP
#include "sweep_core.hpp"
#include "sweep_exprs.hpp"
#include "sweep_rest.hpp"
#include "sweep_neighbours.hpp"
#include "gen/factory_list.hpp"
#endif
