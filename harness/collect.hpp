// Collector: transitive closure (bounded) of the nodes a set of roots hands out through its interface.
// Shared by C06, C15, C14, C05.
#ifndef VERIF_COLLECT_HPP
#define VERIF_COLLECT_HPP
#include "sweep_core.hpp"
#include <ipr/traversal>
#include <cxxabi.h>
namespace vh {
inline std::string demangle(const char* n)
{
   int st = 0; char* d = abi::__cxa_demangle(n, nullptr, nullptr, &st);
   std::string s = (st == 0 && d) ? d : n; std::free(d);
   return s;
}
struct Collector {
   std::vector<const Node*> nodes;
   std::set<const Node*> seen;
   void add(const Node& n) { if (seen.insert(&n).second) nodes.push_back(&n); }
   template<class F> void attempt(F f) { try { f(); } catch (const std::logic_error&) { } }
   // sub-objects handed out by a node (one level; the work-list makes it transitive up to a bound)
   void expand(const Node& n)
   {
      struct V : Constant_visitor<No_op> {
         Collector& c; explicit V(Collector& cc) : c(cc) { }
         void visit(const Type& t) override { c.attempt([&] { c.add(t.name()); }); c.attempt([&] { c.add(t.type()); }); udt(t); }
         void visit(const Expr& e) override { c.attempt([&] { c.add(e.type()); }); }
         void visit(const Stmt& s) override { c.attempt([&] { c.add(s.type()); }); }
         void visit(const Decl& d) override { c.attempt([&] { c.add(d.type()); }); c.attempt([&] { c.add(d.name()); }); c.attempt([&] { c.add(d.home_region()); }); }
         void udt(const Type& t)
         {
            if (auto u = util::view<Class>(t)) region(u->region());
            if (auto u = util::view<Union>(t)) region(u->region());
            if (auto u = util::view<Namespace>(t)) region(u->region());
            if (auto u = util::view<Enum>(t)) region(u->region());
            if (auto u = util::view<Closure>(t)) region(u->region());
         }
         void region(const Region& r)
         {
            c.add(r); c.add(r.bindings());
            c.attempt([&] { c.add(r.bindings().type()); });
            for (auto& d : r.bindings().elements()) { c.add(d); c.attempt([&] { auto o = r.bindings()[d.name()]; if (o.is_valid()) c.add(o.get()); }); }
         }
         void visit(const Region& r) override { region(r); }
         void visit(const Block& b) override { region(b.region()); for (auto& h : b.handlers()) { c.add(h); c.add(h.exception()); c.add(h.body()); region(h.body().region()); region(h.body().region().enclosing()); } c.attempt([&] { c.add(b.type()); }); }
         void visit(const Mapping& m) override { c.add(m.parameters()); region(m.parameters().region()); c.attempt([&] { c.add(m.parameters().type()); }); }
         void visit(const Lambda& m) override { c.add(m.parameters()); region(m.parameters().region()); }
         void visit(const Requires& m) override { c.add(m.parameters()); region(m.parameters().region()); }
         void visit(const Where& w) override { c.attempt([&] { c.add(w.attendant()); }); }
         void visit(const Expr_list& l) override { c.attempt([&] { c.add(l.type()); }); }
         void visit(const Phased_evaluation& p) override { c.add(p.expression()); }
         void visit(const Identifier& i) override { c.add(i.string()); }
         void visit(const Class& k) override { visit(static_cast<const Type&>(k)); for (auto& b : k.bases()) { c.add(b); c.attempt([&] { region(b.home_region()); }); } }
      };
      V v(*this);
      n.accept(v);
   }
};


// roots: every node of a sweep + the process-wide constants and the odd implementation classes
inline void collect_roots(Collector& col, Sweep& S)
{
   impl::Lexicon& lex = S.lex; const Lexicon& L = lex;
   for (auto& m : S.made) if (m.node) col.add(*m.node);
   for (auto p : { &L.true_value(), &L.false_value(), &L.nullptr_value(), &L.default_value(), &L.delete_value() }) col.add(*p);
   col.add(L.nullptr_value().type()); col.add(L.default_value().type()); col.add(String::empty_string());
   col.add(lex.get_string(u8"int")); col.add(lex.get_string(u8"a dynamic word")); col.add(lex.get_identifier(u8"int")); col.add(lex.get_identifier(u8""));
   col.add(*S.unit.global_region()); col.add(S.unit.global_namespace());
   for (std::size_t i = 0; i < col.nodes.size() && col.nodes.size() < 20000; ++i) col.expand(*col.nodes[i]);
}
} // namespace vh
#endif
