// ipr::verif::Inspector -- the friend named by the IPR_VERIF hook.  Read-only accessors to the
// private unification tables, plus helpers that validate a live table.
#ifndef VERIF_INSPECT_HPP
#define VERIF_INSPECT_HPP
#ifndef IPR_VERIF
#  error "harnesses must be built with -DIPR_VERIF"
#endif
#include <ipr/impl>
#include "rbcheck.hpp"

namespace ipr::verif {
struct Inspector {
   template<class Core> static auto root(const Core& c) { return c.root; }
   template<class Core> static long long count(const Core& c) { return c.count; }

#define VH_TABLE(Owner, member) static const auto& member(const ipr::impl::Owner& f) { return f.member; }
   VH_TABLE(type_factory, xfer_links) VH_TABLE(type_factory, xfer_ccs) VH_TABLE(type_factory, xfers)
   VH_TABLE(type_factory, extendeds) VH_TABLE(type_factory, arrays) VH_TABLE(type_factory, type_refs)
   VH_TABLE(type_factory, type_xfers) VH_TABLE(type_factory, tors) VH_TABLE(type_factory, functions)
   VH_TABLE(type_factory, fun_xfers) VH_TABLE(type_factory, pointers) VH_TABLE(type_factory, products)
   VH_TABLE(type_factory, member_ptrs) VH_TABLE(type_factory, qualifieds) VH_TABLE(type_factory, references)
   VH_TABLE(type_factory, refrefs) VH_TABLE(type_factory, sums) VH_TABLE(type_factory, foralls)
   VH_TABLE(type_factory, type_seqs)
   VH_TABLE(name_factory, logos) VH_TABLE(name_factory, ids) VH_TABLE(name_factory, suffixes)
   VH_TABLE(name_factory, convs) VH_TABLE(name_factory, ctors) VH_TABLE(name_factory, dtors)
   VH_TABLE(name_factory, ops) VH_TABLE(name_factory, guide_ids) VH_TABLE(name_factory, strings)
   VH_TABLE(expr_factory, linkages) VH_TABLE(expr_factory, conventions) VH_TABLE(expr_factory, lits)
   VH_TABLE(expr_factory, template_ids) VH_TABLE(expr_factory, symbols)
   VH_TABLE(Scope, overloads)
#undef VH_TABLE
   // string pool internals
   static const std::map<ipr::util::hash_code, std::forward_list<ipr::impl::String>>&
   buckets(const ipr::util::string_pool& p) { return p; }
   static const ipr::util::string::arena& arena(const ipr::util::string_pool& p) { return p.strings; }
   static long long arena_pools(const ipr::util::string::arena& a)
   {
      long long n = 0;
      for (auto p = a.mem; p != nullptr; p = p->previous) ++n;
      return n;
   }
   static long long arena_remaining(const ipr::util::string::arena& a) { return a.remaining_header_count(); }
   static constexpr long long arena_bufsz() { return ipr::util::string::arena::bufsz; }
};
}

namespace vh {
using ipr::verif::Inspector;

// Validate one live container table: red-black shape, size, strict monotone key order under `cmp`
// (three-way over the stored data).  Returns "" or a description.
template<class T, class Cmp>
inline std::string check_table(const ipr::util::rb_tree::container<T>& t, Cmp cmp, long long* size_out = nullptr, int* height_out = nullptr)
{
   using N = ipr::util::rb_tree::node<T>;
   TreeWalk<N> w;
   const long long n = Inspector::count(t);
   if (size_out) *size_out = n;
   std::string e = w.run(Inspector::root(t), n);
   if (height_out) *height_out = w.sh.height;
   if (!e.empty()) return e;
   return w.ordered([&](const N& a, const N& b) { return cmp(a.data, b.data); });
}

inline int cmp_addr(const void* a, const void* b)
{
   std::less<const void*> lt;
   return lt(a, b) ? -1 : (lt(b, a) ? 1 : 0);
}
inline int cmp_words(ipr::util::word_view a, ipr::util::word_view b) { int c = a.compare(b); return (c > 0) - (c < 0); }
} // namespace vh
#endif
