// Sweep: statements, directives, types, names, declarations, regions, declarator forms, attributes, captures, units.
#ifndef VERIF_SWEEP_REST_HPP
#define VERIF_SWEEP_REST_HPP
#include "sweep_core.hpp"

namespace vh {

inline void Sweep::stmts()
{
   const Lexicon& L = lex;
   {  auto* n = lex.make_break(); const Stmt* from = rng.chance(60) ? rng.pick(P.stmts) : nullptr; if (from) n->stmt = from;
      add_node("make_break", n, Category_code::Break, [n, from, vt = &L.void_type()](Ck& c) { c.type_is(*n, *vt, "break: void"); if (from) c.same("from", &n->from(), from); else c.absent("from", [&] { (void)&n->from(); }); }); }
   {  auto* n = lex.make_continue(); const Stmt* it = rng.chance(60) ? rng.pick(P.stmts) : nullptr; if (it) n->stmt = it;
      add_node("make_continue", n, Category_code::Continue, [n, it, vt = &L.void_type()](Ck& c) { c.type_is(*n, *vt, "continue: void"); if (it) c.same("iteration", &n->iteration(), it); else c.absent("iteration", [&] { (void)&n->iteration(); }); }); }
   for (int with = 0; with < 2; ++with) {
      auto& r = P.R(); Optional<Type> t = with ? Optional<Type>(&P.T()) : Optional<Type>();
      auto* n = with ? lex.make_block(r, t) : lex.make_block(r);
      int k = int(rng.below(4)); std::vector<const Expr*> body; for (int i = 0; i < k; ++i) { body.push_back(rng.pick(P.stmts)); n->add_stmt(*body.back()); }
      int nh = int(rng.below(3)); std::vector<const Handler*> hs; std::vector<const Type*> hts;
      for (int i = 0; i < nh; ++i) { hts.push_back(&P.T()); hs.push_back(n->new_handler(*P.idents[i], *hts.back())); }
      add_node(with ? "make_block(region,type)" : "make_block(region)", n, Category_code::Block, [n, rp = &r, t, body, hs, hts, this](Ck& c) {
         c.same("region.enclosing", &n->region().enclosing(), static_cast<const Region*>(rp)); c.type_opt(*n, t);
         c.eq("body.size", (long long)n->body().size(), (long long)body.size());
         std::size_t i = 0; for (auto& s : n->body()) { if (i < body.size()) c.same("body[i]", &s, body[i]); ++i; }
         c.eq("handlers.size", (long long)n->handlers().size(), (long long)hs.size());
         i = 0; for (auto& h : n->handlers()) { if (i < hs.size()) { c.same("handlers[i]", &h, hs[i]); c.same("handlers[i].exception.type", &h.exception().type(), hts[i]); c.same("handlers[i].exception.name", &h.exception().name(), static_cast<const Name*>(P.idents[i])); } ++i; }
         c.opt("region.owner", n->region().owner(), static_cast<const Expr*>(n)); });
      for (std::size_t i = 0; i < hs.size(); ++i) {
         auto* h = hs[i];
         add_node("Block::new_handler", h, Category_code::Handler, [h, blk = n, ht = hts[i]](Ck& c) {
            c.same("exception.type", &h->exception().type(), ht); c.eq("body.handlers.size", (long long)h->body().handlers().size(), 0);
            c.absent("type", [&] { (void)&h->type(); }, A_TYPE);    // handler: its block's type; the block was given none
            c.same("body.region.enclosing.enclosing", &h->body().region().enclosing().enclosing(), &blk->region().enclosing()); });
      }
   }
   {  auto* inits = lex.make_expr_list(); inits->push_back(&P.X()); auto* blk = lex.make_block(P.R()); auto* n = lex.make_ctor_body(*inits, *blk);
      add_node("make_ctor_body", n, Category_code::Ctor_body, [n, inits, blk](Ck& c) { c.same("inits", &n->inits(), static_cast<const Expr_list*>(inits)); c.same("block", &n->block(), static_cast<const Block*>(blk)); c.type_opt(*n, {}, "never given"); }); }
   {  auto& e = P.X(); auto* n = lex.make_expr_stmt(e);
      add_node("make_expr_stmt", n, Category_code::Expr_stmt, [n, ep = &e](Ck& c) { c.same("expr", &n->expr(), ep); c.type_is(*n, ep->type(), "expression statement: its expression's type"); }); }
   {  auto& e = P.X(); auto* n = lex.make_goto(e);
      add_node("make_goto", n, Category_code::Goto, [n, ep = &e](Ck& c) { c.same("target", &n->target(), ep); c.type_is(*n, ep->type(), "goto: its target's type"); }); }
   {  auto& e = P.X(); auto* n = lex.make_return(e);
      add_node("make_return", n, Category_code::Return, [n, ep = &e](Ck& c) { c.same("value", &n->value(), ep); c.type_opt(*n, {}, "never given"); }); }
   {  auto ops = P.distinct(P.exprs, 2); auto* n = lex.make_if(*ops[0], *ops[1]);
      add_node("make_if(c,s)", n, Category_code::If, [n, ops](Ck& c) { c.same("condition", &n->condition(), ops[0]); c.same("consequence", &n->consequence(), ops[1]); c.opt("alternative", n->alternative(), (const Expr*)nullptr); }); }
   {  auto ops = P.distinct(P.exprs, 3); auto* n = lex.make_if(*ops[0], *ops[1], *ops[2]);
      add_node("make_if(c,s,e)", n, Category_code::If, [n, ops](Ck& c) { c.same("condition", &n->condition(), ops[0]); c.same("consequence", &n->consequence(), ops[1]); c.opt("alternative", n->alternative(), ops[2]); }); }
   {  auto ops = P.distinct(P.exprs, 2); auto* n = lex.make_labeled_stmt(*ops[0], *ops[1]);
      add_node("make_labeled_stmt", n, Category_code::Labeled_stmt, [n, ops](Ck& c) { c.same("label", &n->label(), ops[0]); c.same("stmt", &n->stmt(), ops[1]); c.type_is(*n, ops[1]->type(), "labeled statement: its statement's type"); }); }
   // controlled statements: all set/unset combinations of their two links
#define VH_CONTROLLED(fn, Cat, what) \
   for (int st = 0; st < 4; ++st) { \
      auto ops = P.distinct(P.exprs, 2); auto* n = lex.fn(); \
      const Expr* cond = (st & 1) ? ops[0] : nullptr; const Expr* body = (st & 2) ? ops[1] : nullptr; \
      if (cond) n->control = cond; if (body) n->stmt = body; \
      add_node(std::string(#fn) + "(state " + std::to_string(st) + ")", n, Category_code::Cat, [n, cond, body](Ck& c) { \
         if (cond) c.same("condition", &n->condition(), cond); else c.absent("condition", [&] { (void)&n->condition(); }); \
         if (body) { c.same("body", &n->body(), body); c.type_is(*n, body->type(), what); } \
         else { c.absent("body", [&] { (void)&n->body(); }); c.absent("type", [&] { (void)&n->type(); }, A_TYPE); } }); }
   VH_CONTROLLED(make_do, Do, "do: its body's type")
   VH_CONTROLLED(make_while, While, "while: its body's type")
   VH_CONTROLLED(make_switch, Switch, "switch: its body's type")
   for (int st = 0; st < 16; ++st) {
      auto ops = P.distinct(P.exprs, 3); auto* n = lex.make_for();
      const Expr* i = (st & 1) ? ops[0] : nullptr; const Expr* cnd = (st & 2) ? ops[1] : nullptr; const Expr* inc = (st & 4) ? ops[2] : nullptr; const Stmt* b = (st & 8) ? rng.pick(P.stmts) : nullptr;
      if (i) n->init = i; if (cnd) n->cond = cnd; if (inc) n->inc = inc; if (b) n->stmt = b;
      add_node("make_for(state " + std::to_string(st) + ")", n, Category_code::For, [n, i, cnd, inc, b](Ck& c) {
         if (i) c.same("initializer", &n->initializer(), i); else c.absent("initializer", [&] { (void)&n->initializer(); });
         if (cnd) c.same("condition", &n->condition(), cnd); else c.absent("condition", [&] { (void)&n->condition(); });
         if (inc) c.same("increment", &n->increment(), inc); else c.absent("increment", [&] { (void)&n->increment(); });
         if (b) { c.same("body", &n->body(), static_cast<const Expr*>(b)); c.type_is(*n, b->type(), "for: its body's type"); }
         else { c.absent("body", [&] { (void)&n->body(); }); c.absent("type", [&] { (void)&n->type(); }, A_TYPE); } });
   }
   for (int st = 0; st < 8; ++st) {
      auto* n = lex.make_for_in();
      const Var* v = (st & 1) ? rng.pick(P.vars) : nullptr; const Expr* s = (st & 2) ? &P.X() : nullptr; const Stmt* b = (st & 4) ? rng.pick(P.stmts) : nullptr;
      if (v) n->var = v; if (s) n->seq = s; if (b) n->stmt = b;
      add_node("make_for_in(state " + std::to_string(st) + ")", n, Category_code::For_in, [n, v, s, b](Ck& c) {
         if (v) c.same("variable", &n->variable(), v); else c.absent("variable", [&] { (void)&n->variable(); });
         if (s) c.same("sequence", &n->sequence(), s); else c.absent("sequence", [&] { (void)&n->sequence(); });
         if (b) { c.same("body", &n->body(), static_cast<const Expr*>(b)); c.type_is(*n, b->type(), "for-in: its body's type"); }
         else { c.absent("body", [&] { (void)&n->body(); }); c.absent("type", [&] { (void)&n->type(); }, A_TYPE); } });
   }
   // locations, annotations and attributes set after construction on a statement
   {  auto* n = lex.make_expr_stmt(P.X());
      Source_location sl; sl.line = Line_number(1 + rng.below(1u << 20)); sl.column = Column_number(rng.below(500)); sl.file = File_index(rng.below(1u << 16));
      Unit_location ul; ul.line = Line_number(rng.below(99999)); ul.column = Column_number(rng.below(300)); ul.unit = Unit_index(rng.below(77));
      n->src_locus = sl; n->unit_locus = ul;
      add_node("make_expr_stmt+locations", n, Category_code::Expr_stmt, [n, sl, ul](Ck& c) {
         c.eq("source_location.line", (long long)n->source_location().line, (long long)sl.line); c.eq("source_location.column", (long long)n->source_location().column, (long long)sl.column);
         c.eq("source_location.file", (long long)n->source_location().file, (long long)sl.file); c.eq("unit_location.line", (long long)n->unit_location().line, (long long)ul.line);
         c.eq("unit_location.column", (long long)n->unit_location().column, (long long)ul.column); c.eq("unit_location.unit", (long long)n->unit_location().unit, (long long)ul.unit);
         c.eq("annotation.size", (long long)n->annotation().size(), 0); c.eq("attributes.size", (long long)n->attributes().size(), 0); }); }
}

inline void Sweep::directives()
{
   {  auto* n = lex.make_specifiers_spread(); auto sp = Specifiers(rng.below(1u << 18)); n->specs = sp; Optional<Type> t = rng.chance(50) ? Optional<Type>(&P.T()) : Optional<Type>(); n->typing = t;
      add_node("make_specifiers_spread", n, Category_code::Specifiers_spread, [n, sp, t](Ck& c) { c.eq("specifiers", (long long)n->specifiers(), (long long)sp); c.eq("targets.size", (long long)n->targets().size(), 0); c.eq("phases", (long long)n->phases(), (long long)Phases::Elaboration); c.type_opt(*n, t); }); }
   for (int st = 0; st < 2; ++st) {
      auto* n = lex.make_structured_binding(); const Expr* init = st ? &P.X() : nullptr; if (init) n->init = init;
      auto mode = Binding_mode(rng.below(3)); n->binding_mode = mode; auto sp = Specifiers(rng.below(1u << 18)); n->specs = sp;
      std::vector<const Identifier*> ids = P.distinct(P.idents, 3); for (auto i : ids) n->ids.push_back(i);
      add_node(st ? "make_structured_binding(+init)" : "make_structured_binding", n, Category_code::Structured_binding, [n, init, mode, sp, ids](Ck& c) {
         if (init) c.same("initializer", &n->initializer(), init); else c.absent("initializer", [&] { (void)&n->initializer(); });
         c.eq("mode", (long long)n->mode(), (long long)mode); c.eq("specifiers", (long long)n->specifiers(), (long long)sp); c.eq("names.size", (long long)n->names().size(), 3);
         std::size_t i = 0; for (auto& id : n->names()) { c.same("names[i]", &id, ids[i]); ++i; } c.eq("bindings.size", (long long)n->bindings().size(), 0); c.type_opt(*n, {}, "never given"); });
   }
   for (int m = 0; m < 3; ++m) {
      auto* sr = lex.make_scope_ref(P.X(), P.X()); auto* n = lex.make_using_declaration(*sr, Using_declaration::Designator::Mode(m));
      add_node("make_using_declaration(path,mode=" + std::to_string(m) + ")", n, Category_code::Using_declaration, [n, sr, m](Ck& c) {
         c.eq("designators.size", (long long)n->designators().size(), 1);
         auto& d = *n->designators().begin(); c.same("designators[0].path", &d.path(), static_cast<const Scope_ref*>(sr)); c.eq("designators[0].mode", (long long)d.mode(), m); c.eq("phases", (long long)n->phases(), (long long)Phases::Elaboration); });
   }
   {  auto* n = lex.make_using_declaration(); std::vector<const Scope_ref*> srs;
      int k = int(rng.below(4)); for (int i = 0; i < k; ++i) { srs.push_back(lex.make_scope_ref(P.X(), P.X())); n->seq.push_back(*srs.back(), Using_declaration::Designator::Mode(i % 3)); }
      add_node("make_using_declaration()", n, Category_code::Using_declaration, [n, srs](Ck& c) {
         c.eq("designators.size", (long long)n->designators().size(), (long long)srs.size());
         std::size_t i = 0; for (auto& d : n->designators()) { if (i < srs.size()) { c.same("designators[i].path", &d.path(), srs[i]); c.eq("designators[i].mode", (long long)d.mode(), (long long)(i % 3)); } ++i; } }); }
   {  auto& sc = P.R().bindings(); auto& t = P.T(); auto* n = lex.make_using_directive(sc, t);
      add_node("make_using_directive", n, Category_code::Using_directive, [n, sp = &sc, tp = &t](Ck& c) { c.same("nominated_scope", &n->nominated_scope(), sp); c.type_is(*n, *tp, "given"); c.eq("phases", (long long)n->phases(), (long long)Phases::Elaboration); }); }
   {  Phases all[] = { Phases::Unknown, Phases::Reading, Phases::Lexing, Phases::Preprocessing, Phases::Parsing, Phases::Name_resolution, Phases::Typing, Phases::Evaluation,
                       Phases::Instantiation, Phases::Code_generation, Phases::Linking, Phases::Loading, Phases::Execution, Phases::Elaboration, Phases::All, Phases(0x0505) };
      for (int k = 0; k < 3; ++k) {
         auto ph = all[rng.below(16)]; auto& e = P.X(); auto* n = lex.make_phased_evaluation(e, ph);
         add_node("make_phased_evaluation", n, Category_code::Phased_evaluation, [n, ep = &e, ph](Ck& c) { c.same("expression", &n->expression(), ep); c.eq("phases", (long long)n->phases(), (long long)ph); c.type_is(*n, ep->type(), "phased evaluation: its expression's type"); });
      } }
   {  auto* n = lex.make_pragma(); int k = int(rng.below(4)); std::vector<const String*> sp;
      for (int i = 0; i < k; ++i) { sp.push_back(rng.pick(P.strings)); n->tokens.push_back(*sp.back(), Source_location{ }, TokenValue(i), TokenCategory(i + 1)); }
      add_node("make_pragma", n, Category_code::Pragma, [n, sp](Ck& c) {
         c.eq("incantation.size", (long long)n->incantation().size(), (long long)sp.size()); c.eq("phases", (long long)n->phases(), (long long)Phases::All);
         std::size_t i = 0; for (auto& t : n->operand()) { if (i < sp.size()) { c.same("incantation[i].spelling", &t.lexeme().spelling(), sp[i]); c.eq("incantation[i].value", (long long)t.value(), (long long)i); c.eq("incantation[i].category", (long long)t.category(), (long long)i + 1); } ++i; } }); }
}

inline void Sweep::types_and_names()
{
   const Lexicon& L = lex;
   auto tt = &L.typename_type();
   auto composite = [tt](Ck& c, const Type& n) {
      c.type_is(n, *tt, "compound type: typename");
      auto id = util::view<Type_id>(n.name()); c.yes("name", id != nullptr && &id->type_expr() == &n, "a compound type is not named by its own type-id");
      c.yes("transfer", n.transfer() == impl::cxx_transfer(), "a compound type does not have the natural transfer"); };
   {  auto& t = P.T(); auto* n = &lex.get_pointer(t); add_node("get_pointer", n, Category_code::Pointer, [n, tp = &t, composite](Ck& c) { c.same("points_to", &n->points_to(), tp); composite(c, *n); }, false); }
   {  auto& t = P.T(); auto* n = &lex.get_reference(t); add_node("get_reference", n, Category_code::Reference, [n, tp = &t, composite](Ck& c) { c.same("refers_to", &n->refers_to(), tp); composite(c, *n); }, false); }
   {  auto& t = P.T(); auto* n = &lex.get_rvalue_reference(t); add_node("get_rvalue_reference", n, Category_code::Rvalue_reference, [n, tp = &t, composite](Ck& c) { c.same("refers_to", &n->refers_to(), tp); composite(c, *n); }, false); }
   {  auto& t = P.T(); auto& b = P.X(); auto* n = &lex.get_array(t, b); add_node("get_array", n, Category_code::Array, [n, tp = &t, bp = &b, composite](Ck& c) { c.same("element_type", &n->element_type(), tp); c.same("bound", &n->bound(), bp); composite(c, *n); }, false); }
   {  auto& t = L.double_type(); auto q = Qualifiers(1 + rng.below(7)); auto* n = &lex.get_qualified(q, t); add_node("get_qualified", n, Category_code::Qualified, [n, tp = &t, q, composite](Ck& c) { c.eq("qualifiers", (long long)n->qualifiers(), (long long)q); c.same("main_variant", &n->main_variant(), tp); composite(c, *n); }, false); }
   {  auto& e = P.X(); auto* n = &lex.get_decltype(e); add_node("get_decltype", n, Category_code::Decltype, [n, ep = &e, composite](Ck& c) { c.same("expr", &n->expr(), ep); composite(c, *n); }); }
   {  auto ts = P.distinct(P.types, 3); impl::Warehouse<Type> w; for (auto t : ts) w.push_back(*t); auto* n = &lex.get_product(w);
      add_node("get_product(Warehouse)", n, Category_code::Product, [n, ts, composite](Ck& c) { c.eq("size", (long long)n->size(), 3); for (std::size_t i = 0; i < 3 && i < n->size(); ++i) c.same("operator[]", &(*n)[i], ts[i]); composite(c, *n); }, false);
      auto* n2 = &lex.get_product(n->elements()); add_node("get_product(Sequence)", n2, Category_code::Product, [n, n2](Ck& c) { c.same("identity", n2, n, A_IDENTITY); }, false);
      auto* s = &lex.get_sum(w); add_node("get_sum(Warehouse)", s, Category_code::Sum, [s, ts, composite](Ck& c) { c.eq("size", (long long)s->size(), 3); for (std::size_t i = 0; i < 3 && i < s->size(); ++i) c.same("operator[]", &(*s)[i], ts[i]); composite(c, *s); }, false);
      auto* s2 = &lex.get_sum(s->elements()); add_node("get_sum(Sequence)", s2, Category_code::Sum, [s, s2](Ck& c) { c.same("identity", s2, s, A_IDENTITY); }, false);
      auto& tgt = P.T(); auto& thr = P.X();
      auto* f0 = &lex.get_function(*n, tgt); add_node("get_function(s,t)", f0, Category_code::Function, [f0, n, tp = &tgt, fv = &L.false_value(), composite](Ck& c) { c.same("source", &f0->source(), n); c.same("target", &f0->target(), tp); c.same("throws", &f0->throws(), static_cast<const Expr*>(fv)); composite(c, *f0); }, false);
      auto* f1 = &lex.get_function(*n, tgt, thr); add_node("get_function(s,t,e)", f1, Category_code::Function, [f1, n, tp = &tgt, ep = &thr, composite](Ck& c) { c.same("source", &f1->source(), n); c.same("target", &f1->target(), tp); c.same("throws", &f1->throws(), ep); composite(c, *f1); }, false);
      auto& xf = lex.get_transfer(lex.get_linkage(u8"C"), lex.get_calling_convention(u8"cdecl"));
      auto* f2 = &lex.get_function(*n, tgt, xf); add_node("get_function(s,t,xfer)", f2, Category_code::Function, [f2, n, tp = &tgt, fv = &L.false_value(), xp = &xf, tt](Ck& c) { c.same("source", &f2->source(), n); c.same("target", &f2->target(), tp); c.same("throws", &f2->throws(), static_cast<const Expr*>(fv)); c.yes("transfer", f2->transfer() == *xp, "function type does not report its transfer"); c.yes("linkage", f2->linkage() == xp->linkage(), "linkage() != transfer().linkage()"); c.type_is(*f2, *tt, "compound type: typename"); }, false);
      auto* f3 = &lex.get_function(*n, tgt, thr, xf); add_node("get_function(s,t,e,xfer)", f3, Category_code::Function, [f3, n, tp = &tgt, ep = &thr, xp = &xf, tt](Ck& c) { c.same("source", &f3->source(), n); c.same("target", &f3->target(), tp); c.same("throws", &f3->throws(), ep); c.yes("transfer", f3->transfer() == *xp, "function type does not report its transfer"); c.type_is(*f3, *tt, "compound type: typename"); }, false);
      auto* fa = &lex.get_forall(*n, tgt); add_node("get_forall", fa, Category_code::Forall, [fa, n, tp = &tgt, composite](Ck& c) { c.same("source", &fa->source(), n); c.same("target", &fa->target(), tp); composite(c, *fa); }, false);
      auto* tr = &lex.get_tor(*n, *s); add_node("get_tor", tr, Category_code::Tor, [tr, n, s, composite](Ck& c) { c.same("source", &tr->source(), static_cast<const Expr*>(n)); c.same("throws", &tr->throws(), static_cast<const Type*>(s)); composite(c, *tr); }, false);
      auto* at = &lex.get_as_type(thr); add_node("get_as_type(e)", at, Category_code::As_type, [at, ep = &thr, composite](Ck& c) { c.same("expr", &at->expr(), ep); composite(c, *at); }, false);
      auto* ax = &lex.get_as_type(thr, xf); add_node("get_as_type(e,xfer)", ax, Category_code::As_type, [ax, ep = &thr, xp = &xf, tt](Ck& c) { c.same("expr", &ax->expr(), ep); c.yes("transfer", ax->transfer() == *xp, "as-type does not report its transfer"); c.type_is(*ax, *tt, "compound type: typename"); }, false);
   }
   {  auto ts = P.distinct(P.types, 2); auto* n = &lex.get_ptr_to_member(*ts[0], *ts[1]); add_node("get_ptr_to_member", n, Category_code::Ptr_to_member, [n, ts, composite](Ck& c) { c.same("containing_type", &n->containing_type(), ts[0]); c.same("member_type", &n->member_type(), ts[1]); composite(c, *n); }, false); }
   {  auto& id = *rng.pick(P.idents); auto* n = &lex.get_as_type(id); add_node("get_as_type(identifier)", n, Category_code::As_type, [n, ip = &id, tt](Ck& c) { c.same("name", &n->name(), static_cast<const Name*>(ip)); c.same("expr", &n->expr(), static_cast<const Expr*>(n)); c.type_is(*n, *tt, "extended built-in: typename"); }, false); }
   {  auto* n = &lex.get_auto(); add_node("get_auto", n, Category_code::Auto, [n, composite](Ck& c) { composite(c, *n); }); }
   // user-defined types
   {  auto& r = P.R(); auto kind = rng.chance(50) ? Enum::Kind::Scoped : Enum::Kind::Legacy; auto* n = lex.make_enum(r, kind);
      const Type* base = rng.chance(50) ? &P.T() : nullptr; n->underlying = base; const Name* nm = rng.chance(60) ? rng.pick(P.names) : nullptr; if (nm) n->id = nm;
      int k = int(rng.below(5)); std::vector<const Enumerator*> es; for (int i = 0; i < k; ++i) es.push_back(n->add_member(*P.idents[i]));
      add_node("make_enum", n, Category_code::Enum, [n, rp = &r, kind, base, nm, es, et = &L.enum_type(), this](Ck& c) {
         c.type_is(*n, *et, "enum: the kind type `enum`"); c.eq("kind", (long long)n->kind(), (long long)kind); c.opt("base", n->base(), base);
         if (nm) c.same("name", &n->name(), nm); else c.absent("name", [&] { (void)&n->name(); });
         c.same("region.enclosing", &n->region().enclosing(), static_cast<const Region*>(rp)); c.opt("region.owner", n->region().owner(), static_cast<const Expr*>(n));
         c.eq("members.size", (long long)n->members().size(), (long long)es.size());
         std::size_t i = 0; for (auto& e : n->members()) { if (i < es.size()) { c.same("members[i]", &e, es[i]); c.eq("members[i].position", (long long)e.position(), (long long)i); c.same("members[i].type", &e.type(), static_cast<const Type*>(n)); c.same("members[i].name", &e.name(), static_cast<const Name*>(P.idents[i])); c.same("members[i].home_region", &e.home_region(), &n->region()); } ++i; } }); }
   {  auto& r = P.R(); auto* n = lex.make_class(r); const Name* nm = rng.chance(60) ? rng.pick(P.names) : nullptr; if (nm) n->id = nm;
      int k = int(rng.below(3)); std::vector<const Base_type*> bs; std::vector<const Type*> bts; for (int i = 0; i < k; ++i) { bts.push_back(P.a_class); bs.push_back(n->declare_base(*bts.back())); }
      add_node("make_class", n, Category_code::Class, [n, rp = &r, nm, bs, bts, ct = &L.class_type()](Ck& c) {
         c.type_is(*n, *ct, "class: the kind type `class`"); if (nm) c.same("name", &n->name(), nm); else c.absent("name", [&] { (void)&n->name(); });
         c.same("region.enclosing", &n->region().enclosing(), static_cast<const Region*>(rp)); c.opt("region.owner", n->region().owner(), static_cast<const Expr*>(n));
         c.eq("bases.size", (long long)n->bases().size(), (long long)bs.size());
         std::size_t i = 0; for (auto& b : n->bases()) { if (i < bs.size()) { c.same("bases[i]", &b, bs[i]); c.same("bases[i].type", &b.type(), bts[i]); c.eq("bases[i].position", (long long)b.position(), (long long)i); c.same("bases[i].name", &b.name(), &bts[i]->name()); } ++i; }
         c.eq("members.size", (long long)n->members().size(), 0); }); }
   {  auto& r = P.R(); auto* n = lex.make_union(r); add_node("make_union", n, Category_code::Union, [n, rp = &r, ut = &L.union_type()](Ck& c) { c.type_is(*n, *ut, "union: the kind type `union`"); c.same("region.enclosing", &n->region().enclosing(), static_cast<const Region*>(rp)); c.opt("region.owner", n->region().owner(), static_cast<const Expr*>(n)); c.absent("name", [&] { (void)&n->name(); }); }); }
   {  auto& r = P.R(); auto* n = lex.make_namespace(r); add_node("make_namespace", n, Category_code::Namespace, [n, rp = &r, nt = &L.namespace_type()](Ck& c) { c.type_is(*n, *nt, "namespace: the kind type `namespace`"); c.same("region.enclosing", &n->region().enclosing(), static_cast<const Region*>(rp)); c.opt("region.owner", n->region().owner(), static_cast<const Expr*>(n)); }); }
   {  auto& r = P.R(); auto* n = lex.make_closure(r); int k = int(rng.below(3)); std::vector<const Decl*> ds; std::vector<Binding_mode> ms;
      for (int i = 0; i < k; ++i) { ds.push_back(rng.pick(P.decls)); ms.push_back(Binding_mode(rng.below(3))); n->captures.push_back(*ds.back(), ms.back()); }
      add_node("make_closure", n, Category_code::Closure, [n, rp = &r, ds, ms, ct = &L.class_type()](Ck& c) {
         c.type_is(*n, *ct, "closure: the kind type `class`"); c.same("region.enclosing", &n->region().enclosing(), static_cast<const Region*>(rp)); c.opt("region.owner", n->region().owner(), static_cast<const Expr*>(n));
         c.eq("members.size", (long long)n->members().size(), (long long)ds.size());
         std::size_t i = 0; for (auto& cp : n->members()) { if (i < ds.size()) { c.same("members[i].entity", &cp.entity(), ds[i]); c.eq("members[i].mode", (long long)cp.mode(), (long long)ms[i]); } ++i; } }); }
   // names
   {  auto& s = *rng.pick(P.strings); auto* n = &lex.get_identifier(s); add_node("get_identifier", n, Category_code::Identifier, [n, sp = &s](Ck& c) { c.same("string", &n->string(), sp); }, false); }
   {  auto& s = *rng.pick(P.strings); auto* n = &lex.get_operator(s); add_node("get_operator", n, Category_code::Operator, [n, sp = &s](Ck& c) { c.same("opname", &n->opname(), sp); }, false); }
   {  auto& id = *rng.pick(P.idents); auto* n = &lex.get_suffix(id); add_node("get_suffix", n, Category_code::Suffix, [n, ip = &id](Ck& c) { c.same("name", &n->name(), ip); }, false); }
   {  auto& t = P.T(); auto* n = &lex.get_conversion(t); add_node("get_conversion", n, Category_code::Conversion, [n, tp = &t](Ck& c) { c.same("target", &n->target(), tp); }, false); }
   {  auto& t = P.T(); auto* n = &lex.get_ctor_name(t); add_node("get_ctor_name", n, Category_code::Ctor_name, [n, tp = &t](Ck& c) { c.same("object_type", &n->object_type(), tp); }, false); }
   {  auto& t = P.T(); auto* n = &lex.get_dtor_name(t); add_node("get_dtor_name", n, Category_code::Dtor_name, [n, tp = &t](Ck& c) { c.same("object_type", &n->object_type(), tp); }, false); }
   {  auto& t = *rng.pick(P.templates); auto* n = &lex.get_guide_name(t); add_node("get_guide_name", n, Category_code::Guide_name, [n, tp = &t](Ck& c) { c.same("mapping_decl", &n->mapping_decl(), tp); }, false); }
   {  auto& s = *rng.pick(P.strings); auto* n = &lex.get_string(s.characters()); add_node("get_string", n, Category_code::String, [n, sp = &s](Ck& c) { c.same("identity", n, sp, A_IDENTITY); }, false); }
   {  auto& nm = *rng.pick(P.names); auto& t = P.T(); auto* n = &lex.get_symbol(nm, t); add_node("get_symbol", n, Category_code::Symbol, [n, np = &nm, tp = &t](Ck& c) { c.same("name", &n->name(), np); c.type_is(*n, *tp, "given"); }, false); }
   {  auto& id = *rng.pick(P.idents); auto* n = &lex.get_label(id); add_node("get_label", n, Category_code::Symbol, [n, ip = &id, vt = &L.void_type()](Ck& c) { c.same("name", &n->name(), static_cast<const Name*>(ip)); c.type_is(*n, *vt, "label symbol: void"); }, false); }
   {  auto& t = P.T(); auto* n = &lex.get_this(t); add_node("get_this", n, Category_code::Symbol, [n, tp = &t](Ck& c) { c.type_is(*n, *tp, "given"); auto id = util::view<Identifier>(n->name()); c.yes("name", id && id->string().characters() == u8"this", "`this` symbol is not named this"); }, false); }
   // the same name asked with different types (and a label beside a value symbol of the same name): each result must keep its own operands
   {  auto& nm = *rng.pick(P.names); auto ts = P.distinct(P.types, 3);
      for (int i = 0; i < 3; ++i) { auto* n = &lex.get_symbol(nm, *ts[i]); add_node("get_symbol(same name, type " + std::to_string(i) + ")", n, Category_code::Symbol, [n, np = &nm, tp = ts[i]](Ck& c) { c.same("name", &n->name(), np); c.type_is(*n, *tp, "given"); }, false); } }
   {  auto ts = P.distinct(P.types, 2);
      for (int i = 0; i < 2; ++i) { auto* n = &lex.get_this(*ts[i]); add_node("get_this(type " + std::to_string(i) + ")", n, Category_code::Symbol, [n, tp = ts[i]](Ck& c) { c.type_is(*n, *tp, "given"); }, false); } }
   {  auto& id = *rng.pick(P.idents); auto* lab = &lex.get_label(id); auto* sym = &lex.get_symbol(id, L.bool_type()); auto* lab2 = &lex.get_label(id);
      add_node("get_label(beside get_symbol of the same name)", lab, Category_code::Symbol, [lab, lab2, sym, ip = &id, vt = &L.void_type(), bt = &L.bool_type()](Ck& c) {
         c.same("name", &lab->name(), static_cast<const Name*>(ip)); c.type_is(*lab, *vt, "label symbol: void"); c.type_is(*sym, *bt, "given");
         c.same("identity", lab2, lab, A_IDENTITY); c.yes("identity", static_cast<const Node*>(sym) != lab, "a value symbol and a label of the same name are one node", A_IDENTITY); }, false); }
   // constants: kind-fixed types
   add_node("true_value", &L.true_value(), Category_code::Symbol, [s = &L.true_value(), bt = &L.bool_type()](Ck& c) { c.type_is(*s, *bt, "truth value: bool"); }, false);
   add_node("false_value", &L.false_value(), Category_code::Symbol, [s = &L.false_value(), bt = &L.bool_type()](Ck& c) { c.type_is(*s, *bt, "truth value: bool"); }, false);
   add_node("delete_value", &L.delete_value(), Category_code::Symbol, [s = &L.delete_value(), vt = &L.void_type()](Ck& c) { c.type_is(*s, *vt, "deleted-definition constant: void"); }, false);
   add_node("nullptr_value", &L.nullptr_value(), Category_code::Symbol, [s = &L.nullptr_value()](Ck& c) { auto d = util::view<Decltype>(s->type()); c.yes("type", d && &d->expr() == s, "nullptr is not typed decltype(nullptr)", A_TYPE); }, false);
   {  const Type* b[] = { &L.void_type(), &L.bool_type(), &L.char_type(), &L.int_type(), &L.long_long_type(), &L.double_type(), &L.ellipsis_type(), &L.typename_type(), &L.class_type(), &L.union_type(), &L.enum_type(), &L.namespace_type() };
      for (auto t : b) add_node("built-in type", t, Category_code::As_type, [t, tt](Ck& c) { c.type_is(*t, *tt, "built-in type: typename"); }, false); }
}

inline void Sweep::decls_and_regions()
{
   const Lexicon& L = lex;
   {  auto& parent = P.R(); auto* n = parent.make_subregion();
      add_node("Region::make_subregion", n, Category_code::Region, [n, pp = &parent](Ck& c) { c.same("enclosing", &n->enclosing(), static_cast<const Region*>(pp)); c.eq("global", n->global(), false); c.opt("owner", n->owner(), (const Expr*)nullptr); c.eq("bindings.size", (long long)n->bindings().size(), 0); c.eq("body.size", (long long)n->body().size(), 0); }); }
   // declarations in a fresh sub-region, optional links in all combinations that matter
   auto* reg = P.R().make_subregion();
   {  for (int st = 0; st < 4; ++st) {
         auto& nm = *P.idents[st]; auto& t = P.T(); auto* n = reg->declare_var(nm, t);
         const Expr* init = (st & 1) ? &P.X() : nullptr; n->init = init; const Region* lr = (st & 2) ? &P.R() : nullptr; if (lr) n->lexreg = lr;
         auto sp = Specifiers(rng.below(1u << 18)); n->specifiers(sp);
         add_node("declare_var(state " + std::to_string(st) + ")", n, Category_code::Var, [n, np = &nm, tp = &t, init, lr, sp](Ck& c) {
            c.same("name", &n->name(), static_cast<const Name*>(np)); c.type_is(*n, *tp, "given"); c.opt("initializer", n->initializer(), init); c.eq("specifiers", (long long)n->specifiers(), (long long)sp);
            if (lr) c.same("lexical_region", &n->lexical_region(), lr); else c.absent("lexical_region", [&] { (void)&n->lexical_region(); });
            c.absent("home_region", [&] { (void)&n->home_region(); }); c.absent("linkage", [&] { (void)&n->linkage(); }); c.same("master", &n->master(), static_cast<const Decl*>(n)); });
      } }
   {  auto& nm = *P.idents[4]; auto& t = P.T(); auto* n = reg->declare_field(nm, t); const Expr* init = rng.chance(50) ? &P.X() : nullptr; n->init = init;
      n->decl_data.master_data->home = reg; n->decl_data.master_data->langlinkage = &L.c_linkage();
      add_node("declare_field", n, Category_code::Field, [n, np = &nm, tp = &t, init, reg, cl = &L.c_linkage()](Ck& c) {
         c.same("name", &n->name(), static_cast<const Name*>(np)); c.type_is(*n, *tp, "given"); c.opt("initializer", n->initializer(), init);
         c.same("home_region", &n->home_region(), static_cast<const Region*>(reg)); c.same("lexical_region", &n->lexical_region(), static_cast<const Region*>(reg)); c.same("linkage", &n->linkage(), cl); }); }
   for (int st = 0; st < 2; ++st) {
      auto& nm = *P.idents[5 + st]; auto& t = P.T(); auto* n = reg->declare_bitfield(nm, t); const Expr* len = st ? &P.X() : nullptr; if (len) n->length = len;
      add_node(st ? "declare_bitfield(+precision)" : "declare_bitfield", n, Category_code::Bitfield, [n, np = &nm, tp = &t, len](Ck& c) {
         c.same("name", &n->name(), static_cast<const Name*>(np)); c.type_is(*n, *tp, "given"); if (len) c.same("precision", &n->precision(), len); else c.absent("precision", [&] { (void)&n->precision(); }); c.opt("initializer", n->initializer(), (const Expr*)nullptr); });
   }
   {  auto& nm = *P.idents[7]; auto& init = P.X(); auto* n = reg->scope.make_alias(nm, init);
      add_node("make_alias", n, Category_code::Alias, [n, np = &nm, ip = &init](Ck& c) { c.same("name", &n->name(), static_cast<const Name*>(np)); c.type_is(*n, ip->type(), "alias: its initializer's type"); c.opt("initializer", n->initializer(), ip); }); }
   for (int st = 0; st < 2; ++st) {
      auto& nm = *P.idents[8]; auto& t = st ? L.class_type() : L.typename_type(); auto* n = reg->declare_type(nm, t); const Type* def = st ? P.a_class : nullptr; n->init = def;
      add_node(st ? "declare_type(+init)" : "declare_type", n, Category_code::Typedecl, [n, np = &nm, tp = &t, def](Ck& c) { c.same("name", &n->name(), static_cast<const Name*>(np)); c.type_is(*n, *tp, "given"); c.opt("initializer", n->initializer(), static_cast<const Expr*>(def)); c.opt("definition", n->definition(), (const Typedecl*)nullptr); });
   }
   {  impl::Warehouse<Type> w; w.push_back(L.int_type()); auto& ft = lex.get_function(lex.get_product(w), L.void_type());
      for (int st = 0; st < 5; ++st) {
         auto& nm = *P.names[st]; auto* n = reg->declare_fun(nm, ft);
         impl::Mapping* m = nullptr; impl::Parameter_list* pl = nullptr;
         // the two alternatives of the declaration's data, each also selected while its link is still unset
         if (st == 3) n->data.emplace<1>(static_cast<impl::Mapping*>(nullptr));
         if (st == 4) n->data.emplace<0>(static_cast<impl::Parameter_list*>(nullptr));
         if (st == 1) { m = lex.make_mapping(*reg, Mapping_level{ 0 }); m->param(*P.idents[0], L.int_type()); n->data.emplace<1>(m); }
         if (st == 2) { pl = &reg->make_function_morphism(*reg, Mapping_level{ 0 })->inputs; pl->add_member(*P.idents[1], L.int_type()); n->data.emplace<0>(pl); }
         add_node("declare_fun(state " + std::to_string(st) + ")", n, Category_code::Fundecl, [n, np = &nm, fp = &ft, m, pl](Ck& c) {
            c.same("name", &n->name(), np); c.type_is(*n, *fp, "given");
            c.opt("mapping", n->mapping(), static_cast<const Mapping*>(m)); c.opt("initializer", n->initializer(), static_cast<const Expr*>(m));
            if (m) c.same("parameters", &n->parameters(), &m->parameters()); else if (pl) c.same("parameters", &n->parameters(), static_cast<const Parameter_list*>(pl)); else c.absent("parameters", [&] { (void)&n->parameters(); }); });
      } }
   {  impl::Warehouse<Type> w; w.push_back(L.typename_type()); auto& fa = lex.get_forall(lex.get_product(w), L.class_type());
      for (int st = 0; st < 4; ++st) {
         auto& nm = *P.names[3 + st % 2]; auto* n = (st & 1) ? reg->declare_secondary_template(nm, fa) : reg->declare_primary_template(nm, fa);
         impl::Mapping* m = nullptr; if (st & 2) { m = lex.make_mapping(*reg, Mapping_level{ 1 }); m->param(*P.idents[2], L.typename_type()); m->body = &P.X(); n->init = m; }
         bool primary_first = !(st & 1) && st < 2;
         add_node(std::string((st & 1) ? "declare_secondary_template" : "declare_primary_template") + (m ? "(+mapping)" : ""), n, Category_code::Template, [n, np = &nm, fp = &fa, m, primary_first](Ck& c) {
            c.same("name", &n->name(), np); c.type_is(*n, *fp, "given");
            if (m) { c.same("mapping", &n->mapping(), static_cast<const Mapping*>(m)); c.same("parameters", &n->parameters(), &m->parameters()); c.same("result", &n->result(), &m->result()); c.opt("initializer", n->initializer(), &m->result()); }
            else { c.absent("mapping", [&] { (void)&n->mapping(); }); c.absent("parameters", [&] { (void)&n->parameters(); }); c.absent("initializer", [&] { (void)n->initializer(); }); }
            if (primary_first) c.same("primary_template", &n->primary_template(), static_cast<const Template*>(n));
            c.eq("specializations.size", (long long)n->specializations().size(), 0); });
      } }
   // the same declarations through Scope::make_* directly and through a user-defined type's declare_*
   {  auto* cls = lex.make_class(*reg); auto& sc = reg->scope; auto& t = P.T();
      impl::Warehouse<Type> w; w.push_back(L.int_type()); auto& ft = lex.get_function(lex.get_product(w), L.int_type());
      impl::Warehouse<Type> w2; w2.push_back(L.typename_type()); auto& fa = lex.get_forall(lex.get_product(w2), L.int_type());
      auto simple = [&](const std::string& f, const Decl* d, Category_code cat, const Name* nm, const Type* ty) {
         add_node(f, d, cat, [d, nm, ty](Ck& c) { c.same("name", &d->name(), nm); c.type_is(*d, *ty, "given"); c.same("master", &d->master(), d); c.eq("decl_set.size", (long long)d->decl_set().size(), 1); }); };
      const Name* n0 = P.names[10]; const Name* n1 = P.names[11]; const Name* n2 = P.names[12];
      simple("Scope::make_var", sc.make_var(*n0, t), Category_code::Var, n0, &t);
      simple("Scope::make_field", sc.make_field(*n1, t), Category_code::Field, n1, &t);
      simple("Scope::make_bitfield", sc.make_bitfield(*n2, t), Category_code::Bitfield, n2, &t);
      simple("Scope::make_typedecl", sc.make_typedecl(*n0, L.typename_type()), Category_code::Typedecl, n0, &L.typename_type());
      simple("Scope::make_fundecl", sc.make_fundecl(*n1, ft), Category_code::Fundecl, n1, &ft);
      simple("Scope::make_primary_template", sc.make_primary_template(*n2, fa), Category_code::Template, n2, &fa);
      simple("Scope::make_secondary_template", sc.make_secondary_template(*n0, fa), Category_code::Template, n0, &fa);
      simple("Region::declare_alias", reg->declare_alias(*n1, L.double_type()), Category_code::Alias, n1, &L.typename_type());
      simple("Udt::declare_var", cls->declare_var(*n0, t), Category_code::Var, n0, &t);
      simple("Udt::declare_field", cls->declare_field(*n1, t), Category_code::Field, n1, &t);
      simple("Udt::declare_bitfield", cls->declare_bitfield(*n2, t), Category_code::Bitfield, n2, &t);
      simple("Udt::declare_type", cls->declare_type(*n0, L.class_type()), Category_code::Typedecl, n0, &L.class_type());
      simple("Udt::declare_fun", cls->declare_fun(*n1, ft), Category_code::Fundecl, n1, &ft);
      simple("Udt::declare_primary_template", cls->declare_primary_template(*n2, fa), Category_code::Template, n2, &fa);
      simple("Udt::declare_secondary_template", cls->declare_secondary_template(*n0, fa), Category_code::Template, n0, &fa);
      simple("Udt::declare_alias", cls->declare_alias(*n1, L.int_type()), Category_code::Alias, n1, &L.typename_type());
      add_node("class with members", cls, Category_code::Class, [cls](Ck& c) { c.eq("members.size", (long long)cls->members().size(), 8); c.eq("scope.size", (long long)cls->scope().size(), 8); }); }
   // aliases of every kind of entity, through every entry point, the aliased node handed over under each static type the entry
   // point accepts: an alias takes its type from what it aliases (class, union, enum, namespace for those entities; typename for
   // built-in and compound types; the expression's type otherwise)
   {  auto& greg = *unit.global_region();
      auto* holder = lex.make_namespace(greg); auto* hcls = lex.make_class(greg); auto* hreg = greg.make_subregion();
      impl::Class* k = lex.make_class(greg); impl::Union* u = lex.make_union(greg); impl::Enum* e = lex.make_enum(greg, Enum::Kind::Scoped); impl::Namespace* ns = lex.make_namespace(greg); impl::Closure* cl = lex.make_closure(greg);
      const Type* aliased[] = { k, u, e, ns, cl, &L.int_type(), &lex.get_pointer(L.char_type()), &lex.get_qualified(Qualifiers(1), *k) };
      const char* what[] = { "class", "union", "enum", "namespace", "closure", "built-in type", "pointer type", "qualified class" };
      int i = 0;
      for (const Type* t : aliased) {
         const Type* want = &t->type();
         auto rec = [&](const std::string& f, const Alias* d, const Name* nm) {
            add_node(f + "(" + what[i] + ")", d, Category_code::Alias, [d, nm, t, want](Ck& c) { c.same("name", &d->name(), nm); c.type_is(*d, *want, "alias: its initializer's type"); c.opt("initializer", d->initializer(), static_cast<const Expr*>(t)); }); };
         const Name* nm = P.idents[std::size_t(i) % 10];
         rec("Scope::make_alias[as Expr]", holder->body.scope.make_alias(*nm, static_cast<const Expr&>(*t)), nm);
         rec("Scope::make_alias[as Type]", hreg->scope.make_alias(*nm, *t), nm);
         rec("Region::declare_alias", holder->body.declare_alias(*nm, *t), nm);
         rec("Udt::declare_alias", hcls->declare_alias(*nm, *t), nm);
         ++i;
      }
      // and with the implementation object's own static type
      { auto* d = hreg->scope.make_alias(*P.idents[8], *k); add_node("Scope::make_alias[as impl::Class]", d, Category_code::Alias, [d, k](Ck& c) { c.type_is(*d, k->type(), "alias: its initializer's type"); }); }
      { auto* d = hreg->scope.make_alias(*P.idents[9], *ns); add_node("Scope::make_alias[as impl::Namespace]", d, Category_code::Alias, [d, ns](Ck& c) { c.type_is(*d, ns->type(), "alias: its initializer's type"); }); }
      { auto* d = hreg->scope.make_alias(*P.idents[7], *e); add_node("Scope::make_alias[as impl::Enum]", d, Category_code::Alias, [d, e](Ck& c) { c.type_is(*d, e->type(), "alias: its initializer's type"); }); }
   }
   // parameters with and without default value
   {  auto* m = lex.make_mapping(*reg, Mapping_level{ 3 });
      for (int st = 0; st < 2; ++st) {
         auto& t = P.T(); auto* p = m->param(*P.idents[st], t); const Expr* dv = st ? &P.X() : nullptr; p->init = dv;
         add_node(st ? "Mapping::param(+default)" : "Mapping::param", p, Category_code::Parameter, [p, m, st, tp = &t, dv, this](Ck& c) {
            c.same("name", &p->name(), static_cast<const Name*>(P.idents[st])); c.type_is(*p, *tp, "given"); c.eq("position", (long long)p->position(), st); c.eq("level", (long long)p->level(), 3);
            c.opt("initializer", p->initializer(), dv); c.opt("default_value", p->default_value(), dv); c.same("home_region", &p->home_region(), &m->parameters().region()); });
      } }
   // parameters (and variables, fields) whose initializer is an expression of every kind made so far -- a phantom typed and untyped, a
   // type, a declaration, a name among them: what is reported as initializer / default value is the very node that was given
   {  auto* m = lex.make_mapping(*reg, Mapping_level{ 2 });
      std::map<int, const Expr*> by_kind;
      for (auto& md : made) if (md.node) if (auto e = dynamic_cast<const Expr*>(md.node)) by_kind.emplace(int(e->category), e);
      by_kind[-1] = lex.make_phantom(); by_kind[-2] = lex.make_phantom(P.T());
      int k = 0;
      for (auto& [cat, e] : by_kind) {
         auto& t = P.T(); auto* p = m->param(*P.idents[std::size_t(k) % P.idents.size()], t); p->init = e; const int pos = k++;
         add_node("Mapping::param(default of every kind)", p, Category_code::Parameter, [p, e = e, pos](Ck& c) {
            c.eq("position", (long long)p->position(), pos); c.opt("initializer", p->initializer(), e); c.opt("default_value", p->default_value(), e); }, false);
         auto* v = reg->scope.make_var(*P.idents[std::size_t(k) % P.idents.size()], t); v->init = e;
         add_node("Scope::make_var(initializer of every kind)", v, Category_code::Var, [v, e = e](Ck& c) { c.opt("initializer", v->initializer(), e); }, false);
      } }
}

inline void Sweep::forms()
{
   auto& reg = P.R();
   const Lexicon& L = lex;
   {  auto& id = *rng.pick(P.idents); auto* n = reg.make_monadic_constraint(id); add_other("make_monadic_constraint(id)", n, [n, ip = &id](Ck& c) { c.same("concept_name", &n->concept_name(), ip); c.opt("scope", n->scope(), (const Expr*)nullptr); }); }
   {  auto& id = *rng.pick(P.idents); auto& s = P.X(); auto* n = reg.make_monadic_constraint(s, id); add_other("make_monadic_constraint(scope,id)", n, [n, ip = &id, sp = &s](Ck& c) { c.same("concept_name", &n->concept_name(), ip); c.opt("scope", n->scope(), sp); }); }
   {  auto& id = *rng.pick(P.idents); auto* n = reg.make_polyadic_constraint(id); auto& a = P.X(); n->args.push_back(&a); add_other("make_polyadic_constraint(id)", n, [n, ip = &id, ap = &a](Ck& c) { c.same("concept_name", &n->concept_name(), ip); c.opt("scope", n->scope(), (const Expr*)nullptr); c.eq("trailing_arguments.size", (long long)n->trailing_arguments().size(), 1); c.same("trailing_arguments[0]", &*n->trailing_arguments().begin(), ap); }); }
   {  auto& id = *rng.pick(P.idents); auto& s = P.X(); auto* n = reg.make_polyadic_constraint(s, id); add_other("make_polyadic_constraint(scope,id)", n, [n, ip = &id, sp = &s](Ck& c) { c.same("concept_name", &n->concept_name(), ip); c.opt("scope", n->scope(), sp); c.eq("trailing_arguments.size", (long long)n->trailing_arguments().size(), 0); }); }
   {  auto& e = P.X(); auto* n = reg.make_simple_requirement(e); add_other("make_simple_requirement", n, [n, ep = &e](Ck& c) { c.same("expr", &n->expr(), ep); }); }
   {  auto& nm = *rng.pick(P.names); auto* n = reg.make_type_requirement(nm); add_other("make_type_requirement(name)", n, [n, np = &nm](Ck& c) { c.same("type_name", &n->type_name(), np); c.opt("scope", n->scope(), (const Expr*)nullptr); }); }
   {  auto& nm = *rng.pick(P.names); auto& s = P.X(); auto* n = reg.make_type_requirement(s, nm); add_other("make_type_requirement(scope,name)", n, [n, np = &nm, sp = &s](Ck& c) { c.same("type_name", &n->type_name(), np); c.opt("scope", n->scope(), sp); }); }
   for (int st = 0; st < 2; ++st) {
      auto& e = P.X(); auto* n = reg.make_compound_requirement(e); const cxx_form::Constraint* k = st ? reg.make_monadic_constraint(*P.idents[0]) : nullptr; n->type = k; bool ne = rng.chance(50); n->has_noexcept = ne;
      add_other(st ? "make_compound_requirement(+constraint)" : "make_compound_requirement", n, [n, ep = &e, k, ne](Ck& c) { c.same("expr", &n->expr(), ep); c.opt("constraint", n->constraint(), k); c.eq("nothrow", n->nothrow(), ne); });
   }
   {  auto& e = P.X(); auto* n = reg.make_nested_requirement(e); add_other("make_nested_requirement", n, [n, ep = &e](Ck& c) { c.same("condition", &n->condition(), ep); }); }
   {  auto q = Qualifiers(rng.below(8)); auto* n = reg.make_pointer_indirector(q); add_other("make_pointer_indirector", n, [n, q](Ck& c) { c.eq("qualifiers", (long long)n->qualifiers(), (long long)q); c.eq("attributes.size", (long long)n->attributes().size(), 0); }); }
   for (int f = 0; f < 2; ++f) { auto* n = reg.make_reference_indirector(cxx_form::Reference_flavor(f)); add_other("make_reference_indirector", n, [n, f](Ck& c) { c.eq("flavor", (long long)n->flavor(), f); }); }
   {  auto q = Qualifiers(rng.below(8)); auto& s = P.X(); auto* n = reg.make_member_indirector(s, q); add_other("make_member_indirector", n, [n, q, sp = &s](Ck& c) { c.eq("qualifiers", (long long)n->qualifiers(), (long long)q); c.same("scope", &n->scope(), sp); }); }
   {  auto* n = reg.make_unqualified_id_species(); add_other("make_unqualified_id_species()", n, [n](Ck& c) { c.opt("name", n->name(), (const Name*)nullptr); c.eq("suffix.size", (long long)n->suffix().size(), 0); c.eq("attributes.size", (long long)n->attributes().size(), 0); }); }
   {  auto& nm = *rng.pick(P.names); auto* n = reg.make_unqualified_id_species(nm); add_other("make_unqualified_id_species(name)", n, [n, np = &nm](Ck& c) { c.opt("name", n->name(), np); }); }
   {  auto* n = reg.make_pack_species(); add_other("make_pack_species()", n, [n](Ck& c) { c.opt("name", n->name(), (const Identifier*)nullptr); }); }
   {  auto& id = *rng.pick(P.idents); auto* n = reg.make_pack_species(id); add_other("make_pack_species(id)", n, [n, ip = &id](Ck& c) { c.opt("name", n->name(), ip); }); }
   {  auto& s = P.X(); auto& nm = *rng.pick(P.names); auto* n = reg.make_qualified_id_species(s, nm); add_other("make_qualified_id_species", n, [n, sp = &s, np = &nm](Ck& c) { c.same("scope", &n->scope(), sp); c.same("member", &n->member(), np); }); }
   auto* term = reg.make_term_declarator();
   for (int st = 0; st < 2; ++st) {
      auto* n = reg.make_parenthesized_species(); if (st) n->declarator = term;
      add_other(st ? "make_parenthesized_species(+term)" : "make_parenthesized_species", n, [n, st, term](Ck& c) { if (st) c.same("term", &n->term(), static_cast<const cxx_form::Declarator::Term*>(term)); else c.absent("term", [&] { (void)&n->term(); }); });
   }
   {  auto lvl = Mapping_level{ std::size_t(rng.below(4)) }; auto* n = reg.make_function_morphism(reg, lvl);
      const Expr* eh = rng.chance(50) ? &P.X() : nullptr; n->eh_spec = eh; auto q = Qualifiers(rng.below(8)); n->quals = q; auto bm = Binding_mode(rng.below(3)); n->ref_qual = bm;
      add_other("make_function_morphism", n, [n, rp = &reg, lvl, eh, q, bm](Ck& c) { c.eq("parameters.level", (long long)n->parameters().level(), (long long)lvl); c.same("parameters.region.enclosing", &n->parameters().region().enclosing(), static_cast<const Region*>(rp));
         c.opt("throws", n->throws(), eh); c.eq("qualifiers", (long long)n->qualifiers(), (long long)q); c.eq("binding_mode", (long long)n->binding_mode(), (long long)bm); c.opt("parameters.region.owner", n->parameters().region().owner(), (const Expr*)nullptr); }); }
   for (int st = 0; st < 2; ++st) { auto* n = reg.make_array_morphism(); const Expr* b = st ? &P.X() : nullptr; n->array_bound = b; add_other(st ? "make_array_morphism(+bound)" : "make_array_morphism", n, [n, b](Ck& c) { c.opt("bound", n->bound(), b); }); }
   for (int st = 0; st < 2; ++st) {
      auto* n = reg.make_term_declarator(); cxx_form::Species_declarator* sp = st ? static_cast<cxx_form::Species_declarator*>(reg.make_unqualified_id_species(*P.names[0])) : nullptr; if (sp) n->tail = sp;
      auto* ind = reg.make_pointer_indirector(Qualifiers(1)); n->prefix.push_back(ind);
      add_other(st ? "make_term_declarator(+species)" : "make_term_declarator", n, [n, sp, ind](Ck& c) { if (sp) c.same("species", &n->species(), static_cast<const cxx_form::Species_declarator*>(sp)); else c.absent("species", [&] { (void)&n->species(); });
         c.eq("indirectors.size", (long long)n->indirectors().size(), 1); c.same("indirectors[0]", &*n->indirectors().begin(), static_cast<const cxx_form::Indirector*>(ind)); });
   }
   {  auto* sp = reg.make_unqualified_id_species(*P.names[1]); auto& t = P.T(); auto* n = reg.make_targeted_declarator(*sp, t); add_other("make_targeted_declarator", n, [n, sp, tp = &t](Ck& c) { c.same("species", &n->species(), static_cast<const cxx_form::Species_declarator*>(sp)); c.same("target", &n->target(), tp); }); }
   auto* braced = reg.make_braced_provision();
   add_other("make_braced_provision", braced, [braced](Ck& c) { c.eq("elements.size", (long long)braced->elements().size(), 0); });
   {  auto* n = reg.make_classic_provision(*braced); add_other("make_classic_provision", n, [n, braced](Ck& c) { c.same("initializer", &n->initializer(), static_cast<const cxx_form::Elemental_initializer*>(braced)); }); }
   {  auto& e = P.X(); auto* n = reg.make_parenthesized_provision(e); add_other("make_parenthesized_provision", n, [n, ep = &e](Ck& c) { c.same("initializer", &n->initializer(), ep); }); }
   {  auto& id = *rng.pick(P.idents); auto* fd = reg.make_field_designator(id); add_other("make_field_designator", fd, [fd, ip = &id](Ck& c) { c.same("name", &fd->name(), ip); });
      auto& e = P.X(); auto* sd = reg.make_slot_designator(e); add_other("make_slot_designator", sd, [sd, ep = &e](Ck& c) { c.same("index", &sd->index(), ep); });
      auto* n = reg.make_designated_provision(); n->seq.push_back(*fd, *braced); n->seq.push_back(*sd, *braced);
      add_other("make_designated_provision", n, [n, fd, sd, braced](Ck& c) { c.eq("elements.size", (long long)n->elements().size(), 2);
         auto it = n->elements().begin(); c.same("elements[0].subobject", &it->subobject(), static_cast<const cxx_form::Subobject_designator*>(fd)); c.same("elements[0].initializer", &it->initializer(), static_cast<const cxx_form::Initialization_provision*>(braced));
         ++it; c.same("elements[1].subobject", &it->subobject(), static_cast<const cxx_form::Subobject_designator*>(sd)); }); }
   // a designated list that keeps growing: each member handed out by push_back stays where it is, and stays what it was, while
   // further members are added (sizes past 8, 16, 32 ... - what a contiguous store would relocate at)
   {  auto* n = reg.make_designated_provision();
      auto held = std::make_shared<std::vector<std::tuple<const cxx_form::Earmarked_initializer*, const cxx_form::Subobject_designator*, const cxx_form::Initialization_provision*>>>();
      const int members = 5 + int(rng.below(70));
      for (int i = 0; i < members; ++i) {
         const cxx_form::Subobject_designator* d = rng.chance(50) ? static_cast<const cxx_form::Subobject_designator*>(reg.make_field_designator(*rng.pick(P.idents))) : static_cast<const cxx_form::Subobject_designator*>(reg.make_slot_designator(P.X()));
         const cxx_form::Initialization_provision* iv = rng.chance(50) ? static_cast<const cxx_form::Initialization_provision*>(braced) : static_cast<const cxx_form::Initialization_provision*>(reg.make_braced_provision());
         auto* e = n->seq.push_back(*d, *iv);
         held->emplace_back(e, d, iv);
         // read it through the interface right away, as a client walking the list while it is being filled would
         if (&*n->elements().position(std::size_t(i)) != static_cast<const cxx_form::Earmarked_initializer*>(e)) held->emplace_back(nullptr, d, iv);
      }
      add_other("make_designated_provision(grown member by member)", n, [n, held, members](Ck& c) {
         c.eq("elements.size", (long long)n->elements().size(), members);
         c.eq("members handed out", (long long)held->size(), members);
         std::size_t i = 0;
         for (auto& m : n->elements()) {
            if (i >= held->size()) break;
            auto& [e, d, iv] = (*held)[i++];
            c.same("elements[i] (the member push_back handed out)", &m, e, A_OPERAND | A_IDENTITY); c.same("elements[i].subobject", &m.subobject(), d); c.same("elements[i].initializer", &m.initializer(), iv);
         } }); }
   (void)L;
}

inline void Sweep::attributes_captures_units()
{
   const Lexicon& L = lex;
   auto tok = [&]() -> const impl::Token& {
      Source_location sl; sl.line = Line_number(rng.below(1000)); sl.file = File_index(rng.below(10));
      tokens.emplace_back(*rng.pick(P.strings), sl, TokenValue(rng.below(500)), TokenCategory(rng.below(9)));
      return tokens.back(); };
   {  auto& s = *rng.pick(P.strings); Source_location sl; sl.line = Line_number(77); sl.column = Column_number(5); sl.file = File_index(3);
      tokens.emplace_back(s, sl, TokenValue(321), TokenCategory(7)); auto* t = &tokens.back();
      add_other("impl::Token", t, [t, sp = &s](Ck& c) { c.same("spelling", &t->spelling(), sp); c.same("lexeme", &t->lexeme(), static_cast<const Lexeme*>(t)); c.eq("value", (long long)t->value(), 321); c.eq("category", (long long)t->category(), 7);
         c.eq("locus.line", (long long)t->locus().line, 77); c.eq("locus.column", (long long)t->locus().column, 5); c.eq("locus.file", (long long)t->locus().file, 3); }); }
   auto& t1 = tok(); auto& t2 = tok();
   auto* ba = &attrs.make_basic_attribute(t1); add_other("make_basic_attribute", ba, [ba, tp = &t1](Ck& c) { c.same("token", &ba->token(), static_cast<const Token*>(tp)); });
   {  auto* n = &attrs.make_scoped_attribute(t1, t2); add_other("make_scoped_attribute", n, [n, a = &t1, b = &t2](Ck& c) { c.same("scope", &n->scope(), static_cast<const Token*>(a)); c.same("member", &n->member(), static_cast<const Token*>(b)); }); }
   {  auto* n = &attrs.make_labeled_attribute(t2, *ba); add_other("make_labeled_attribute", n, [n, a = &t2, ba](Ck& c) { c.same("label", &n->label(), static_cast<const Token*>(a)); c.same("attribute", &n->attribute(), static_cast<const Attribute*>(ba)); }); }
   {  auto* seq = &lex.make_expr_stmt(P.X())->attrs;     // a Lexicon-owned (empty) attribute sequence
      auto* n = &attrs.make_called_attribute(*ba, *seq); add_other("make_called_attribute", n, [n, ba, seq](Ck& c) { c.same("function", &n->function(), static_cast<const Attribute*>(ba)); c.same("arguments", &n->arguments(), static_cast<const Sequence<Attribute>*>(seq)); });
      auto* f = &attrs.make_factored_attribute(t1, *seq); add_other("make_factored_attribute", f, [f, a = &t1, seq](Ck& c) { c.same("factor", &f->factor(), static_cast<const Token*>(a)); c.same("terms", &f->terms(), static_cast<const Sequence<Attribute>*>(seq)); }); }
   {  auto* n = &attrs.make_expanded_attribute(t2, *ba); add_other("make_expanded_attribute", n, [n, a = &t2, ba](Ck& c) { c.same("expander", &n->expander(), static_cast<const Token*>(a)); c.same("operand", &n->operand(), static_cast<const Attribute*>(ba)); }); }
   {  auto& e = P.X(); auto* n = &attrs.make_elaborated_attribute(e); add_other("make_elaborated_attribute", n, [n, ep = &e](Ck& c) { c.same("elaboration", &n->elaboration(), ep); }); }
   // captures
   for (int m = 0; m < 3; ++m) {
      auto* d = &captures.default_capture(Binding_mode(m)); add_other("default_capture", d, [d, m](Ck& c) { c.eq("mode", (long long)d->mode(), m); });
      auto* i = &captures.implicit_object_capture(Binding_mode(m)); add_other("implicit_object_capture", i, [i, m](Ck& c) { c.eq("how", (long long)i->how(), m); });
      default_captures.push_back(d); object_captures.push_back(i);
   }
   // a captured declaration that no identifier names (an operator, a conversion function, a constructor): the capture has its
   // declaration and its mode, and no name to report
   for (auto nm : { static_cast<const Name*>(&lex.get_operator(u8"+")), static_cast<const Name*>(&lex.get_conversion(static_cast<const Lexicon&>(lex).bool_type())), static_cast<const Name*>(&lex.get_ctor_name(*P.a_class)) }) {
      auto* v = unit.global_scope()->make_var(*nm, P.T()); auto bm = Binding_mode(rng.below(3)); auto* n = &captures.enclosing_local_capture(*v, bm);
      local_captures.push_back(n);
      add_other("enclosing_local_capture(declaration not named by an identifier)", n, [n, vp = v, bm](Ck& c) { c.same("declaration", &n->declaration(), static_cast<const Decl*>(vp)); c.eq("mode", (long long)n->mode(), (long long)bm); c.absent("name", [&] { (void)&n->name(); }); });
   }
   {  auto& v = *rng.pick(P.vars); auto bm = Binding_mode(rng.below(3)); auto* n = &captures.enclosing_local_capture(v, bm);
      add_other("enclosing_local_capture", n, [n, vp = &v, bm](Ck& c) { c.same("declaration", &n->declaration(), static_cast<const Decl*>(vp)); c.eq("mode", (long long)n->mode(), (long long)bm); c.same("name", &n->name(), static_cast<const Identifier*>(util::view<Identifier>(vp->name()))); });
      auto& id = *rng.pick(P.idents); auto& e = P.X(); auto* b = &captures.binding_capture(id, e, bm);
      add_other("binding_capture", b, [b, ip = &id, ep = &e, bm](Ck& c) { c.same("name", &b->name(), ip); c.same("initializer", &b->initializer(), ep); c.eq("mode", (long long)b->mode(), (long long)bm); });
      local_captures.push_back(n); binding_captures.push_back(b);
      auto* x = &captures.expansion_capture(*b); expansion_captures.push_back(x); add_other("expansion_capture", x, [x, b](Ck& c) { c.same("what", &x->what(), static_cast<const Capture_specification::Named*>(b)); }); }
   // comment / annotation (public constructors; no linkable factory)
   {  auto& s = *rng.pick(P.strings); comments.emplace_back(s); auto* n = &comments.back(); add_node("impl::Comment", n, Category_code::Comment, [n, sp = &s](Ck& c) { c.same("text", &n->text(), sp); }); }
   {  auto& s = *rng.pick(P.strings); auto& lit = *lex.make_literal(P.T(), u8"42"); annotations.emplace_back(s, lit); auto* n = &annotations.back();
      add_node("impl::Annotation", n, Category_code::Annotation, [n, sp = &s, lp = &lit](Ck& c) { c.same("name", &n->name(), sp); c.same("value", &n->value(), static_cast<const Literal*>(lp)); }); }
   // atoms that are not nodes
   {  auto& lg = lex.get_logogram(*P.strings[0]); add_other("get_logogram", &lg, [g = &lg, this](Ck& c) { c.same("what", &g->what(), P.strings[0]); });
      auto& lk = lex.get_linkage(u8"Java"); add_other("get_linkage(word)", &lk, [l = &lk, this](Ck& c) { c.same("language.what", &l->language().what(), &lex.get_string(u8"Java")); });
      auto& lk2 = lex.get_linkage(lex.get_string(u8"Java")); add_other("get_linkage(String)", &lk2, [a = &lk, b = &lk2](Ck& c) { c.same("identity", b, a, A_IDENTITY); });
      auto& cc = lex.get_calling_convention(u8"stdcall"); add_other("get_calling_convention", &cc, [k = &cc, this](Ck& c) { c.same("name.what", &k->name().what(), &lex.get_string(u8"stdcall")); });
      auto& x = lex.get_transfer(lk, cc); add_other("get_transfer", &x, [xp = &x, l = &lk, k = &cc](Ck& c) { c.yes("linkage", xp->linkage() == *l, "transfer does not report its linkage"); c.yes("convention", xp->convention() == *k, "transfer does not report its convention"); c.same("first", &xp->first(), l); c.same("second", &xp->second(), k); });
      auto& xl = lex.get_transfer_from_linkage(lk); add_other("get_transfer_from_linkage", &xl, [xp = &xl, l = &lk](Ck& c) { c.same("linkage", &xp->linkage(), l); c.yes("convention", xp->convention() == impl::cxx_transfer().convention(), "not the natural calling convention"); });
      auto& xc = lex.get_transfer_from_convention(cc); add_other("get_transfer_from_convention", &xc, [xp = &xc, k = &cc, this](Ck& c) { c.same("convention", &xp->convention(), k); c.same("linkage", &xp->linkage(), &static_cast<const Lexicon&>(lex).cxx_linkage()); });
      auto& lit = lex.get_literal(P.T(), u8"7"); add_node("get_literal(type,word)", &lit, Category_code::Literal, [l = &lit, this](Ck& c) { c.same("string", &l->string(), &lex.get_string(u8"7")); c.type_is(*l, l->first(), "literal: its type operand"); }, false);
      auto& lit2 = lex.get_literal(lit.first(), lex.get_string(u8"7")); add_node("get_literal(type,String)", &lit2, Category_code::Literal, [a = &lit, b = &lit2](Ck& c) { c.same("identity", b, a, A_IDENTITY); }, false);
      auto* args = lex.make_expr_list(); auto& tid = lex.get_template_id(P.X(), *args); add_node("get_template_id", &tid, Category_code::Template_id, [t = &tid, args](Ck& c) { c.same("args", &t->args(), static_cast<const Expr_list*>(args)); }, false); }
   // modules and their units
   {  modules.emplace_back(lex); auto* m = &modules.back(); auto* u1 = m->make_unit(); auto* u2 = m->make_unit();
      m->stems.components.push_back(P.idents[0]); m->stems.components.push_back(P.idents[1]);
      add_other("impl::Module", m, [m, u1, u2, this](Ck& c) {
         c.eq("name.stems.size", (long long)m->name().stems().size(), 2); c.same("name.stems[0]", &*m->name().stems().begin(), P.idents[0]);
         c.same("interface_unit.parent_module", &m->interface_unit().parent_module(), static_cast<const Module*>(m));
         c.eq("implementation_units.size", (long long)m->implementation_units().size(), 2);
         auto it = m->implementation_units().begin(); c.same("implementation_units[0]", &*it, static_cast<const Module_unit*>(u1)); ++it; c.same("implementation_units[1]", &*it, static_cast<const Module_unit*>(u2));
         c.eq("interface_unit.exported_modules.size", (long long)m->interface_unit().exported_modules().size(), 0); c.eq("interface_unit.exported_declarations.size", (long long)m->interface_unit().exported_declarations().size(), 0); });
      add_other("Module::make_unit", u1, [m, u1](Ck& c) { c.same("parent_module", &u1->parent_module(), static_cast<const Module*>(m)); c.eq("purview.size", (long long)u1->purview().size(), 0); c.eq("global_namespace.region.global", u1->global_namespace().region().global(), true); });
      // an enumerator and a parameter added through add_member
      auto* en = lex.make_enum(P.R(), Enum::Kind::Legacy); auto* e0 = en->add_member(*P.idents[3]); const Expr* init = &P.X(); e0->init = init;
      add_node("Enum::add_member", e0, Category_code::Enumerator, [e0, en, init, this](Ck& c) { c.same("name", &e0->name(), static_cast<const Name*>(P.idents[3])); c.type_is(*e0, *en, "enumerator: its enumeration"); c.eq("position", (long long)e0->position(), 0); c.opt("initializer", e0->initializer(), init); c.same("lexical_region", &e0->lexical_region(), &en->region()); });
      auto* req = lex.make_requires(P.R(), Mapping_level{ 2 }); auto& pt = P.T(); auto* p0 = req->formals.add_member(*P.idents[4], pt);
      add_node("Parameter_list::add_member", p0, Category_code::Parameter, [p0, req, tp = &pt, this](Ck& c) { c.same("name", &p0->name(), static_cast<const Name*>(P.idents[4])); c.type_is(*p0, *tp, "given"); c.eq("level", (long long)p0->level(), 2); c.same("home_region", &p0->home_region(), &req->parameters().region()); });
      auto* cl = lex.make_class(P.R()); auto* b0 = cl->declare_base(*P.a_class);
      add_node("Class::declare_base", b0, Category_code::Base_type, [b0, this](Ck& c) { c.type_is(*b0, *P.a_class, "given"); c.eq("position", (long long)b0->position(), 0); c.same("lexical_region", &b0->lexical_region(), &b0->home_region()); c.eq("specifiers", (long long)b0->specifiers(), 0); }); }
   // a base list some of whose bases are user-defined types that have not been given a name (yet): such a base has no name to
   // report (logic_error), the named ones after it do; the list's scope is then asked for each of them by name
   {  auto* cl = lex.make_class(P.R());
      const Type* bts[] = { P.a_class, lex.make_class(P.R()), lex.make_union(P.R()), P.a_class, lex.make_enum(P.R(), Enum::Kind::Scoped), &L.int_type() };
      std::vector<const Base_type*> bs; for (auto t : bts) bs.push_back(cl->declare_base(*t));
      for (std::size_t i = 0; i < bs.size(); ++i)
         add_node(i == 1 || i == 2 || i == 4 ? "Class::declare_base(user-defined type without a name)" : "Class::declare_base(named type, after unnamed ones)", bs[i], Category_code::Base_type, [b = bs[i], t = bts[i], i, unnamed = (i == 1 || i == 2 || i == 4)](Ck& c) {
            c.type_is(*b, *t, "given"); c.eq("position", (long long)b->position(), (long long)i);
            if (unnamed) c.absent("name", [&] { (void)&b->name(); }); else c.same("name", &b->name(), &t->name()); });
      add_node("class whose base list holds unnamed types", cl, Category_code::Class, [cl, bs, names = std::vector<const Name*> { &P.a_class->name(), &L.int_type().name(), P.idents[0] }](Ck& c) {
         c.eq("bases.size", (long long)cl->bases().size(), (long long)bs.size());
         // look-up by name in the base list's own scope: found for the named bases, absent for a name nobody bears; never a crash
         auto& sc = bs[0]->home_region().bindings();
         for (auto nm : names) { try { auto o = sc[*nm]; (void)o.is_valid(); ++c.checks; } catch (const std::logic_error&) { ++c.checks; } } }); }
   // the translation unit
   add_other("Translation_unit", &unit, [u = &unit, nt = &L.namespace_type()](Ck& c) {
      auto& g = u->global_namespace(); c.type_is(g, *nt, "namespace: the kind type `namespace`"); c.eq("global_namespace.region.global", g.region().global(), true);
      auto id = util::view<Identifier>(g.name()); c.yes("global_namespace.name", id && id->string().size() == 0, "the global namespace is not named by the empty identifier");
      c.eq("imported_modules.size", (long long)u->imported_modules().size(), 0); c.absent("global_namespace.region.enclosing", [&] { (void)&g.region().enclosing(); }); });
}
} // namespace vh
#endif
