// C04 -- names and atoms are unified; a spelling has a single Identifier everywhere; linkage /
// calling-convention / transfer / logogram values compare equal exactly when spelled the same.
// Monitor: request history vs key->node reference model + live-table invariants through the hook.
#include "common.hpp"
#include "inspect.hpp"
#include "reserved.hpp"
#include <ipr/impl>
#include <unordered_map>
#include <algorithm>
#include <set>
#include <deque>
#include <optional>
#include <memory>
#include <cstring>

using namespace vh;
using namespace ipr;

enum Ctor { IDENT, OPER, SUFFIX, CONV, CTOR, DTOR, GUIDE, TEMPLATE_ID, LOGO, SYMBOL, LITERAL, LINKAGE, CONVENTION, NCTOR };
static const char* ctor_name[] = {"identifier", "operator", "suffix", "conversion", "ctor_name", "dtor_name", "guide_name",
                                  "template_id", "logogram", "symbol", "literal", "linkage", "calling_convention"};
// entry points that share a key space with a constructor above
enum Route { R_DIRECT, R_LABEL, R_THIS };

static void put(std::string& k, const void* p) { auto v = reinterpret_cast<std::uintptr_t>(p); k.append(reinterpret_cast<const char*>(&v), sizeof v); }
static void puts(std::string& k, const std::string& s) { auto n = s.size(); k.append(reinterpret_cast<const char*>(&n), sizeof n); k += s; }

struct Req {
   int ctor = 0; int route = R_DIRECT;
   std::string word;
   const Type* type = nullptr;
   const Expr* expr = nullptr;
   const Expr_list* args = nullptr;
   const Template* tmpl = nullptr;
   const Name* name = nullptr;       // symbol
   std::string name_word;            // identifier spelling for suffix/label
};

struct Harness {
   // Strings that this Lexicon did not intern: words of another Lexicon and free-standing String nodes (declared first:
   // they outlive `lex`, whose nodes may refer to them)
   impl::Lexicon other;
   std::deque<std::u8string> foreign_bytes;
   std::deque<impl::String> foreign_nodes;
   std::set<std::string> foreign_ever;      // spellings ever requested through a String the Lexicon did not intern
   std::u8string slot_bytes; std::optional<impl::String> slot;      // one client String node, re-created in place
   std::set<std::string> recyclable;        // spellings that may come through the recycled slot (see str())
   impl::Lexicon lex;
   impl::Translation_unit unit { lex };
   Rng rng;
   std::vector<std::string> words;
   std::vector<std::string> long_prefix_words;
   std::vector<const Type*> types;
   std::vector<const Expr*> exprs;
   std::vector<const Expr_list*> arglists;
   std::vector<const Template*> templates;
   std::vector<const Name*> names;
   std::vector<Req> history;
   std::unordered_map<std::string, const void*> fwd[NCTOR];
   std::unordered_map<const void*, std::string> rev[NCTOR];
   long long nreq = 0;
   std::set<std::string> reserved;
   std::map<std::string, long long> sub;

   explicit Harness(std::uint64_t seed) : rng(seed)
   {
      const Lexicon& L = lex;
      for (auto w : reserved_words) { reserved.insert(narrow(w)); words.push_back(narrow(w)); }
      // near misses of reserved words + ordinary + odd spellings
      for (auto w : reserved_words) {
         std::string s = narrow(w);
         words.push_back(s + "_"); words.push_back(s.substr(0, s.size() - 1));
         std::string t = s; t[0] = char(t[0] ^ 0x20); words.push_back(t);
      }
      for (auto s : { "", "x", "y", "operator", "+", "-", "()", "[]", "new[]", "delete[]", "<=>", "co_await", "Java", "Fortran",
                      "cdecl", "stdcall", "c", "C+", "C++ ", " C", "main", "size_type", "value" })
         words.push_back(s);
      for (int b = 1; b < 256; ++b) words.push_back(std::string(1, char(b)));        // every one-byte spelling (high bytes included)
      words.push_back(std::string("nul\0inside", 10));
      words.push_back(std::string(300, 'w'));
      // long spellings that continue one another (mangled names, builtins with suffixes): every cut of one 200-byte spelling at
      // 24..40, 56..72, 120..136 and its full length, entered longest first in one family and shortest first in the other, plus
      // same-byte fillers of those sizes -- a proper prefix of a known spelling is another spelling
      for (int fam = 0; fam < 2; ++fam) {
         std::string longw = fam ? "__builtin_ia32_vfmaddsubps512_mask3_round" : "_ZN3ipr4impl7LexiconC2Ev";
         while (longw.size() < 200) longw += char('a' + rng.below(26));
         std::vector<std::size_t> cuts; for (std::size_t lo : { 24u, 56u, 120u }) for (std::size_t k = lo; k <= lo + 16; ++k) cuts.push_back(k);
         cuts.push_back(200);
         if (fam) std::reverse(cuts.begin(), cuts.end());
         for (auto k : cuts) { words.push_back(longw.substr(0, k)); long_prefix_words.push_back(words.back()); }
      }
      for (std::size_t k : { 31u, 32u, 33u, 64u, 65u }) words.push_back(std::string(k, 'f'));
      for (int i = 0; i < 40; ++i) { std::string s; int n = 1 + int(rng.below(12)); for (int j = 0; j < n; ++j) s += char('a' + rng.below(26)); words.push_back(s); }
      const Type* b[] = { &L.void_type(), &L.bool_type(), &L.char_type(), &L.int_type(), &L.long_type(), &L.double_type(), &L.typename_type(), &L.class_type() };
      for (auto t : b) types.push_back(t);
      auto& greg = *unit.global_region();
      types.push_back(lex.make_class(greg)); types.push_back(lex.make_class(greg)); types.push_back(lex.make_union(greg));
      types.push_back(lex.make_enum(greg, Enum::Kind::Legacy));
      for (int i = 0; i < 10; ++i) types.push_back(&lex.get_pointer(*types[rng.below(types.size())]));
      types.push_back(&lex.get_qualified(Qualifiers(1), L.int_type()));
      exprs.push_back(&L.true_value()); exprs.push_back(&L.nullptr_value());
      for (int i = 0; i < 6; ++i) exprs.push_back(lex.make_phantom());
      for (auto t : types) exprs.push_back(t);
      for (int i = 0; i < 6; ++i) {
         auto* xl = lex.make_expr_list();
         for (int j = 0; j < i % 4; ++j) xl->push_back(exprs[rng.below(exprs.size())]);
         arglists.push_back(xl);
      }
      // a few templates for deduction-guide names
      impl::Warehouse<Type> w; w.push_back(L.typename_type());
      auto& fa = lex.get_forall(lex.get_product(w), L.class_type());
      auto& fb = lex.get_forall(lex.get_product(w), L.int_type());
      for (int i = 0; i < 5; ++i) {
         std::string n = "Tpl" + std::to_string(i % 3);
         auto& id = ident(n, 0);
         templates.push_back(unit.global_scope()->make_primary_template(id, i % 2 ? fa : fb));
      }
      // redeclarations of some of them: a redeclared template is a different Template node (another argument for get_guide_name)
      for (int i = 0; i < 3; ++i) templates.push_back(unit.global_scope()->make_primary_template(ident("Tpl" + std::to_string(i), 0), i % 2 ? fa : fb));
   }

   // the String operand of a String-taking overload: the Lexicon's own interned word, the equally spelled word of another
   // Lexicon, or a free-standing String node -- "same arguments" for a spelling-keyed constructor means same spelling
   const String& str(const std::string& w, int variant)
   {
      auto u8 = widen(w);
      const int src = (variant >> 2) & 3;
      if (src == 1) { foreign_ever.insert(w); ctx().count("string_operands_from_another_lexicon"); return other.get_string(u8); }
      if (src == 2) {
         foreign_ever.insert(w); ctx().count("string_operands_free_standing");
         foreign_bytes.emplace_back(u8); foreign_nodes.emplace_back(util::word_view(foreign_bytes.back()));
         return foreign_nodes.back();
      }
      if (src == 3 && recyclable.count(w)) {
         // a client String node in a slot that is re-used for every such request (same address, other spelling each time) -- used
         // only for spellings the constructor already knows or that are reserved, for which the library keeps no reference
         slot_bytes.assign(u8.begin(), u8.end());
         slot.emplace(util::word_view(slot_bytes));
         foreign_ever.insert(w); ctx().count("string_operands_in_a_recycled_slot");
         return *slot;
      }
      return lex.get_string(u8);
   }
   bool own_string(const String& s, const std::string& w) { return foreign_ever.count(w) ? narrow(s.characters()) == w : &s == &lex.get_string(widen(w)); }

   const Identifier& ident(const std::string& w, int variant)
   {
      Req r; r.ctor = IDENT; r.word = w;
      return *static_cast<const Identifier*>(static_cast<const Name*>(execute(r, variant)));
   }

   Req fresh()
   {
      Req r; r.ctor = int(rng.below(NCTOR));
      switch (r.ctor) {
      case IDENT: case OPER: case LOGO: case LINKAGE: case CONVENTION: r.word = rng.pick(words); break;
      case SUFFIX: r.name_word = rng.pick(words); break;
      case CONV: case CTOR: case DTOR: r.type = rng.pick(types); break;
      case GUIDE: r.tmpl = rng.pick(templates); break;
      case TEMPLATE_ID: r.expr = rng.pick(exprs); r.args = rng.pick(arglists); break;
      case SYMBOL:
         r.route = int(rng.below(3));
         r.type = rng.pick(types);
         if (r.route == R_LABEL) r.name_word = rng.pick(words);
         else if (r.route == R_DIRECT) {
            if (names.empty() || rng.chance(50)) r.name_word = rng.pick(words); else r.name = rng.pick(names);
         }
         break;
      case LITERAL: r.type = rng.pick(types); r.word = rng.pick(words); break;
      }
      return r;
   }

   const void* execute(const Req& r, int variant)
   {
      ++nreq;
      const Lexicon& L = lex;
      std::string key; const void* node = nullptr; const Node* asnode = nullptr; Category_code cat = Category_code::Unknown;
      bool is_constant = false;          // the answer must be a process-wide constant, not a table node
      // the spelling as the callee sees it: a view of a terminated string of its own, of an exact-size unterminated heap
      // buffer, or of the front of a longer buffer (continued so as to spell another reserved word where one exists, else by
      // arbitrary text) -- what is asked is what the view covers
      std::string carrier; std::unique_ptr<char8_t[]> exact;
      util::word_view u8 = widen(r.word);
      switch ((variant >> 4) & 3) {
      case 1: exact.reset(new char8_t[r.word.size() ? r.word.size() : 1]); std::memcpy(exact.get(), r.word.data(), r.word.size()); u8 = util::word_view(exact.get(), r.word.size()); ctx().count("spellings_in_an_unterminated_buffer"); break;
      case 2: { carrier = r.word + (rng.chance(50) ? " long" : "_t");
                for (auto w : reserved_words) { std::string rw = narrow(w); if (rw.size() > r.word.size() && rw.compare(0, r.word.size(), r.word) == 0) { carrier = rw; break; } }
                u8 = util::word_view(reinterpret_cast<const char8_t*>(carrier.data()), r.word.size()); ctx().count("spellings_as_the_front_of_a_longer_buffer"); break; }
      case 3: carrier = r.word + std::string("+16 x;").substr(rng.below(5)); u8 = util::word_view(reinterpret_cast<const char8_t*>(carrier.data()), r.word.size()); ctx().count("spellings_as_the_front_of_a_longer_buffer"); break;
      default: break;
      }
      switch (r.ctor) {
      case IDENT: {
         const bool known = reserved.count(r.word) || fwd[IDENT].count([&] { std::string k; puts(k, r.word); return k; }());
         if (known) recyclable.insert(r.word); else recyclable.erase(r.word);
         auto& n = (variant & 1) ? lex.get_identifier(str(r.word, variant)) : lex.get_identifier(u8);
         recyclable.erase(r.word);
         puts(key, r.word); node = static_cast<const Name*>(&n); asnode = &n; cat = Category_code::Identifier;
         if (narrow(n.string().characters()) != r.word) bad(r, "identifier spelled differently from the request");
         if (!own_string(n.string(), r.word)) bad(r, "identifier's string is not the interned word");
         is_constant = reserved.count(r.word) != 0;
         break;
      }
      case OPER: {
         auto& n = (variant & 1) ? lex.get_operator(str(r.word, variant)) : lex.get_operator(u8);
         puts(key, r.word); node = static_cast<const Name*>(&n); asnode = &n; cat = Category_code::Operator;
         if (!own_string(n.opname(), r.word)) bad(r, "operator name is not the interned word");
         break;
      }
      case SUFFIX: {
         auto& id = ident(r.name_word, variant >> 1);
         auto& n = lex.get_suffix(id);
         put(key, &id); node = static_cast<const Name*>(&n); asnode = &n; cat = Category_code::Suffix;
         if (&n.name() != &id) bad(r, "suffix does not report its identifier");
         break;
      }
      case CONV: { auto& n = lex.get_conversion(*r.type); put(key, r.type); node = static_cast<const Name*>(&n); asnode = &n; cat = Category_code::Conversion; if (&n.target() != r.type) bad(r, "operand"); break; }
      case CTOR: { auto& n = lex.get_ctor_name(*r.type); put(key, r.type); node = static_cast<const Name*>(&n); asnode = &n; cat = Category_code::Ctor_name; if (&n.object_type() != r.type) bad(r, "operand"); break; }
      case DTOR: { auto& n = lex.get_dtor_name(*r.type); put(key, r.type); node = static_cast<const Name*>(&n); asnode = &n; cat = Category_code::Dtor_name; if (&n.object_type() != r.type) bad(r, "operand"); break; }
      case GUIDE: { auto& n = lex.get_guide_name(*r.tmpl); put(key, r.tmpl); node = static_cast<const Name*>(&n); asnode = &n; cat = Category_code::Guide_name; if (&n.mapping_decl() != r.tmpl) bad(r, "operand"); break; }
      case TEMPLATE_ID: {
         const Template_id* n = (variant & 1) ? &lex.get_template_id(*r.expr, *r.args) : static_cast<const Template_id*>(lex.make_template_id(*r.expr, *r.args));
         put(key, r.expr); put(key, r.args); node = static_cast<const Name*>(n); asnode = n; cat = Category_code::Template_id;
         if (&n->template_name() != r.expr || &n->args() != r.args) bad(r, "operand");
         break;
      }
      case LOGO: {
         auto& n = lex.get_logogram(str(r.word, variant | 1));
         puts(key, r.word); node = &n;
         if (!own_string(n.what(), r.word)) bad(r, "logogram does not report the interned word");
         break;
      }
      case SYMBOL: {
         const Symbol* n = nullptr; const Name* nm = nullptr; const Type* ty = r.type;
         if (r.route == R_LABEL) {
            auto& id = ident(r.name_word, variant >> 1);
            n = &lex.get_label(id); nm = &id; ty = &L.void_type();
            if (r.name_word == "default") {
               is_constant = true;
               if (n != &L.default_value()) ctx().viol("label:default-lookalike", "get_label(identifier \"default\") is not Lexicon::default_value()", describe(r));
               ty = &L.default_value().type();
            }
         } else if (r.route == R_THIS) {
            n = &lex.get_this(*r.type);
            nm = &ident("this", variant >> 1);
         } else {
            nm = r.name ? r.name : static_cast<const Name*>(&ident(r.name_word, variant >> 1));
            n = &lex.get_symbol(*nm, *r.type);
         }
         put(key, nm); put(key, ty); node = static_cast<const Expr*>(n); asnode = n; cat = Category_code::Symbol;
         if (&n->name() != nm) bad(r, "symbol does not report its name (or `this`/label route uses another Identifier)");
         if (&n->type() != ty) bad(r, "symbol does not report its type");
         ctx().count(r.route == R_LABEL ? "symbol_route_label" : r.route == R_THIS ? "symbol_route_this" : "symbol_route_direct");
         break;
      }
      case LITERAL: {
         const Literal* n = nullptr;
         switch (variant & 3) {
         case 0: n = &lex.get_literal(*r.type, u8); break;
         case 1: n = &lex.get_literal(*r.type, str(r.word, variant)); break;
         case 2: n = lex.make_literal(*r.type, u8); break;
         default: n = lex.make_literal(*r.type, str(r.word, variant)); break;
         }
         put(key, r.type); puts(key, r.word); node = static_cast<const Expr*>(n); asnode = n; cat = Category_code::Literal;
         if (&n->type() != r.type || !own_string(n->string(), r.word)) bad(r, "literal does not report its type/spelling");
         break;
      }
      case LINKAGE: {
         // a linkage the Lexicon already has (or a standard one) may be asked for through the client's recycled String slot
         const bool known = r.word == "C" || r.word == "C++" || fwd[LINKAGE].count([&] { std::string k; puts(k, r.word); return k; }());
         if (known) recyclable.insert(r.word); else recyclable.erase(r.word);
         auto& n = (variant & 1) ? lex.get_linkage(str(r.word, variant)) : lex.get_linkage(u8);
         recyclable.erase(r.word);
         puts(key, r.word); node = &n;
         if (narrow(n.language().what().characters()) != r.word) bad(r, "linkage spelled differently from the request");
         if (r.word == "C") { is_constant = true; if (&n != &L.c_linkage()) ctx().viol("linkage:C-lookalike", "get_linkage(\"C\") is not Lexicon::c_linkage()", describe(r)); }
         if (r.word == "C++") { is_constant = true; if (&n != &L.cxx_linkage()) ctx().viol("linkage:C++-lookalike", "get_linkage(\"C++\") is not Lexicon::cxx_linkage()", describe(r)); }
         break;
      }
      case CONVENTION: {
         auto& n = lex.get_calling_convention(u8);
         puts(key, r.word); node = &n;
         if (narrow(n.name().what().characters()) != r.word) bad(r, "calling convention spelled differently from the request");
         break;
      }
      }
      if (asnode && asnode->category != cat) ctx().viol(std::string(ctor_name[r.ctor]) + ":category", "wrong category code", describe(r));
      auto& F = fwd[r.ctor]; auto& R = rev[r.ctor];
      auto it = F.find(key);
      if (it == F.end()) {
         if (R.count(node)) ctx().viol(std::string(ctor_name[r.ctor]) + ":wrongly-shared", "new arguments returned the node of different arguments", describe(r));
         else { F.emplace(key, node); R.emplace(node, key); }
         ctx().count(std::string("distinct_keys:") + ctor_name[r.ctor]);
         if (!is_constant && !(r.ctor == LOGO && (r.word.empty() || reserved.count(r.word)))) ++sub[ctor_name[r.ctor]];
      } else {
         ctx().count(std::string("re_requests:") + ctor_name[r.ctor]);
         if (it->second != node) ctx().viol(std::string(ctor_name[r.ctor]) + ":not-shared", "the same arguments returned a different node than before", describe(r));
      }
      ctx().eval(hash_bytes(key, r.ctor + 100), true);
      if (asnode && it == F.end() && r.ctor <= TEMPLATE_ID && names.size() < 500) names.push_back(static_cast<const Name*>(node));
      return node;
   }

   // Long, unique spellings (20-60 KB each) requested through every spelling-keyed constructor until the string arena has
   // rolled over `rollovers` pools: names built late in a Lexicon's life, on fresh pools, with other requests in between.
   void bulk_spellings(int rollovers)
   {
      const auto& arena = Inspector::arena(Inspector::strings(static_cast<const impl::name_factory&>(lex)));
      const long long start = Inspector::arena_pools(arena);
      long long serial = 0;
      while (Inspector::arena_pools(arena) < start + rollovers && serial < 400) {
         std::string w = "bulk" + std::to_string(serial++) + "_";
         const std::size_t len = 20000 + rng.below(40000);
         while (w.size() < len) w += char('a' + rng.below(26));
         words.push_back(w);
         const int ctors[] = { IDENT, OPER, LOGO, LITERAL, LINKAGE, CONVENTION };
         Req r; r.ctor = ctors[rng.below(6)]; r.word = w; r.type = rng.pick(types);
         execute(r, int(rng.below(64))); history.push_back(r);
         // ordinary requests in between, some of them for short new words
         for (int k = 0; k < 3; ++k) {
            Req q = fresh();
            if (rng.chance(30)) { q.ctor = IDENT; q.word = "late" + std::to_string(serial) + "_" + std::to_string(k); words.push_back(q.word); }
            execute(q, int(rng.below(64))); history.push_back(q);
         }
         ctx().count("bulk_spellings");
      }
      ctx().count("string_pool_rollovers_during_name_requests", Inspector::arena_pools(arena) - start);
   }
   // Spellings that continue one another, through every spelling-keyed constructor, in pool order (one family longest first, the
   // other shortest first), then all of them again in the opposite order.
   void continued_spellings()
   {
      const int ctors[] = { IDENT, OPER, LOGO, LITERAL, LINKAGE, CONVENTION, SUFFIX };
      for (int c : ctors) {
         for (int pass = 0; pass < 2; ++pass) {
            std::vector<std::string> ws = long_prefix_words; if (pass) std::reverse(ws.begin(), ws.end());
            for (auto& w : ws) { Req r; r.ctor = c; r.word = w; r.name_word = w; r.type = types[0]; execute(r, int(rng.below(64))); if (!pass) history.push_back(r); ctx().count("spellings_that_continue_a_known_spelling"); }
         }
      }
   }
   // back-to-back get_identifier requests through ONE client String slot that is re-created in place with another spelling
   // each time (nothing else is asked of the Lexicon in between); only spellings the Lexicon already knows
   void recycled_slot_burst()
   {
      std::vector<std::string> known;
      for (auto& r : history) if (r.ctor == IDENT) known.push_back(r.word);
      for (auto& w : reserved) known.push_back(w);
      if (known.size() < 2) return;
      for (int k = 0; k < 300; ++k) {
         Req r; r.ctor = IDENT; r.word = rng.pick(known);
         execute(r, 1 | (3 << 2));
      }
      // the same with linkages: vendor languages the Lexicon knows and the two standard ones, one after the other through the slot
      std::vector<std::string> langs { "C", "C++" };
      for (auto& r : history) if (r.ctor == LINKAGE && r.word != "C" && r.word != "C++") langs.push_back(r.word);
      if (langs.size() > 2)
         for (int k = 0; k < 120; ++k) {
            Req r; r.ctor = LINKAGE; r.word = k % 3 == 0 ? langs[2 + rng.below(langs.size() - 2)] : k % 3 == 1 ? "C" : (rng.chance(50) ? "C++" : rng.pick(langs));
            execute(r, 1 | (3 << 2)); ctx().count("linkages_asked_through_the_recycled_slot");
         }
      ctx().count("recycled_slot_bursts");
   }
   // every request of the history once more, through a random equivalent entry point
   void replay_all()
   {
      std::vector<Req> all(history);
      for (std::size_t i = all.size(); i > 1; --i) std::swap(all[i - 1], all[rng.below(i)]);
      for (auto& r : all) execute(r, int(rng.below(64)));
      ctx().count("final_replays", (long long)all.size());
   }

   void bad(const Req& r, const char* what) { ctx().viol(std::string(ctor_name[r.ctor]) + ":operands", what, describe(r)); }
   std::string describe(const Req& r)
   {
      return J().s("ctor", ctor_name[r.ctor]).n("route", r.route).s("word", r.word).s("name_word", r.name_word).n("request_no", nreq).str();
   }

   // A spelling has a single Identifier: every Identifier reachable without asking must be the one get_identifier returns.
   void single_identifier_rule()
   {
      const Lexicon& L = lex;
      std::vector<const Name*> reachable;
      const Type* b[] = { &L.void_type(), &L.bool_type(), &L.char_type(), &L.schar_type(), &L.uchar_type(), &L.wchar_t_type(),
         &L.char8_t_type(), &L.char16_t_type(), &L.char32_t_type(), &L.short_type(), &L.ushort_type(), &L.int_type(), &L.uint_type(),
         &L.long_type(), &L.ulong_type(), &L.long_long_type(), &L.ulong_long_type(), &L.float_type(), &L.double_type(),
         &L.long_double_type(), &L.ellipsis_type(), &L.typename_type(), &L.class_type(), &L.union_type(), &L.enum_type(),
         &L.namespace_type(), &L.default_value().type() };
      for (auto t : b) reachable.push_back(&t->name());
      for (auto s : { &L.true_value(), &L.false_value(), &L.nullptr_value(), &L.default_value(), &L.delete_value() }) reachable.push_back(&s->name());
      { Req r; r.ctor = SYMBOL; r.route = R_THIS; r.type = &L.int_type();
        reachable.push_back(&static_cast<const Symbol*>(static_cast<const Expr*>(execute(r, 0)))->name()); }
      reachable.push_back(&unit.global_namespace().name());
      for (auto nm : reachable) {
         auto id = util::view<Identifier>(*nm);
         ctx().count("single_identifier_checks");
         if (!id) { ctx().viol("single-identifier:not-an-identifier", "a built-in name is not an Identifier"); continue; }
         std::string w = narrow(id->string().characters());
         for (int v = 0; v < 2; ++v)
            if (&ident(w, v) != id)
               ctx().viol("single-identifier:second-node", "get_identifier(\"" + w + "\") is not the Identifier that the library itself uses for that spelling", J().s("word", w).str());
      }
      for (auto w : reserved_words) {
         auto& s = lex.get_string(w);
         auto& id = lex.get_identifier(w);
         auto& lg = lex.get_logogram(s);
         ctx().count("reserved_word_checks");
         if (&id.string() != &s || &lg.what() != &s)
            ctx().viol("reserved-word:three-routes-disagree", "get_string / get_identifier / get_logogram do not lead to the same String for reserved word " + narrow(w), J().s("word", narrow(w)).str());
      }
   }

   // Value equality: == holds exactly for equal spellings; != is its negation; equivalence laws on the sample.
   void value_equalities()
   {
      std::vector<std::string> sp { "C", "C++", "", "Java", "c", "C+", "cdecl", "stdcall", "C++ ", "x" };
      for (int i = 0; i < 6; ++i) sp.push_back(rng.pick(words));
      std::vector<const Linkage*> ls; std::vector<const Calling_convention*> cs; std::vector<const Logogram*> gs;
      for (auto& s : sp) {
         ls.push_back(&lex.get_linkage(widen(s)));
         ls.push_back(&lex.get_linkage(lex.get_string(widen(s))));
         cs.push_back(&lex.get_calling_convention(widen(s)));
         gs.push_back(&lex.get_logogram(lex.get_string(widen(s))));
      }
      ls.push_back(&static_cast<const Lexicon&>(lex).c_linkage()); ls.push_back(&static_cast<const Lexicon&>(lex).cxx_linkage());
      cs.push_back(&impl::cxx_transfer().convention());
      auto lsp = [](const Linkage& l) { return narrow(l.language().what().characters()); };
      auto csp = [](const Calling_convention& c) { return narrow(c.name().what().characters()); };
      auto check = [&](const char* what, bool eq, bool ne, bool same) {
         ctx().count("equality_pairs");
         if (eq != same) ctx().viol(std::string("equality:") + what + (same ? ":equal-spellings-unequal" : ":different-spellings-equal"), std::string(what) + " operator== disagrees with spelling equality");
         if (ne == eq) ctx().viol(std::string("equality:") + what + ":ne-not-negation", std::string(what) + " operator!= is not the negation of operator==");
      };
      for (auto a : ls) for (auto b2 : ls) check("linkage", *a == *b2, *a != *b2, lsp(*a) == lsp(*b2));
      for (auto a : cs) for (auto b2 : cs) check("calling_convention", *a == *b2, *a != *b2, csp(*a) == csp(*b2));
      for (auto a : gs) for (auto b2 : gs) check("logogram", *a == *b2, *a != *b2, narrow(a->what().characters()) == narrow(b2->what().characters()));
      std::vector<const Transfer*> ts;
      for (std::size_t i = 0; i < ls.size(); i += 3) for (std::size_t j = 0; j < cs.size(); j += 2) ts.push_back(&lex.get_transfer(*ls[i], *cs[j]));
      ts.push_back(&impl::cxx_transfer());
      for (auto l : ls) ts.push_back(&lex.get_transfer_from_linkage(*l));
      for (auto c : cs) ts.push_back(&lex.get_transfer_from_convention(*c));
      for (auto a : ts) for (auto b2 : ts)
         check("transfer", *a == *b2, *a != *b2, lsp(a->linkage()) == lsp(b2->linkage()) && csp(a->convention()) == csp(b2->convention()));
   }

   template<class T, class Cmp>
   void table(const char* name, const util::rb_tree::container<T>& t, Cmp cmp, long long expect)
   {
      long long sz = 0; int h = 0;
      std::string e = check_table(t, cmp, &sz, &h);
      ctx().count("table_validations");
      ctx().maxi(std::string("table_size:") + name, sz);
      if (!e.empty()) ctx().viol(std::string("table:") + name + ":" + e.substr(0, 48), std::string("live table ") + name + ": " + e);
      if (expect >= 0 && sz != expect)
         ctx().viol(std::string("table:") + name + ":conservation", std::string("live table ") + name + " holds " + std::to_string(sz) + " nodes but " + std::to_string(expect) + " distinct keys were requested");
   }
   void quiescent()
   {
      const impl::name_factory& nf = lex; const impl::expr_factory& ef = lex;
      auto by_word = [](auto f) { return [f](auto& a, auto& b) { return cmp_words(f(a), f(b)); }; };
      auto un = [](auto& a, auto& b) { return cmp_addr(&a.operand(), &b.operand()); };
      table("ids", Inspector::ids(nf), by_word([](auto& x) { return x.string().characters(); }), sub["identifier"]);
      table("ops", Inspector::ops(nf), by_word([](auto& x) { return x.opname().characters(); }), sub["operator"]);
      table("logos", Inspector::logos(nf), by_word([](auto& x) { return x.what().characters(); }), -1);
      table("suffixes", Inspector::suffixes(nf), un, sub["suffix"]);
      table("convs", Inspector::convs(nf), un, sub["conversion"]);
      table("ctors", Inspector::ctors(nf), un, sub["ctor_name"]);
      table("dtors", Inspector::dtors(nf), un, sub["dtor_name"]);
      table("guide_ids", Inspector::guide_ids(nf), un, sub["guide_name"]);
      table("template_ids", Inspector::template_ids(ef), [](auto& a, auto& b) { if (int c = cmp_addr(&a.first(), &b.first())) return c; return cmp_addr(&a.second(), &b.second()); }, sub["template_id"]);
      table("lits", Inspector::lits(ef), [](auto& a, auto& b) { if (int c = cmp_addr(&a.first(), &b.first())) return c; return cmp_words(a.second().characters(), b.second().characters()); }, sub["literal"]);
      table("symbols", Inspector::symbols(ef), [](auto& a, auto& b) { if (int c = cmp_addr(&a.name(), &b.name())) return c; return cmp_addr(&a.type(), &b.type()); }, sub["symbol"]);
      table("linkages", Inspector::linkages(ef), by_word([](auto& x) { return x.language().what().characters(); }), -1);
      table("conventions", Inspector::conventions(ef), by_word([](auto& x) { return x.name().what().characters(); }), -1);
   }
};

static void body(Ctx& C)
{
   C.rule("a case = one name/atom request (constructor, canonical key); distinct = distinct (constructor,key) pairs; random "
          "interleaving over identifier/operator/suffix/conversion/ctor/dtor/guide/template-id/logogram/symbol(+label,+this)/"
          "literal/linkage/convention with spellings drawn from all 56 reserved words, their near misses, odd byte strings and "
          "random words; 40% re-requests through an equivalent entry point; plus the single-Identifier rule over every Identifier "
          "the library hands out unasked, reserved-word route agreement, and ==/!= of linkage/convention/transfer/logogram over all "
          "pairs of a spelling pool; live tables validated through the hook");
   C.assume("the 56 reserved spellings of the pinned tree are the oracle for which identifiers are process-wide constants");
   for (int c = 0; c < NCTOR; ++c) { C.need(std::string("distinct_keys:") + ctor_name[c]); C.need(std::string("re_requests:") + ctor_name[c]); }
   C.need("spellings_in_an_unterminated_buffer"); C.need("spellings_that_continue_a_known_spelling"); C.need("spellings_as_the_front_of_a_longer_buffer"); C.need("string_operands_from_another_lexicon"); C.need("string_operands_free_standing"); C.need("string_operands_in_a_recycled_slot"); C.need("recycled_slot_bursts"); C.need("linkages_asked_through_the_recycled_slot"); C.need("single_identifier_checks"); C.need("reserved_word_checks"); C.need("equality_pairs"); C.need("table_validations");
   C.need("string_pool_rollovers_during_name_requests"); C.need("final_replays"); C.need("symbol_route_label"); C.need("symbol_route_this"); C.need("symbol_route_direct");
   const int histories = C.thorough ? 12 : 3;
   const long long nreq = C.thorough ? 150000 : 6000;
   Rng seeds(C.seed);
   for (int h = 0; h < histories; ++h) {
      Harness H(seeds.next());
      H.single_identifier_rule();
      for (long long i = 0; i < nreq; ++i) {
         if (!H.history.empty() && H.rng.chance(40)) { Req r = H.rng.pick(H.history); H.execute(r, int(H.rng.below(64))); }
         else { Req r = H.fresh(); H.execute(r, int(H.rng.below(64))); H.history.push_back(r); }
         if ((i + 1) % 4096 == 0) H.quiescent();
      }
      H.continued_spellings();
      H.bulk_spellings(C.thorough ? 6 : 2);
      H.replay_all();
      H.recycled_slot_burst();
      H.single_identifier_rule();
      H.value_equalities();
      H.quiescent();
      if (h == 0) C.sample(J().s("kind", "random-history").n("requests", nreq).raw("a_request", H.describe(H.history[H.history.size() / 3])).n("distinct_identifiers", (long long)H.fwd[IDENT].size()).str());
   }
}

int main(int argc, char** argv) { return guarded_main(argc, argv, body); }
