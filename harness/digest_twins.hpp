// Ordinary words (a-z, 0-9, _) that have the same length AND the same 32-bit digest as one of the library's 56 reserved words
// under a cheap string hash someone might plausibly use for a keyword table (FNV-1a, FNV-1, djb2, djb2-xor, sdbm, 31-multiplier).
// Found by brute force (tools/find_digest_collisions.cxx, ~2 minutes on 14 threads); a word list, nothing else: each of them is
// an ordinary word and must be interned as such.
#ifndef VERIF_DIGEST_TWINS_HPP
#define VERIF_DIGEST_TWINS_HPP
namespace vh { inline constexpr const char* digest_twins_of_reserved_words[] = {
   /* fnv1a32 */ "di8okvt7", "lxd8zy", "nzbdkz", "o9gt68", "aam0chb", "aopd7j6", "ar1z7wu", "aayc1zzh", "aa_37o7w", "aa8fuvaj",
   /* fnv1_32 */ "595w13lfs", "537kt9",
   /* djb2 */ "c52o", "aw2o", "v0ue", "thk1", "tt3e", "c3to", "chc0", "ep3m", "v23e", "conu2", "shq0t", "cop32", "g6pq0t", "floc2",
   /* djb2xor */ "el7m", "tp7e", "j6is", "g3to", "fr1at", "ew_ort", "col1t", "clg5s", "conq6", "col36", "v3blic", "xjxs9ch", "shop6", "k0ion",
   /* sdbm */ "s5gf7gn9", "0ka_l1", "byquka7", "7wp6e8iz",
   /* java31 */ "ep7m", "g27m", "auv1", "d31l", "c7to", "g0um", "d1ol", "c981", "bq1l", "aw81", "n1ng", "x1id", "aw6o", "tt7e",
}; }
#endif
