// One process per dangerous case, amortised: cases run sequentially in a forked child (on a dedicated thread with a large
// stack); the child reports progress over a pipe; when it dies (stack exhaustion, sanitizer abort, signal) or stalls, the
// parent attributes the death to the case in flight, records it, and forks a new child that resumes after that case.
// One defect therefore never masks the next, and every death has an exact (case) witness.
#ifndef VERIF_FORKRUN_HPP
#define VERIF_FORKRUN_HPP
#include "common.hpp"
#include <functional>
#include <vector>
#include <pthread.h>
#include <signal.h>
#include <sys/wait.h>
#include <sys/select.h>
#include <fcntl.h>
#include <fstream>
#include <regex>
#include <sys/mman.h>

namespace vh {

// A page shared between the parent and its case-runner children: the child notes what it is about to do (e.g. the accessor
// it is about to call) so that a death can be attributed more finely than to the case.  Plain bytes, written by the child only.
inline char* fork_note()
{
   static char* page = static_cast<char*>(mmap(nullptr, 4096, PROT_READ | PROT_WRITE, MAP_SHARED | MAP_ANONYMOUS, -1, 0));
   return page == MAP_FAILED ? nullptr : page;
}
inline void set_fork_note(const char* s) { if (char* p = fork_note()) { std::strncpy(p, s, 200); p[200] = 0; } }

// child-side reporter: everything goes over the pipe as tab-separated lines
struct CaseOut {
   int fd;
   void line(const std::string& s) { std::string t = s + "\n"; std::size_t off = 0; while (off < t.size()) { ssize_t n = ::write(fd, t.data() + off, t.size() - off); if (n <= 0) break; off += std::size_t(n); } }
   static std::string clean(std::string s) { for (auto& c : s) if (c == '\t' || c == '\n' || c == '\r') c = ' '; return s; }
   void viol(const std::string& key, const std::string& msg) { line("V\t" + clean(key) + "\t" + clean(msg)); }
   void count(const std::string& k, long long v = 1) { line("C\t" + clean(k) + "\t" + std::to_string(v)); }
   void eval(std::uint64_t h) { line("H\t" + std::to_string(h)); }
};

struct ForkCase {
   std::string label;                          // stable description: "<role>:<kind>"
   std::function<void(CaseOut&)> run;
};

struct BigStack {
   static constexpr std::size_t bytes = std::size_t(256) << 20;
   struct Arg { std::function<void()>* f; };
   static void* tramp(void* p) { (*static_cast<Arg*>(p)->f)(); return nullptr; }
   // run f on a fresh thread whose stack is `bytes` large (lazily committed)
   static void run(std::function<void()> f)
   {
      pthread_attr_t a; pthread_attr_init(&a); pthread_attr_setstacksize(&a, bytes);
      pthread_t t; Arg arg { &f };
      if (pthread_create(&t, &a, tramp, &arg) != 0) { f(); return; }
      pthread_join(t, nullptr);
      pthread_attr_destroy(&a);
   }
};

inline std::string sanitizer_summary_of(pid_t pid)
{
   // the driver points log_path at $VERIF_OUTDIR/san ; a child writes san.<pid>
   const char* od = std::getenv("VERIF_OUTDIR");
   if (!od) return "";
   std::ifstream in(std::string(od) + "/san." + std::to_string(pid));
   std::string l, sum, first;
   while (std::getline(in, l)) {
      if (first.empty() && l.find("ERROR:") != std::string::npos) first = l;
      if (l.rfind("SUMMARY:", 0) == 0) { sum = l; break; }
      if (l.find("runtime error:") != std::string::npos && sum.empty()) sum = l;
   }
   return sum.empty() ? first : sum;
}

#ifdef VERIF_COVERAGE
extern "C" void __gcov_dump();
#endif

struct ForkStats { long long children = 0, deaths = 0, stalls = 0, completed = 0; };

// Runs all cases; `stall_seconds`: no progress for that long => the child is killed and the case in flight recorded as hung.
inline ForkStats run_cases_forked(Ctx& C, const std::vector<ForkCase>& cases, int stall_seconds = 120)
{
   ForkStats S;
   std::size_t next = 0;
   while (next < cases.size()) {
      int pfd[2];
      if (pipe(pfd) != 0) { C.inconclusive("pipe() failed"); return S; }
      std::fflush(nullptr);
      set_fork_note("");
      pid_t pid = fork();
      if (pid < 0) { C.inconclusive("fork() failed"); return S; }
      if (pid == 0) {
         ::close(pfd[0]);
         CaseOut out { pfd[1] };
         BigStack::run([&] {
            for (std::size_t i = next; i < cases.size(); ++i) {
               out.line("B\t" + std::to_string(i));
               try { cases[i].run(out); }
               catch (const std::exception& e) { out.viol("harness:exception-escaped-case:" + cases[i].label, std::string("an exception escaped the case body: ") + e.what()); }
               catch (...) { out.viol("harness:exception-escaped-case:" + cases[i].label, "a non-standard exception escaped the case body"); }
               out.line("E\t" + std::to_string(i));
            }
         });
         ::close(pfd[1]);
#ifdef VERIF_COVERAGE
         __gcov_dump();         // developer-facing coverage build (tools/coverage.py): children leave through _exit
#endif
         _exit(0);
      }
      ++S.children;
      ::close(pfd[1]);
      // parent: read lines until EOF, with a stall watchdog
      std::string buf; long long in_flight = -1; bool stalled = false;
      for (;;) {
         fd_set rs; FD_ZERO(&rs); FD_SET(pfd[0], &rs);
         timeval tv { stall_seconds, 0 };
         int r = select(pfd[0] + 1, &rs, nullptr, nullptr, &tv);
         if (r == 0) { stalled = true; kill(pid, SIGKILL); break; }
         if (r < 0) { if (errno == EINTR) continue; break; }
         char tmp[65536];
         ssize_t n = ::read(pfd[0], tmp, sizeof tmp);
         if (n <= 0) break;
         buf.append(tmp, std::size_t(n));
         std::size_t pos;
         while ((pos = buf.find('\n')) != std::string::npos) {
            std::string l = buf.substr(0, pos); buf.erase(0, pos + 1);
            if (l.size() < 2) continue;
            std::vector<std::string> f; { std::size_t a = 0, b; while ((b = l.find('\t', a)) != std::string::npos) { f.push_back(l.substr(a, b - a)); a = b + 1; } f.push_back(l.substr(a)); }
            if (f[0] == "B" && f.size() > 1) in_flight = std::atoll(f[1].c_str());
            else if (f[0] == "E" && f.size() > 1) { ++S.completed; next = std::size_t(std::atoll(f[1].c_str())) + 1; in_flight = -1; }
            else if (f[0] == "V" && f.size() > 2) C.viol(f[1], f[2], J().s("case", in_flight >= 0 ? cases[std::size_t(in_flight)].label : "?").n("case_index", in_flight).str());
            else if (f[0] == "C" && f.size() > 2) C.count(f[1], std::atoll(f[2].c_str()));
            else if (f[0] == "H" && f.size() > 1) C.eval(std::strtoull(f[1].c_str(), nullptr, 10));
            else if (f[0] == "S" && f.size() > 1) C.sample(f[1], 4);
         }
      }
      ::close(pfd[0]);
      int status = 0; waitpid(pid, &status, 0);
      if (in_flight >= 0) {
         const ForkCase& k = cases[std::size_t(in_flight)];
         if (stalled) {
            ++S.stalls;
            C.viol("no-termination:" + k.label + (fork_note() && *fork_note() ? std::string(":") + fork_note() : std::string()), "the case made no progress for " + std::to_string(stall_seconds) + " s and was killed (all inputs are finite graphs)", J().s("case", k.label).n("case_index", in_flight).str());
         } else {
            ++S.deaths;
            std::string sum = sanitizer_summary_of(pid);
            std::string kind = "died";
            std::smatch m;
            if (std::regex_search(sum, m, std::regex("Sanitizer: ([A-Za-z-]+)"))) kind = m[1];
            else if (sum.find("runtime error:") != std::string::npos) kind = "undefined-behaviour";
            else if (WIFSIGNALED(status)) kind = "signal-" + std::to_string(WTERMSIG(status));
            else if (WIFEXITED(status)) kind = "exit-" + std::to_string(WEXITSTATUS(status));
            std::string note = fork_note() ? std::string(fork_note()) : std::string();
            C.viol("crash:" + kind + ":" + k.label + (note.empty() ? "" : ":" + note), "the process died while running this case" + (note.empty() ? std::string() : " at " + note) + " (" + (sum.empty() ? kind : sum) + ")", J().s("case", k.label).n("case_index", in_flight).s("sanitizer", sum).s("note", note).str());
         }
         next = std::size_t(in_flight) + 1;
      } else if (!(WIFEXITED(status) && WEXITSTATUS(status) == 0)) {
         if (next < cases.size()) { C.inconclusive("a case-runner child ended abnormally outside any case"); return S; }
      } else if (stalled) { C.inconclusive("a case-runner child stalled outside any case"); return S; }
   }
   C.count("forked_children", S.children); C.count("cases_completed", S.completed); C.count("cases_died", S.deaths); C.count("cases_stalled", S.stalls);
   return S;
}
} // namespace vh
#endif
