// C14 -- missing or out-of-range data raises a logic error, never undefined behaviour.
// Every node the factories produce (all-factories sweep: every kind, every set/unset combination of its post-construction
// links; plus what those nodes hand out; plus purpose-built containers of 0/1/2/17/1000 members) is dispatched to its leaf
// interface class; there EVERY zero-argument const member function the interface headers declare (name list generated from
// the headers at build time, applicability decided by the compiler through `requires`) is called.  Each call must return a
// usable value (the result is touched: nodes are identified, sequences iterated and indexed in and out of bounds, optionals
// unwrapped, plain objects swept recursively) or throw something derived from std::logic_error.  Runs in forked children
// under ASan+UBSan: a trap is attributed to the (class, accessor) noted in shared memory and the sweep resumes after it.
#include "sweep_all.hpp"
#include "collect.hpp"
#include "forkrun.hpp"
#include "gen/categories.hpp"
#include "gen/accessor_names.hpp"
#include <type_traits>

using namespace vh;

namespace {
struct Out {
   CaseOut* out = nullptr;
   std::string cls;                         // interface class of the root being swept
   std::string state;                       // factory/state label of the root
   long long zero_values = 0, nonzero_values = 0, calls = 0, values = 0, refusals = 0, sequences = 0, non_ascending_first_visits = 0, elements = 0, out_of_range = 0, optionals_empty = 0, optionals_set = 0, objects = 0, keyed_lookups = 0, iterator_walk_moves = 0;
   std::set<const Node*>* seen = nullptr;
   std::vector<const Node*>* discovered = nullptr;
   std::map<std::string, long long> per_accessor;
   std::map<std::string, long long> classes;
   void viol(const std::string& key, const std::string& msg) { out->viol(key, msg + " [node built by " + state + "]"); }
};

template<class T> struct is_optional : std::false_type { };
template<class T> struct is_optional<Optional<T>> : std::true_type { };
template<class T> concept SequenceLike = requires(const T& v) { typename T::value_type; v.size(); v.begin(); v.end(); v.position(std::size_t { }); } && std::is_base_of_v<ipr::Sequence<typename T::value_type>, T>;
template<class T> concept ViewLike = requires(const T& v) { v.data(); v.size(); } && !SequenceLike<T>;

template<class T> void touch(Out& o, const T& v, int depth, const std::string& where);

// one call of one accessor: value (touched), logic_error, or a violation
template<class F> void call(Out& o, const std::string& where, int depth, F f)
{
   set_fork_note(where.c_str());
   ++o.calls; ++o.per_accessor[where];
   try {
      decltype(auto) r = f();
      ++o.values;
      touch(o, r, depth, where);
   }
   catch (const std::logic_error&) { ++o.refusals; }
   catch (const std::exception& e) { o.viol("wrong-exception:" + where + ":" + demangle(typeid(e).name()), where + "() raised " + demangle(typeid(e).name()) + " (" + e.what() + "), which is not derived from std::logic_error"); }
   catch (...) { o.viol("wrong-exception:" + where + ":non-standard", where + "() raised something that is not a standard exception"); }
}

// out-of-range element access must be refused with a logic error
template<class F> void must_refuse(Out& o, const std::string& where, const std::string& what, F f)
{
   set_fork_note((where + " " + what).c_str());
   ++o.out_of_range;
   try { f(); o.viol("out-of-range-not-refused:" + where, where + ": " + what + " returned instead of raising a logic error"); }
   catch (const std::logic_error&) { }
   catch (const std::exception& e) { o.viol("wrong-exception:" + where + ":" + demangle(typeid(e).name()), where + ": " + what + " raised " + demangle(typeid(e).name()) + ", which is not derived from std::logic_error"); }
   catch (...) { o.viol("wrong-exception:" + where + ":non-standard", where + ": " + what + " raised something that is not a standard exception"); }
}

template<class S> void touch_sequence(Out& o, const S& s, int depth, const std::string& where)
{
   using Elem = typename S::value_type;
   ++o.sequences;
   const std::size_t n = s.size();
   if (s.empty() != (n == 0)) o.viol("sequence:empty-disagrees-with-size:" + where, where + ": empty() disagrees with size()");
   // the first visit of a sequence is not always an ascending walk: every third sequence is first read from its last element down
   // (positional access, then --end() repeatedly), every third one from the middle outwards; whatever order the positions are
   // first read in, each is a valid element and the ascending walk below finds the same elements
   std::vector<const Elem*> first_seen(std::min<std::size_t>(n, 64), nullptr);
   static unsigned long visit_serial = 0;
   const int order = int(visit_serial++ % 3);
   if (n > 0 && order != 0) {
      set_fork_note((where + (order == 1 ? " descending first visit" : " middle-outwards first visit")).c_str());
      ++o.non_ascending_first_visits;
      if (order == 1) {
         auto it = s.end();
         for (std::size_t i = n; i-- > 0; ) {
            --it;
            const Elem& a = *s.position(i); const Elem& b = *it;
            if (&a != &b) o.viol("sequence:backward-iteration-disagrees-with-position:" + where, where + ": element " + std::to_string(i) + " reached by walking back from end() is not the one position() designates");
            if (i < first_seen.size()) first_seen[i] = &a;
            if (depth > 0 && (i < 8 || i + 3 >= n)) touch(o, a, 0, where + "[i]");
            if (n - i > 70) break;
         }
      } else {
         const std::size_t mid = n / 2;
         for (std::size_t d = 0; d <= mid && d < 40; ++d)
            for (std::size_t i : { mid - d, mid + d }) {
               if (i >= n) continue;
               const Elem& a = *s.position(i);
               if (i < first_seen.size()) first_seen[i] = &a;
               if (depth > 0 && d < 6) touch(o, a, 0, where + "[i]");
            }
      }
   }
   std::size_t count = 0;
   set_fork_note((where + " iteration").c_str());
   for (auto it = s.begin(); it != s.end() && count <= n + 3; ++it, ++count) {
      const Elem& e = *it;
      if (count < n) {
         const Elem& p = *s.position(count);
         if (&p != &e) o.viol("sequence:iteration-disagrees-with-position:" + where, where + ": element " + std::to_string(count) + " reached by iteration is not the one position() designates");
         if (count < first_seen.size() && first_seen[count] && first_seen[count] != &e) o.viol("sequence:element-depends-on-visiting-order:" + where, where + ": element " + std::to_string(count) + " reached by an ascending walk is not the one an earlier out-of-order read of that position returned");
      }
      ++o.elements;
      if (depth > 0 && (count < 40 || count + 3 >= n)) touch(o, e, depth - 1, where + "[i]");
   }
   if (count != n) o.viol("sequence:iteration-count:" + where, where + ": iteration visits " + std::to_string(count) + " elements, size() is " + std::to_string(n));
   // reverse walk from end()
   if (n > 0) { auto it = s.end(); --it; const Elem& last = *it; if (&last != &*s.position(n - 1)) o.viol("sequence:decrement-from-end:" + where, where + ": --end() does not designate the last element"); }
   // at and beyond size(): refused
   const std::size_t probes[] = { n, n + 1, n + 2, std::size_t(1) << 31, std::size_t(1) << 32, ~std::size_t(0) / 2, ~std::size_t(0) / 2 + 1, ~std::size_t(0) - 1, ~std::size_t(0) };
   for (auto i : probes) if (i >= n) must_refuse(o, where, "element at index " + (i <= n + 2 ? "size()+" + std::to_string(i - n) : std::to_string(i)), [&] { (void)&*s.position(i); });
   must_refuse(o, where, "element before begin()", [&] { auto it = s.begin(); --it; (void)&*it; });
   must_refuse(o, where, "element at end()", [&] { (void)&*s.end(); });
   // One iterator object that has been READ and is then moved out of range by each of the four moves, and read again: the read
   // after the move is refused whatever was read before it; moved back in range, it reads the element of its position again.
   if (n > 0) {
      const Elem* first = &*s.position(0); const Elem* last = &*s.position(n - 1);
      must_refuse(o, where, "element before begin(), after reading begin() and then it--", [&] { auto it = s.begin(); (void)&*it; (void)it.operator->(); it--; (void)&*it; });
      must_refuse(o, where, "element before begin(), after reading begin() and then --it", [&] { auto it = s.begin(); (void)&*it; --it; (void)&*it; });
      must_refuse(o, where, "element at end(), after reading the last element and then it++", [&] { auto it = s.position(n - 1); (void)&*it; it++; (void)&*it; });
      must_refuse(o, where, "element at end(), after reading the last element and then ++it", [&] { auto it = s.position(n - 1); (void)&*it; ++it; (void)it.operator->(); });
      set_fork_note((where + " iterator moved out of range and back").c_str());
      { auto it = s.begin(); (void)&*it; it--; it++; if (&*it != first) o.viol("sequence:iterator-back-in-range:" + where, where + ": an iterator read at begin(), moved before it and back, does not read the first element"); }
      { auto it = s.position(n - 1); (void)&*it; it++; it--; if (&*it != last) o.viol("sequence:iterator-back-in-range:" + where, where + ": an iterator read at the last element, moved to end() and back, does not read the last element"); }
      // a short random walk of one iterator object, read before and after every move, compared with position()
      static std::uint64_t walk_state = 0x9e3779b97f4a7c15ull;
      std::size_t idx = n / 2; auto it = s.position(idx);
      for (int step = 0; step < 12; ++step) {
         walk_state = walk_state * 6364136223846793005ull + 1442695040888963407ull;
         int mv = int((walk_state >> 33) % 4);
         if (idx == 0 && mv >= 2) mv -= 2;
         if (idx + 1 >= n && mv < 2) mv += 2;
         if (idx == 0 && idx + 1 >= n) break;
         if (&*it != &*s.position(idx)) { o.viol("sequence:iterator-walk:" + where, where + ": an iterator does not read the element at its index"); break; }
         if (mv == 0) { ++it; ++idx; } else if (mv == 1) { it++; ++idx; } else if (mv == 2) { --it; --idx; } else { it--; --idx; }
         if (&*it != &*s.position(idx) || it.operator->() != &*s.position(idx)) { o.viol(std::string("sequence:iterator-walk:after-") + (mv == 0 ? "pre-increment" : mv == 1 ? "post-increment" : mv == 2 ? "pre-decrement" : "post-decrement") + ":" + where, where + ": an iterator that was read and then moved does not read the element at its new index"); break; }
         ++o.iterator_walk_moves;
      }
   }
}

template<class T> void sweep_object(Out& o, const T& v, int depth, const std::string& cls);

template<class T> void touch(Out& o, const T& v, int depth, const std::string& where)
{
   using U = std::remove_cvref_t<T>;
   if constexpr (std::is_base_of_v<Node, U>) {
      // a usable node reference: its category is a code of the library and its dynamic type is intact
      const int c = int(static_cast<const Node&>(v).category);
      if (c < 0 || c >= category_code_count) o.viol("unusable-result:" + where, where + "() returned a node whose category code is " + std::to_string(c));
      (void)dynamic_cast<const void*>(static_cast<const Node*>(&v));
      // the object behind the reference really is of the class the accessor promises (a reference obtained by an unchecked
      // down-cast is not usable: every virtual call through it is undefined)
      if constexpr (std::is_polymorphic_v<U>) {
         if (dynamic_cast<const U*>(static_cast<const Node*>(&v)) != &v)
            o.viol("unusable-result:" + where + ":dynamic-type", where + "() returned a reference whose object is not of the promised class (it is a " + demangle(typeid(static_cast<const Node&>(v)).name()) + ")");
      }
      if (o.seen && o.seen->insert(static_cast<const Node*>(&v)).second && o.discovered) o.discovered->push_back(static_cast<const Node*>(&v));
   }
   else if constexpr (SequenceLike<U>) touch_sequence(o, v, depth, where);
   else if constexpr (is_optional<U>::value) {
      if (v.is_valid()) { ++o.optionals_set; touch(o, v.get(), depth, where + ".get"); }
      else { ++o.optionals_empty; must_refuse(o, where, "get() of the empty Optional", [&] { (void)&v.get(); }); }
   }
   else if constexpr (std::is_enum_v<U> || std::is_arithmetic_v<U> || std::is_pointer_v<U>) {
      // the value is branched on, so that a value that was never initialised is visible to memcheck (aux run)
      if (v == U { }) ++o.zero_values; else ++o.nonzero_values;
   }
   else if constexpr (ViewLike<U>) { std::size_t h = 0; for (std::size_t i = 0; i < v.size(); ++i) h += std::size_t(v.data()[i]); volatile auto x = h; (void)x; }
   else if constexpr (std::is_class_v<U>) { if (depth > 0) sweep_object(o, v, depth - 1, where + "."); }
}

// every zero-argument const accessor the headers declare, on whatever class has it
template<class T> void sweep_object(Out& o, const T& v, int depth, const std::string& prefix)
{
   ++o.objects;
#define VH_X(A) if constexpr (requires(const T& t) { t.A(); }) { \
      if constexpr (std::is_void_v<decltype(v.A())>) { set_fork_note((prefix + #A).c_str()); ++o.calls; try { v.A(); ++o.values; } catch (const std::logic_error&) { ++o.refusals; } } \
      else call(o, prefix + #A, depth, [&]() -> decltype(auto) { return v.A(); }); }
   VH_ACCESSOR_NAMES(VH_X)
#undef VH_X
}

struct Probes {                                   // arguments for the keyed look-ups
   std::vector<const Name*> names; std::vector<const Type*> types; std::vector<const Parameter*> params;
};

template<class K> void sweep_node(Out& o, const K& n, const char* kname, const Probes& P)
{
   o.cls = kname; ++o.classes[kname];
   const std::string prefix = std::string(kname) + ".";
   sweep_object<K>(o, n, 2, prefix);
   // accessors that take a key
   if constexpr (std::is_same_v<K, ipr::Scope>) {
      for (auto nm : P.names) { ++o.keyed_lookups; call(o, prefix + "operator[](Name)", 2, [&] { return n[*nm]; }); }
   }
   if constexpr (std::is_same_v<K, ipr::Overload>) {
      for (auto t : P.types) { ++o.keyed_lookups; call(o, prefix + "operator[](Type)", 2, [&] { return n[*t]; }); }
   }
   if constexpr (std::is_same_v<K, ipr::Product> || std::is_same_v<K, ipr::Sum>) {
      const std::size_t sz = n.size();
      for (std::size_t i = 0; i < sz && i < 50; ++i) { ++o.keyed_lookups; call(o, prefix + "operator[](Index)", 1, [&]() -> decltype(auto) { return n[i]; }); }
      for (std::size_t i : { sz, sz + 1, std::size_t(1) << 32, ~std::size_t(0) }) must_refuse(o, prefix + "operator[](Index)", "element at or beyond size()", [&] { (void)&n[i]; });
   }
}

struct Dispatch : Visitor {
   Out& o; const Probes& P;
   Dispatch(Out& oo, const Probes& pp) : o(oo), P(pp) { }
   void visit(const Node&) override { } void visit(const Expr&) override { } void visit(const Classic&) override { } void visit(const Name&) override { }
   void visit(const Type&) override { } void visit(const Directive&) override { } void visit(const Stmt&) override { } void visit(const Decl&) override { }
#define VH_X(C) void visit(const ipr::C& n) override { sweep_node<ipr::C>(o, n, #C, P); }
   VH_LEAF_CATEGORIES(VH_X)
#undef VH_X
};

// purpose-built containers: every sequence implementation at sizes 0, 1, 2, 17, 1000
void grow_containers(Sweep& S, Collector& col, std::map<const Node*, std::string>& label, std::vector<std::unique_ptr<impl::Warehouse<Type>>>& keep)
{
   impl::Lexicon& lex = S.lex; const Lexicon& L = lex; auto& greg = *S.unit.global_region();
   auto id = [&](const char* p, int i) -> const Identifier& { return lex.get_identifier(widen(std::string(p) + std::to_string(i))); };
   for (int n : { 0, 1, 2, 17, 1000 }) {
      const std::string sz = "(" + std::to_string(n) + " members)";
      auto add = [&](const Node& x, const char* what) { col.add(x); label.emplace(&x, what + sz); };
      auto* xl = lex.make_expr_list(); for (int i = 0; i < n; ++i) xl->push_back(S.P.exprs[std::size_t(i) % S.P.exprs.size()]); add(*xl, "expression list ");
      auto* en = lex.make_enum(greg, Enum::Kind::Scoped); for (int i = 0; i < n; ++i) en->add_member(id("e", i)); add(*en, "enum "); add(en->region(), "enum region "); add(en->region().bindings(), "enum scope ");
      auto* mp = lex.make_mapping(greg, Mapping_level { 2 }); for (int i = 0; i < n; ++i) mp->param(id("p", i), S.P.T()); add(*mp, "mapping "); add(mp->parameters(), "parameter list "); add(mp->parameters().region().bindings(), "parameter scope ");
      auto* cl = lex.make_class(greg); for (int i = 0; i < n; ++i) { cl->declare_field(id("f", i % 700), S.P.T()); if (i < 20) cl->declare_base(*S.P.a_class); } add(*cl, "class "); add(cl->region().bindings(), "class scope ");
      auto* ns = lex.make_namespace(greg); for (int i = 0; i < n; ++i) ns->declare_var(id("v", i % 5), *S.P.types[std::size_t(i) % 3]); add(*ns, "namespace "); add(ns->region().bindings(), "namespace scope ");
      if (n > 0) { auto ov = ns->region().bindings()[id("v", 0)]; if (ov.is_valid()) add(ov.get(), "overload set "); }
      auto* un = lex.make_union(greg); for (int i = 0; i < n; ++i) un->declare_field(id("u", i), S.P.T()); add(*un, "union ");
      auto* bl = lex.make_block(greg); for (int i = 0; i < n; ++i) { bl->add_stmt(*S.P.stmts[std::size_t(i) % S.P.stmts.size()]); if (i < 40) bl->new_handler(id("h", i), S.P.T()); } add(*bl, "block ");
      keep.push_back(std::make_unique<impl::Warehouse<Type>>());
      for (int i = 0; i < n; ++i) keep.back()->push_back(*S.P.types[std::size_t(i) % S.P.types.size()]);
      add(lex.get_product(*keep.back()), "product "); add(lex.get_sum(*keep.back()), "sum ");
      auto* pr = lex.make_pragma(); for (int i = 0; i < n; ++i) pr->tokens.push_back(*S.P.strings[std::size_t(i) % S.P.strings.size()], Source_location { }, TokenValue(i), TokenCategory(1)); add(*pr, "pragma ");
      auto* sb = lex.make_structured_binding(); for (int i = 0; i < n; ++i) sb->ids.push_back(&id("b", i)); add(*sb, "structured binding ");
      auto* ud = lex.make_using_declaration(); for (int i = 0; i < n && i < 30; ++i) ud->seq.push_back(*lex.make_scope_ref(S.P.X(), S.P.X()), Using_declaration::Designator::Mode(i % 3)); add(*ud, "using declaration ");
      (void)L;
   }
}
} // namespace

static void body(Ctx& C)
{
   const bool aux = std::getenv("VERIF_AUX") != nullptr;     // under memcheck: one sweep
   C.rule("a case = one node (a factory result in one of its link states, a node handed out by one, or a purpose-built container of 0/1/2/17/1000 members) swept through every "
          "zero-argument const accessor its interface class has (" + std::to_string(accessor_name_count) + " names taken from the headers, applicability decided by the compiler), the keyed look-ups of scopes, "
          "overload sets, products and sums, and for every sequence reached: iteration vs size() vs positional access, and element access at size(), beyond, at huge indices, before begin() "
          "and at end(); every call returns a usable value or raises a std::logic_error; ASan/UBSan traps are attributed to the accessor in flight; distinct = distinct (interface class, accessor, outcome)");
   C.assume("only nodes and states that the factories and the documented post-construction assignments produce are swept");
   C.assume("'usable' = a node result has a valid category code and an intact dynamic type; sequences can be iterated; values can be read");
   Rng seeds(C.seed);
   const int iters = aux ? 1 : (C.thorough ? 40 : 2);
   std::set<std::string> classes_swept;
   for (int it = 0; it < iters; ++it) {
      Rng rng(seeds.next());
      impl::Lexicon lex; impl::Translation_unit unit { lex };
      Sweep S(lex, unit, rng);
      S.run_all();
      if (it % 2 == 1) S.run_all();
      Collector col;
      std::map<const Node*, std::string> label;
      for (auto& m : S.made) if (m.node) label.emplace(m.node, m.factory);
      std::vector<std::unique_ptr<impl::Warehouse<Type>>> keep;
      if (it == 0 || C.thorough) grow_containers(S, col, label, keep);
      collect_roots(col, S);
      Probes P;
      for (auto n : S.P.names) P.names.push_back(n);
      for (int i = 0; i < 3; ++i) P.names.push_back(&lex.get_identifier(widen(std::string(i == 0 ? "v" : i == 1 ? "e" : "f") + "0")));
      P.names.push_back(&lex.get_identifier(u8"never declared anywhere")); P.names.push_back(&lex.get_operator(u8"<=>")); P.names.push_back(&lex.get_ctor_name(*S.P.a_class));
      for (int i = 0; i < 6; ++i) P.types.push_back(S.P.types[std::size_t(i)]);
      P.types.push_back(&lex.get_pointer(lex.get_pointer(static_cast<const Lexicon&>(lex).void_type())));
      std::set<const Node*> seen(col.nodes.begin(), col.nodes.end());
      std::vector<ForkCase> cases;
      for (auto np : col.nodes) {
         std::string cls = demangle(typeid(*np).name());
         auto lb = label.find(np);
         std::string state = lb != label.end() ? lb->second : "(handed out by another node) " + cls;
         ForkCase fc;
         fc.label = cls;
         fc.run = [np, state, cls, &P, &seen](CaseOut& out) {
            Out o; o.out = &out; o.state = state; o.seen = &seen;
            std::vector<const Node*> work { np }, discovered;
            o.discovered = &discovered;
            int swept = 0;
            while (!work.empty() && swept < 200) {
               const Node* n = work.back(); work.pop_back();
               Dispatch d(o, P);
               n->accept(d);
               ++swept;
               for (auto x : discovered) work.push_back(x);
               if (!discovered.empty()) out.count("nodes_reached_only_through_accessors", (long long)discovered.size());
               discovered.clear();
            }
            out.count("accessor_calls", o.calls); out.count("calls_returning_a_value", o.values); out.count("calls_refused_with_logic_error", o.refusals);
            out.count("sequences_checked", o.sequences); out.count("sequences_first_read_out_of_ascending_order", o.non_ascending_first_visits); out.count("sequence_elements_visited", o.elements); out.count("out_of_range_probes", o.out_of_range); out.count("moves_of_an_iterator_that_had_been_read", o.iterator_walk_moves);
            out.count("optionals_empty", o.optionals_empty); out.count("optionals_set", o.optionals_set); out.count("keyed_lookups", o.keyed_lookups); out.count("objects_swept", o.objects);
            out.count("nodes_swept", swept); out.count("scalar_results_read", o.zero_values + o.nonzero_values);
            if (o.calls > 12 && o.refusals > 0 && o.sequences > 0) out.line("S\t" + J().s("kind", "node-sweep").s("class", cls).s("state", state).n("accessor_calls", o.calls).n("returned_a_value", o.values).n("refused_with_logic_error", o.refusals)
                                                                          .n("sequences_iterated", o.sequences).n("out_of_range_probes_refused", o.out_of_range).n("empty_optionals", o.optionals_empty).str());
            for (auto& [k, v] : o.per_accessor) out.eval(hash_mix(hash_bytes(k), hash_bytes(cls)));
            for (auto& [k, v] : o.classes) out.count("class:" + k, v);
         };
         cases.push_back(std::move(fc));
      }
      // the non-node artifacts: units and modules through their interfaces
      {
         ForkCase fc; fc.label = "units-modules-captures";
         fc.run = [&S, &unit](CaseOut& out) {
            Out o; o.out = &out; o.state = "Translation_unit / Module"; o.cls = "Translation_unit";
            sweep_object(o, static_cast<const ipr::Translation_unit&>(unit), 2, "Translation_unit.");
            for (auto& m : S.modules) { sweep_object(o, static_cast<const ipr::Module&>(m), 3, "Module."); }
            // the capture specifications of the stand-alone factory, each through its interface class
            for (auto p : S.default_captures) sweep_object(o, *p, 2, "Capture_specification::Default.");
            for (auto p : S.object_captures) sweep_object(o, *p, 2, "Capture_specification::Implicit_object.");
            for (auto p : S.local_captures) { sweep_object(o, *p, 2, "Capture_specification::Enclosing_local."); sweep_object(o, static_cast<const ipr::Capture_specification::Named&>(*p), 2, "Capture_specification::Named."); }
            for (auto p : S.binding_captures) { sweep_object(o, *p, 2, "Capture_specification::Binding."); sweep_object(o, static_cast<const ipr::Capture_specification::Named&>(*p), 2, "Capture_specification::Named."); }
            for (auto p : S.expansion_captures) sweep_object(o, *p, 2, "Capture_specification::Expansion.");
            out.count("capture_specifications_swept", (long long)(S.default_captures.size() + S.object_captures.size() + S.local_captures.size() + S.binding_captures.size() + S.expansion_captures.size()));
            out.count("accessor_calls", o.calls); out.count("calls_returning_a_value", o.values); out.count("calls_refused_with_logic_error", o.refusals); out.count("sequences_checked", o.sequences);
            out.count("out_of_range_probes", o.out_of_range);
            for (auto& [k, v] : o.per_accessor) out.eval(hash_bytes(k));
         };
         cases.push_back(std::move(fc));
      }
      C.count("root_nodes", (long long)col.nodes.size());
      run_cases_forked(C, cases, 300);
   }
   // every leaf category must have been swept
   std::string missing;
#define VH_X(Cc) if (C.ctrs.find(std::string("class:") + #Cc) == C.ctrs.end()) missing += #Cc " ";
   VH_LEAF_CATEGORIES(VH_X)
#undef VH_X
   if (!missing.empty()) C.inconclusive("leaf interface classes never swept: " + missing);
   for (auto k : { "accessor_calls", "calls_returning_a_value", "calls_refused_with_logic_error", "sequences_checked", "sequences_first_read_out_of_ascending_order", "out_of_range_probes", "optionals_empty", "optionals_set", "keyed_lookups", "cases_completed", "capture_specifications_swept" }) C.need(k);
}

int main(int argc, char** argv) { return guarded_main(argc, argv, body); }
