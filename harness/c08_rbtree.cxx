// C08 -- the ordered-set utility stays a valid balanced search tree for any insertions.
// Monitor: structural validator run after insertions on trees derived from the real
// util::rb_tree::chain / util::rb_tree::container (root is a protected member, reachable by derivation).
#include "common.hpp"
#include <ipr/utility>
#include <algorithm>
#include <numeric>
#include <set>
#include <initializer_list>
#include <cmath>
#include <functional>

using namespace vh;
namespace rb = ipr::util::rb_tree;

// ---------------------------------------------------------------------------------------
// Reference CLRS tree, used ONLY to count which fix-up cases an input sequence triggers
// (so that evidence can say every case was exercised).  Shapes are not compared.
struct RefTree {
   struct N { long long key; N* l = nullptr; N* r = nullptr; N* p = nullptr; bool red = true; };
   N* root = nullptr;
   std::vector<N*> all;
   long long cases[6] = {};   // 0 recolour-L, 1 inner-L, 2 outer-L, 3 recolour-R, 4 inner-R, 5 outer-R
   ~RefTree() { for (auto n : all) delete n; }
   void rotl(N* x) { N* y = x->r; x->r = y->l; if (y->l) y->l->p = x; y->p = x->p; if (!x->p) root = y; else if (x == x->p->l) x->p->l = y; else x->p->r = y; y->l = x; x->p = y; }
   void rotr(N* x) { N* y = x->l; x->l = y->r; if (y->r) y->r->p = x; y->p = x->p; if (!x->p) root = y; else if (x == x->p->r) x->p->r = y; else x->p->l = y; y->r = x; x->p = y; }
   bool insert(long long k)
   {
      N* y = nullptr; N* x = root;
      while (x) { y = x; if (k == x->key) return false; x = k < x->key ? x->l : x->r; }
      N* z = new N{k}; all.push_back(z); z->p = y;
      if (!y) root = z; else if (k < y->key) y->l = z; else y->r = z;
      while (z != root && z->p->red) {
         if (z->p == z->p->p->l) {
            N* u = z->p->p->r;
            if (u && u->red) { ++cases[0]; z->p->red = false; u->red = false; z->p->p->red = true; z = z->p->p; }
            else {
               if (z == z->p->r) { ++cases[1]; z = z->p; rotl(z); }
               ++cases[2]; z->p->red = false; z->p->p->red = true; rotr(z->p->p);
            }
         } else {
            N* u = z->p->p->l;
            if (u && u->red) { ++cases[3]; z->p->red = false; u->red = false; z->p->p->red = true; z = z->p->p; }
            else {
               if (z == z->p->l) { ++cases[4]; z = z->p; rotr(z); }
               ++cases[5]; z->p->red = false; z->p->p->red = true; rotl(z->p->p);
            }
         }
      }
      root->red = false;
      return true;
   }
};

static long long g_cases[6];

// ---------------------------------------------------------------------------------------
// Validator over any node type providing left()/right()/parent()/color.
struct Shape { long long nodes = 0; int height = 0; std::uint64_t fp = 0; };

template<class Node, class Cmp>
struct Validator {
   Cmp cmp;                       // three-way on Node&, Node&
   std::string err;
   std::vector<Node*> inorder;
   // returns black height, -1 on error
   int walk(Node* n, Node* parent, int depth, Shape& sh)
   {
      if (n == nullptr) return 1;
      if (depth > 200) { err = "depth>200 (cycle?)"; return -1; }
      if (n->parent() != parent) { err = "parent link inconsistent"; return -1; }
      ++sh.nodes;
      if (depth + 1 > sh.height) sh.height = depth + 1;
      if (n->color == rb::Color::Red) {
         if ((n->left() && n->left()->color == rb::Color::Red) || (n->right() && n->right()->color == rb::Color::Red)) {
            err = "red node with red child"; return -1;
         }
      }
      sh.fp = hash_mix(sh.fp, std::uint64_t(reinterpret_cast<std::uintptr_t>(n)) * 2 + (n->color == rb::Color::Red));
      int bl = walk(n->left(), n, depth + 1, sh);
      if (bl < 0) return -1;
      inorder.push_back(n);
      sh.fp = hash_mix(sh.fp, 0x11);
      int br = walk(n->right(), n, depth + 1, sh);
      if (br < 0) return -1;
      sh.fp = hash_mix(sh.fp, 0x22);
      if (bl != br) { err = "black heights differ"; return -1; }
      return bl + (n->color == rb::Color::Black ? 1 : 0);
   }
   // full validation; returns empty string if fine
   std::string validate(Node* root, long long expect_count, Shape& sh)
   {
      err.clear(); inorder.clear(); sh = Shape{};
      if (root == nullptr) return expect_count == 0 ? "" : "null root but count != 0";
      if (root->color != rb::Color::Black) return "root is not black";
      if (walk(root, nullptr, 0, sh) < 0) return err;
      if (sh.nodes != expect_count) return "node count " + std::to_string(sh.nodes) + " != expected " + std::to_string(expect_count);
      // strictly monotone in one consistent direction
      int dir = 0;
      for (std::size_t i = 1; i < inorder.size(); ++i) {
         int c = cmp(*inorder[i - 1], *inorder[i]);
         c = (c > 0) - (c < 0);
         if (c == 0) return "two equal keys linked in the tree";
         if (dir == 0) dir = c; else if (c != dir) return "in-order sequence not monotone";
      }
      double bound = 2.0 * std::log2(double(sh.nodes) + 1.0);
      if (double(sh.height) > bound + 1e-9) return "height " + std::to_string(sh.height) + " exceeds 2*log2(n+1)";
      return "";
   }
};

// ---------------------------------------------------------------------------------------
// Intrusive flavour
struct INode : rb::link<INode> { long long key; explicit INode(long long k) : key(k) {} };
struct ICmp {
   int operator()(const INode& a, const INode& b) const { return a.key < b.key ? -1 : (a.key > b.key ? 1 : 0); }
   int operator()(const INode& a, long long k) const { return a.key < k ? -1 : (a.key > k ? 1 : 0); }
};
struct IChain : rb::chain<INode> { INode* get_root() const { return this->root; } };
// Three-way comparators whose result type is wider than int: the signed 64-bit difference of far-apart keys (multiples of
// 2^32 apart, more than 2^31 apart) and a floating-point difference (fractions smaller than 1).  The tree templates take
// "a comparator that is a total order"; nothing says its result fits an int.
struct IWideCmp {
   long long operator()(const INode& a, const INode& b) const { return a.key - b.key; }
   long long operator()(const INode& a, long long k) const { return a.key - k; }
};
struct IDoubleCmp {
   double operator()(const INode& a, const INode& b) const { return double(a.key - b.key) / 4096.0; }
   double operator()(const INode& a, long long k) const { return double(a.key - k) / 4096.0; }
};
// adapts any three-way comparator to the validator's int convention
template<class C> struct SignOf { C c; template<class A, class B> int operator()(const A& a, const B& b) const { auto r = c(a, b); return r < 0 ? -1 : (r > 0 ? 1 : 0); } };

// Owning flavour, three key kinds
template<class T>
struct OCont : rb::container<T> {
   using N = rb::node<T>;
   N* get_root() const { return this->root; }
};
struct IntCmp { int operator()(long long a, long long b) const { return a < b ? -1 : (a > b ? 1 : 0); } };
struct PtrCmp { int operator()(const void* a, const void* b) const { std::less<const void*> lt; return lt(a, b) ? -1 : (lt(b, a) ? 1 : 0); } };
struct LexCmp {
   int operator()(const std::vector<int>& a, const std::vector<int>& b) const
   {
      return ipr::util::lexicographical_compare()(a.begin(), a.end(), b.begin(), b.end(),
                                                  [](int x, int y) { return x < y ? -1 : (x > y ? 1 : 0); });
   }
};
struct WideCmp { long long operator()(long long a, long long b) const { return a - b; } };
struct DoubleCmp { double operator()(double a, double b) const { return a - b; } };
template<class T, class C>
struct NodeCmp { C c; int operator()(const rb::node<T>& a, const rb::node<T>& b) const { auto r = c(a.data, b.data); return r < 0 ? -1 : (r > 0 ? 1 : 0); } };

static std::string seq_json(const std::vector<long long>& s, std::size_t cap = 40)
{
   std::size_t n = std::min(s.size(), cap);
   std::string o = jarr(s.begin(), s.begin() + n, [](long long v) { return std::to_string(v); });
   return o;
}

// Run one integer sequence through the intrusive flavour (keys must be distinct) validating per `every`.
template<class ICmp = ICmp>
static void run_intrusive(const std::vector<long long>& seq, const char* family, long long every, bool count_case)
{
   auto& C = ctx();
   IChain tree;
   std::vector<INode*> nodes;
   nodes.reserve(seq.size());
   Validator<INode, SignOf<ICmp>> val;
   Shape sh;
   RefTree ref;
   long long n = 0;
   for (long long k : seq) {
      INode* z = new INode(k);
      nodes.push_back(z);
      INode* r = tree.insert(z, ICmp{});
      if (count_case) ref.insert(k);
      ++n;
      if (r != z)
         C.viol(std::string("intrusive:insert-return:") + family, "insert did not return the inserted node", J().s("family", family).raw("seq", seq_json(seq)).str());
      if (tree.size() != n)
         C.viol(std::string("intrusive:size:") + family, "size() != number of distinct insertions", J().s("family", family).raw("seq", seq_json(seq)).str());
      if (n <= 2000 || n % every == 0 || n == (long long)seq.size()) {
         std::string e = val.validate(tree.get_root(), n, sh);
         C.count("validations");
         if (!e.empty()) {
            C.viol(std::string("intrusive:shape:") + family + ":" + e.substr(0, 40), e + " after " + std::to_string(n) + " insertions", J().s("family", family).raw("seq", seq_json(seq)).n("step", n).str());
            break;
         }
         C.maxi("max_height", sh.height);
      }
   }
   // membership
   long long probes = 0;
   std::set<long long> present(seq.begin(), seq.end());
   auto probe = [&](long long k) {
      INode* f = tree.find(k, ICmp{});
      bool want = present.count(k) != 0;
      ++probes;
      if ((f != nullptr) != want || (f && f->key != k))
         C.viol(std::string("intrusive:find:") + family, want ? "inserted key not found" : "absent key found", J().s("family", family).raw("seq", seq_json(seq)).n("key", k).str());
   };
   std::size_t stride = seq.size() > 20000 ? seq.size() / 20000 : 1;
   for (std::size_t i = 0; i < seq.size(); i += stride) { probe(seq[i]); probe(seq[i] * 2 + 1 + 1000000007LL); }
   if (!seq.empty()) { probe(*present.begin() - 1); probe(*present.rbegin() + 1); }
   C.count("find_probes", probes);
   if (count_case) for (int i = 0; i < 6; ++i) g_cases[i] += ref.cases[i];
   for (auto p : nodes) delete p;
}

// Intrusive flavour with duplicate-bearing sequences, over two chains: a node whose key is already present is not linked
// (size() is not asserted: only the owning flavour promises that an equal key "adds nothing"); such a rejected node is then
// offered to a second chain, which must take it like any other node.  After every insertion into either chain both chains
// are validated (a chain must not be disturbed by what happens to another one).
static void run_intrusive_dups(const std::vector<long long>& seq, const char* family)
{
   auto& C = ctx();
   IChain a, b;
   std::vector<INode*> nodes, rejected, linked_a;
   std::set<long long> in_a, in_b;
   Validator<INode, SignOf<ICmp>> val;
   Shape sh;
   auto J0 = [&] { return J().s("family", family).raw("seq", seq_json(seq)).str(); };
   auto check = [&](IChain& t, const std::set<long long>& present, const char* which, const char* when) -> bool {
      std::string e = val.validate(t.get_root(), (long long)present.size(), sh);
      C.count("validations");
      if (!e.empty()) { C.viol(std::string("intrusive-dups:shape:") + which + ":" + e.substr(0, 40), e + " in chain " + which + " " + when, J0()); return false; }
      for (long long k : present) { INode* f = t.find(k, ICmp{}); if (!f || f->key != k) { C.viol(std::string("intrusive-dups:find:") + which, std::string("a key linked into chain ") + which + " is not found " + when, J0()); return false; } }
      return true;
   };
   bool ok = true;
   for (long long k : seq) {
      INode* z = new INode(k); nodes.push_back(z);
      const bool dup = !in_a.insert(k).second;
      a.insert(z, ICmp{});
      if (dup) { rejected.push_back(z); C.count("intrusive_duplicates_offered"); } else linked_a.push_back(z);
      if (!(ok = check(a, in_a, "A", "after an insertion into A"))) break;
   }
   // a node that IS linked in the chain is offered to the same chain again (idempotent registration): the equal element found is
   // that very node; the chain keeps its shape and every key stays reachable.  Root, interior nodes and leaves alike.
   if (ok && !linked_a.empty()) {
      val.validate(a.get_root(), (long long)in_a.size(), sh); const std::uint64_t before = sh.fp;
      std::vector<INode*> again { a.get_root() };
      for (std::size_t i = 0; i < linked_a.size() && again.size() < 12; i += 1 + linked_a.size() / 10) again.push_back(linked_a[i]);
      for (INode* z : again) {
         INode* got = a.insert(z, ICmp{});
         C.count("linked_nodes_offered_again_to_their_own_chain");
         if (got != z) { C.viol("intrusive-dups:relinked-node:insert-return", "offering a node to the chain it is already linked in does not return that node", J0()); ok = false; break; }
         if (!(ok = check(a, in_a, "A", "after a node already linked in A was offered to A again"))) break;
         if (sh.fp != before) { C.viol("intrusive-dups:relinked-node:shape-changed", "the shape of the chain changed when a node already linked in it was offered again", J0()); ok = false; break; }
      }
   }
   if (ok && !rejected.empty()) {
      val.validate(a.get_root(), (long long)in_a.size(), sh); const std::uint64_t a_shape = sh.fp;
      std::vector<INode*> for_b(rejected);
      for (int i = 0; i < 10; ++i) { INode* z = new INode(1000 + (i * 7) % 10); nodes.push_back(z); for_b.push_back(z); }     // enough fresh keys for rotations about the root
      for (INode* z : for_b) {
         in_b.insert(z->key);
         b.insert(z, ICmp{});
         C.count("rejected_nodes_offered_to_a_second_chain");
         if (!(ok = check(b, in_b, "B", "after a node rejected by A was inserted into B"))) break;
         if (!(ok = check(a, in_a, "A", "after an insertion into the other chain B"))) break;
         if (sh.fp != a_shape) { C.viol("intrusive-dups:other-chain-disturbed", "the shape of chain A changed although only chain B was inserted into", J0()); ok = false; break; }
      }
      for (long long k : { 0LL, 999LL, 2000LL }) if (b.find(k, ICmp{}) || a.find(k + 5000, ICmp{})) C.viol("intrusive-dups:find:absent-key-found", "a key never inserted is found", J0());
   }
   // a node that was the one and only member of a chain since discarded (it is that chain's black root, without children) is
   // offered to another chain at every stage of that chain's growth
   if (ok && !seq.empty()) {
      IChain c; std::set<long long> in_c;
      for (long long k : seq) {
         { IChain once; INode* solo = new INode(5000 + k); nodes.push_back(solo); once.insert(solo, ICmp{});       // `once` is dropped here, solo keeps what it was given
           in_c.insert(solo->key); c.insert(solo, ICmp{}); C.count("recycled_sole_members_inserted");
           if (!check(c, in_c, "C", "after the former sole member of a discarded chain was inserted")) break; }
         if (in_c.insert(k).second) { INode* z = new INode(k); nodes.push_back(z); c.insert(z, ICmp{}); if (!check(c, in_c, "C", "after an insertion")) break; }
      }
   }
   for (auto p : nodes) delete p;
}

// Owning flavour whose element constructor refuses some keys (throws): a refused insertion inserts nothing -- the tree is
// what it was (shape, size), the refused key is not found, and later insertions behave as if the attempt had not been made.
struct Fussy {
   long long key;
   explicit Fussy(long long k) : key(k) { if (k % 5 == 3) throw std::invalid_argument("refused key"); }
};
struct FussyCmp {
   int operator()(const Fussy& a, long long k) const { return a.key < k ? -1 : (a.key > k ? 1 : 0); }
   int operator()(const Fussy& a, const Fussy& b) const { return a.key < b.key ? -1 : (a.key > b.key ? 1 : 0); }
};
static void run_owning_refusing(const std::vector<long long>& seq, const char* family)
{
   auto& C = ctx();
   OCont<Fussy> tree;
   using N = rb::node<Fussy>;
   Validator<N, NodeCmp<Fussy, FussyCmp>> val;
   Shape before, after;
   std::set<long long> present;
   auto J0 = [&] { return J().s("family", family).raw("seq", seq_json(seq)).str(); };
   for (long long k : seq) {
      std::string e0 = val.validate(tree.get_root(), (long long)present.size(), before);
      bool threw = false;
      try { Fussy* p = tree.insert(k, FussyCmp{}); if (!p || p->key != k) C.viol("owning-refusing:insert-value", "insert returned a wrong element", J0()); present.insert(k); }
      catch (const std::invalid_argument&) { threw = true; C.count("insertions_refused_by_the_element_constructor"); }
      std::string e1 = val.validate(tree.get_root(), (long long)present.size(), after);
      C.count("validations");
      if (!e1.empty()) { C.viol(std::string("owning-refusing:shape:") + e1.substr(0, 40), e1 + (threw ? " after an insertion that the element constructor refused" : " after an insertion"), J0()); return; }
      if (tree.size() != (long long)present.size()) { C.viol("owning-refusing:size", "size() counts an insertion that the element constructor refused", J0()); return; }
      if (threw && e0.empty() && before.fp != after.fp) { C.viol("owning-refusing:shape-changed", "a refused insertion changed the tree", J0()); return; }
      if (threw && tree.find(k, FussyCmp{}) != nullptr && !present.count(k)) { C.viol("owning-refusing:refused-key-found", "a key whose insertion was refused is found", J0()); return; }
   }
   for (long long k : present) { auto* f = tree.find(k, FussyCmp{}); if (!f || f->key != k) { C.viol("owning-refusing:find", "an inserted key is not found after refused insertions", J0()); return; } }
}

// Owning flavour over element types for which the way the element is made from the key matters: a type with both a
// converting constructor and an initializer-list constructor (std::vector is the everyday one), where `T(key)` and
// `T{key}` are different elements. The container's contract is insert-or-find of the element made from the key, i.e.
// the stored element is equivalent to the key it was inserted under: it is found again, an equal key adds nothing.
struct Listy {
   long long key; bool from_list;
   explicit Listy(long long k) : key(k), from_list(false) {}
   Listy(std::initializer_list<long long> l) : key(-(long long)l.size()), from_list(true) {}
};
struct ListyCmp {
   int operator()(const Listy& a, long long k) const { return a.key < k ? -1 : (a.key > k ? 1 : 0); }
   int operator()(const Listy& a, const Listy& b) const { return a.key < b.key ? -1 : (a.key > b.key ? 1 : 0); }
};
struct VecLenCmp {
   int operator()(const std::vector<int>& a, int n) const { return (int)a.size() < n ? -1 : ((int)a.size() > n ? 1 : 0); }
   int operator()(const std::vector<int>& a, const std::vector<int>& b) const { return a.size() < b.size() ? -1 : (a.size() > b.size() ? 1 : 0); }
};
static void run_owning_listy(const std::vector<long long>& seq, const char* family)
{
   auto& C = ctx();
   auto J0 = [&] { return J().s("family", family).raw("seq", seq_json(seq)).str(); };
   {
      OCont<Listy> tree; std::map<long long, Listy*> first; Shape sh;
      Validator<rb::node<Listy>, NodeCmp<Listy, ListyCmp>> val;
      for (long long k : seq) {
         Listy* p = tree.insert(k, ListyCmp{}); C.count("insertions_of_elements_with_a_list_constructor");
         if (!p || p->key != k || p->from_list) { C.viol("owning-listy:element", "the stored element is not the element made from the key (T(key))", J0()); return; }
         auto it = first.find(k);
         if (it == first.end()) first[k] = p; else if (it->second != p) { C.viol("owning-listy:dup-address", "inserting an equal key did not return the existing element", J0()); return; }
         if (tree.size() != (long long)first.size()) { C.viol("owning-listy:size", "size() != number of distinct keys", J0()); return; }
         std::string e = val.validate(tree.get_root(), (long long)first.size(), sh); C.count("validations");
         if (!e.empty()) { C.viol(std::string("owning-listy:shape:") + e.substr(0, 40), e, J0()); return; }
      }
      for (auto& [k, p] : first) if (tree.find(k, ListyCmp{}) != p) { C.viol("owning-listy:find", "an inserted key is not found", J0()); return; }
   }
   {
      OCont<std::vector<int>> tree; std::map<int, std::vector<int>*> first; Shape sh;
      Validator<rb::node<std::vector<int>>, NodeCmp<std::vector<int>, VecLenCmp>> val;
      for (long long k : seq) {
         const int n = (int)k;
         std::vector<int>* p = tree.insert(n, VecLenCmp{}); C.count("insertions_of_elements_with_a_list_constructor");
         if (!p || (int)p->size() != n) { C.viol("owning-listy:vector-element", "the stored vector is not vector(key)", J0()); return; }
         auto it = first.find(n);
         if (it == first.end()) first[n] = p; else if (it->second != p) { C.viol("owning-listy:vector-dup-address", "inserting an equal key did not return the existing element", J0()); return; }
         if (tree.size() != (long long)first.size()) { C.viol("owning-listy:vector-size", "size() != number of distinct keys", J0()); return; }
         std::string e = val.validate(tree.get_root(), (long long)first.size(), sh); C.count("validations");
         if (!e.empty()) { C.viol(std::string("owning-listy:vector-shape:") + e.substr(0, 40), e, J0()); return; }
      }
      for (auto& [k, p] : first) if (tree.find(k, VecLenCmp{}) != p) { C.viol("owning-listy:vector-find", "an inserted key is not found", J0()); return; }
   }
}

// Owning flavour over std::string elements: keys handed to insert() as named objects, as temporaries and as std::move'd
// objects; comparators that take the key by const reference, by value, and by rvalue reference (the comparator's signature is
// the client's business).  Whatever the value category of the key and however the comparator receives it, the element stored
// is the key that was inserted: found again under that key, equal keys add nothing, in-order sequence ascending.
struct StrCmpRef { int operator()(const std::string& a, const std::string& k) const { return a.compare(k) < 0 ? -1 : (a.compare(k) > 0 ? 1 : 0); } };
struct StrCmpVal { int operator()(const std::string& a, std::string k) const { return a.compare(k) < 0 ? -1 : (a.compare(k) > 0 ? 1 : 0); } };
static void run_owning_strings(const std::vector<long long>& seq, const char* family)
{
   auto& C = ctx();
   auto J0 = [&] { return J().s("family", family).raw("seq", seq_json(seq)).str(); };
   auto spell = [](long long k) { return "key-" + std::to_string(k) + std::string(std::size_t(20 + (k & 7)), char('a' + (k % 26 + 26) % 26)); };     // longer than any small-string buffer
   for (int mode = 0; mode < 6; ++mode) {
      OCont<std::string> tree; std::map<std::string, std::string*> first; Shape sh;
      Validator<rb::node<std::string>, NodeCmp<std::string, StrCmpRef>> val;
      const char* how = mode == 0 ? "named-key/ref-comparator" : mode == 1 ? "temporary-key/ref-comparator" : mode == 2 ? "moved-key/ref-comparator" : mode == 3 ? "named-key/value-comparator" : mode == 4 ? "temporary-key/value-comparator" : "moved-key/value-comparator";
      for (long long k : seq) {
         const std::string want = spell(k);
         std::string named = want;
         std::string* p = nullptr;
         switch (mode) {
         case 0: p = tree.insert(named, StrCmpRef{}); break;
         case 1: p = tree.insert(spell(k), StrCmpRef{}); break;
         case 2: p = tree.insert(std::move(named), StrCmpRef{}); break;
         case 3: p = tree.insert(named, StrCmpVal{}); break;
         case 4: p = tree.insert(spell(k), StrCmpVal{}); break;
         default: p = tree.insert(std::move(named), StrCmpVal{}); break;
         }
         C.count("string_keys_inserted_by_value_category_and_comparator_signature");
         if (!p || *p != want) { C.viol(std::string("owning-strings:element:") + how, std::string("the element stored is not the key that was inserted (") + how + ")", J0()); return; }
         auto it = first.find(want);
         if (it == first.end()) first[want] = p; else if (it->second != p) { C.viol(std::string("owning-strings:dup-address:") + how, "inserting an equal key did not return the existing element", J0()); return; }
         if (tree.size() != (long long)first.size()) { C.viol(std::string("owning-strings:size:") + how, "size() != number of distinct keys", J0()); return; }
         std::string e = val.validate(tree.get_root(), (long long)first.size(), sh); C.count("validations");
         if (!e.empty()) { C.viol(std::string("owning-strings:shape:") + how + ":" + e.substr(0, 40), e, J0()); return; }
      }
      for (auto& [k, p] : first) if (tree.find(k, StrCmpRef{}) != p || *p != k) { C.viol(std::string("owning-strings:find:") + how, "an inserted key is not found (or the element stored under it changed)", J0()); return; }
   }
}

// Owning flavour over integer keys with duplicates allowed.
static void run_owning_int(const std::vector<long long>& seq, const char* family, long long every, bool count_case)
{
   auto& C = ctx();
   OCont<long long> tree;
   using N = rb::node<long long>;
   Validator<N, NodeCmp<long long, IntCmp>> val;
   Shape sh, sh2;
   std::map<long long, long long*> first;   // membership + first address model
   std::unordered_set<const void*> addrs;
   long long dups = 0;
   RefTree ref;
   long long steps = 0;
   for (long long k : seq) {
      ++steps;
      auto it = first.find(k);
      if (it == first.end()) {
         // a look-up for a key that is absent, made through the very object the insertion will then use (a request variable
         // that is re-used): where that search ended says nothing about where the next key goes
         long long request = k * 2 + 1000000007LL + steps;
         if (!first.count(request) && tree.find(request, IntCmp{}) != nullptr) C.viol(std::string("owning:find:") + family, "absent key found", J().s("family", family).raw("seq", seq_json(seq)).str());
         request = k; C.count("insertions_right_after_a_missed_lookup_through_the_same_object");
         long long* p = tree.insert(request, IntCmp{});
         if (count_case) ref.insert(k);
         if (p == nullptr || *p != k) { C.viol(std::string("owning:insert-value:") + family, "insert returned wrong element", J().s("family", family).raw("seq", seq_json(seq)).str()); break; }
         if (!addrs.insert(p).second) { C.viol(std::string("owning:alias:") + family, "new key returned an existing element's address", J().s("family", family).raw("seq", seq_json(seq)).str()); break; }
         first[k] = p;
      } else {
         // duplicate: must return the existing element and change nothing
         const bool deep = first.size() <= 2000 || (++dups % 512 == 0);
         std::string e0 = deep ? val.validate(tree.get_root(), (long long)first.size(), sh) : std::string("skip");
         long long* p = tree.insert(k, IntCmp{});
         std::string e1 = deep ? val.validate(tree.get_root(), (long long)first.size(), sh2) : std::string("skip");
         C.count("duplicate_insertions");
         if (deep) C.count("duplicate_insertions_shape_compared");
         if (p != it->second)
            C.viol(std::string("owning:dup-address:") + family, "inserting an equal key did not return the existing element", J().s("family", family).raw("seq", seq_json(seq)).n("step", steps).str());
         if (e0.empty() && e1.empty() && sh.fp != sh2.fp)
            C.viol(std::string("owning:dup-shape:") + family, "inserting an equal key changed the tree", J().s("family", family).raw("seq", seq_json(seq)).n("step", steps).str());
      }
      if (tree.size() != (long long)first.size())
         C.viol(std::string("owning:size:") + family, "size() != number of distinct keys", J().s("family", family).raw("seq", seq_json(seq)).n("step", steps).str());
      if (steps <= 2000 || steps % every == 0 || steps == (long long)seq.size()) {
         std::string e = val.validate(tree.get_root(), (long long)first.size(), sh);
         C.count("validations");
         if (!e.empty()) {
            C.viol(std::string("owning:shape:") + family + ":" + e.substr(0, 40), e + " after " + std::to_string(steps) + " steps", J().s("family", family).raw("seq", seq_json(seq)).n("step", steps).str());
            break;
         }
         C.maxi("max_height", sh.height);
      }
   }
   long long probes = 0;
   auto probe = [&](long long k) {
      long long* f = tree.find(k, IntCmp{});
      auto it = first.find(k);
      ++probes;
      if ((f != nullptr) != (it != first.end()) || (f && f != it->second))
         C.viol(std::string("owning:find:") + family, it != first.end() ? "inserted key not found (or wrong element)" : "absent key found", J().s("family", family).raw("seq", seq_json(seq)).n("key", k).str());
   };
   std::size_t stride = seq.size() > 20000 ? seq.size() / 20000 : 1;
   for (std::size_t i = 0; i < seq.size(); i += stride) { probe(seq[i]); probe(seq[i] * 2 + 1 + 1000000007LL); }
   if (!first.empty()) { probe(first.begin()->first - 1); probe(first.rbegin()->first + 1); }
   C.count("find_probes", probes);
   if (count_case) for (int i = 0; i < 6; ++i) g_cases[i] += ref.cases[i];
}

// Owning flavour over pointer and lexicographic keys (random long sequences only).
template<class T, class Cmp, class Gen>
static void run_owning_generic(Gen gen, std::size_t n, const char* family, long long every)
{
   auto& C = ctx();
   OCont<T> tree;
   using N = rb::node<T>;
   Validator<N, NodeCmp<T, Cmp>> val;
   Shape sh;
   auto less = [](const T& a, const T& b) { return Cmp{}(a, b) < 0; };
   std::map<T, T*, decltype(less)> first(less);
   for (std::size_t i = 0; i < n; ++i) {
      T k = gen(i);
      T* p = tree.insert(k, Cmp{});
      auto it = first.find(k);
      if (it == first.end()) first.emplace(k, p);
      else if (it->second != p) { C.viol(std::string("owning:dup-address:") + family, "equal key returned a different element", "{}"); break; }
      if (tree.size() != (long long)first.size()) { C.viol(std::string("owning:size:") + family, "size() != distinct keys", "{}"); break; }
      if (i < 2000 || (i + 1) % every == 0 || i + 1 == n) {
         std::string e = val.validate(tree.get_root(), (long long)first.size(), sh);
         C.count("validations");
         if (!e.empty()) { C.viol(std::string("owning:shape:") + family + ":" + e.substr(0, 40), e, J().s("family", family).n("step", (long long)i).str()); break; }
         C.maxi("max_height", sh.height);
      }
   }
   long long probes = 0;
   for (auto& [k, p] : first) {
      if (probes > 20000) break;
      ++probes;
      if (tree.find(k, Cmp{}) != p) C.viol(std::string("owning:find:") + family, "inserted key not found", "{}");
   }
   C.count("find_probes", probes);
   C.eval(hash_mix(hash_bytes(family), n));
}

static std::vector<long long> family_seq(const std::string& fam, std::size_t n, Rng& rng)
{
   std::vector<long long> s(n);
   std::iota(s.begin(), s.end(), 1);
   if (fam == "sorted") {}
   else if (fam == "reversed") std::reverse(s.begin(), s.end());
   else if (fam == "random") { for (std::size_t i = n; i > 1; --i) std::swap(s[i - 1], s[rng.below(i)]); }
   else if (fam == "organ-pipe") { std::vector<long long> t; for (std::size_t i = 0; i < n; ++i) t.push_back(i % 2 == 0 ? (long long)(i / 2 + 1) : (long long)(n - i / 2)); s = t; }
   else if (fam == "zig-zag") { std::vector<long long> t; long long lo = 1, hi = (long long)n; for (std::size_t i = 0; i < n; ++i) t.push_back(i % 2 ? hi-- : lo++); s = t; }
   else if (fam == "one-inversion") { if (n > 2) { std::size_t i = 1 + rng.below(n - 2); std::swap(s[i], s[i - 1]); } }
   else if (fam == "sawtooth") { std::vector<long long> t; std::size_t teeth = 17; for (std::size_t k = 0; k < teeth; ++k) for (std::size_t i = k; i < n; i += teeth) t.push_back((long long)i + 1); s = t; }
   else if (fam == "middle-out") {
      // balanced-BST level order: medians first (no rotation is ever needed for the first levels)
      std::vector<long long> t;
      std::vector<std::pair<long long, long long>> q{{1, (long long)n}};
      for (std::size_t h = 0; h < q.size(); ++h) {
         auto [lo, hi] = q[h];
         if (lo > hi) continue;
         long long m = lo + (hi - lo) / 2;
         t.push_back(m);
         q.push_back({lo, m - 1});
         q.push_back({m + 1, hi});
      }
      s = t;
   }
   return s;
}

static void body(Ctx& C)
{
   Rng rng(C.seed);
   C.rule("insertion sequences into util::rb_tree::chain (intrusive) and ::container (owning), validated by a structural "
          "red-black/BST/parent-link/height/size/membership oracle after every insertion (every 1024th beyond 2000 elements); "
          "a case = one whole sequence, distinct by its content hash; exhaustive part: all permutations of 1..n (n<=8 quick, "
          "<=9 thorough) for both flavours, all sequences over 5 symbols of length<=7 and over 3 symbols of length<=9 (owning, "
          "with duplicates); sampled part: random/sorted/reversed/organ-pipe/zig-zag/one-inversion/sawtooth/middle-out sequences "
          "with integer, address and lexicographic comparators");
   C.assume("comparators supplied by the harness are total orders");
   C.assume("exhaustive only up to the stated bounds; longer sequences are sampled");
   for (int i = 0; i < 6; ++i) C.need(std::string("fixup_case_") + std::to_string(i));
   C.need("wide_result_sequences"); C.need("intrusive_duplicates_offered"); C.need("rejected_nodes_offered_to_a_second_chain"); C.need("insertions_refused_by_the_element_constructor"); C.need("insertions_of_elements_with_a_list_constructor"); C.need("recycled_sole_members_inserted"); C.need("linked_nodes_offered_again_to_their_own_chain"); C.need("string_keys_inserted_by_value_category_and_comparator_signature"); C.need("insertions_right_after_a_missed_lookup_through_the_same_object");

   const int maxn = C.thorough ? 9 : 8;
   // -- all permutations of 1..n ------------------------------------------------------
   long long perm_index = 0;
   for (int n = 1; n <= maxn; ++n) {
      std::vector<long long> p(n);
      std::iota(p.begin(), p.end(), 1);
      do {
         if (perm_index++ % C.workers == C.worker) {
            run_intrusive(p, "perm", 1, true);
            run_owning_int(p, "perm", 1, false);
            C.count("permutations");
            C.eval(hash_bytes(std::string_view(reinterpret_cast<const char*>(p.data()), p.size() * sizeof(long long)), 7));
            if (n == 5) C.sample(J().s("kind", "permutation").raw("seq", seq_json(p)).str(), 2);
         }
      } while (std::next_permutation(p.begin(), p.end()));
   }
   // -- all sequences with duplicates --------------------------------------------------
   auto all_seqs = [&](int alphabet, int maxlen) {
      long long idx = 0;
      for (int len = 1; len <= maxlen; ++len) {
         std::vector<long long> s(len, 1);
         for (;;) {
            if (idx++ % C.workers == C.worker) {
               run_owning_int(s, "dupseq", 1, false);
               run_intrusive_dups(s, "dupseq");
               run_owning_refusing(s, "dupseq");
               run_owning_listy(s, "dupseq");
               if (idx % 5 == 0) run_owning_strings(s, "dupseq");
               C.count("dup_sequences");
               C.eval(hash_bytes(std::string_view(reinterpret_cast<const char*>(s.data()), s.size() * sizeof(long long)), 7));
               if (len == 6 && alphabet == 5) C.sample(J().s("kind", "dup-sequence").raw("seq", seq_json(s)).str(), 3);
            }
            int i = len - 1;
            while (i >= 0 && s[i] == alphabet) { s[i] = 1; --i; }
            if (i < 0) break;
            ++s[i];
         }
      }
   };
   all_seqs(5, C.thorough ? 7 : 6);
   all_seqs(3, C.thorough ? 9 : 8);

   // -- long structured and random sequences ---------------------------------------------
   const char* fams[] = {"random", "sorted", "reversed", "organ-pipe", "zig-zag", "one-inversion", "sawtooth", "middle-out"};
   std::vector<std::size_t> sizes = C.thorough ? std::vector<std::size_t>{1000, 4097, 30000, 100000, 1000000}
                                               : std::vector<std::size_t>{1000, 4097, 30000, 100000};
   long long job = 0;
   for (auto sz : sizes)
      for (auto f : fams) {
         int reps = std::string(f) == "random" ? (C.thorough ? 6 : 3) : 1;
         for (int r = 0; r < reps; ++r)
            if (job++ % C.workers == C.worker) {
               Rng local(hash_mix(C.seed, job));
               auto s = family_seq(f, sz, local);
               run_intrusive(s, f, 1024, true);
               // duplicates for the owning flavour: append a re-insertion of a random 10 %
               auto s2 = s;
               for (std::size_t i = 0; i < sz / 10; ++i) s2.push_back(s[local.below(s.size())]);
               run_owning_int(s2, f, 1024, false);
               C.count(std::string("long_sequences:") + f);
               C.eval(hash_mix(hash_bytes(f), hash_mix(sz, r ? local.next() : 0)));
               if (sz == 1000 && r == 0) C.sample(J().s("kind", f).n("length", (long long)sz).raw("prefix", seq_json(s, 16)).str(), 12);
            }
      }
   // address and lexicographic comparators
   {
      std::size_t n = C.thorough ? 200000 : 30000;
      if (job++ % C.workers == C.worker) {
         // addresses of separately allocated blocks, inserted in allocation order, then re-inserted shuffled
         std::vector<char*> blocks;
         for (std::size_t i = 0; i < n; ++i) blocks.push_back(new char[1 + i % 7]);
         Rng local(hash_mix(C.seed, 77));
         run_owning_generic<const void*, PtrCmp>([&](std::size_t i) -> const void* { return i < n ? blocks[i] : blocks[local.below(n)]; }, n + n / 4, "address", 1024);
         for (auto b : blocks) delete[] b;
         C.count("long_sequences:address");
      }
      if (job++ % C.workers == C.worker) {
         Rng local(hash_mix(C.seed, 78));
         run_owning_generic<std::vector<int>, LexCmp>([&](std::size_t) { std::vector<int> v(local.below(5)); for (auto& x : v) x = int(local.below(4)); return v; }, n, "lexicographic-short", 1024);
         C.count("long_sequences:lexicographic");
      }
      if (job++ % C.workers == C.worker) {
         Rng local(hash_mix(C.seed, 79));
         // common long prefixes: decisive element late; also proper prefixes of each other
         run_owning_generic<std::vector<int>, LexCmp>([&](std::size_t) { std::vector<int> v(20 + local.below(6), 7); if (local.chance(70)) v.back() = int(local.below(50)); return v; }, n / 4, "lexicographic-prefix", 1024);
         C.count("long_sequences:lexicographic");
      }
   }
   // -- comparators with a result wider than int -------------------------------------------------------------
   {
      Rng local(hash_mix(C.seed, 4242 + C.worker));
      const std::size_t n = C.thorough ? 20000 : 3000;
      auto far_keys = [&](int kind) {
         std::vector<long long> ks; std::set<long long> seen;
         while (ks.size() < n) {
            long long k = 0;
            switch (kind) {
            case 0: k = (long long)(local.below(400000)) * (1LL << 32) + (long long)local.below(3); break;          // differences that are multiples of 2^32 (+ small)
            case 1: k = (long long)(local.below(1u << 20)) * ((1LL << 31) + 12345); break;                         // differences beyond 2^31
            default: k = (long long)(local.next() >> 2) - (1LL << 61); break;                                      // random 62-bit keys, both signs
            }
            if (seen.insert(k).second) ks.push_back(k);
         }
         return ks;
      };
      for (int kind = 0; kind < 3; ++kind) {
         auto ks = far_keys(kind);
         const char* fam = kind == 0 ? "wide-result:multiples-of-2^32" : kind == 1 ? "wide-result:beyond-2^31" : "wide-result:random-62-bit";
         run_intrusive<IWideCmp>(ks, fam, 512, false);
         std::vector<long long> dup(ks); for (std::size_t i = 0; i < n / 3; ++i) dup.push_back(ks[local.below(ks.size())]);
         run_owning_generic<long long, WideCmp>([&](std::size_t i) { return dup[i]; }, dup.size(), fam, 512);
         C.count("wide_result_sequences", 2);
      }
      {  // fractional differences: a result truncated to an integer would call distinct keys equal
         std::vector<long long> ks; for (std::size_t i = 0; i < n; ++i) ks.push_back((long long)i + 1);
         for (std::size_t i = ks.size(); i > 1; --i) std::swap(ks[i - 1], ks[local.below(i)]);
         run_intrusive<IDoubleCmp>(ks, "wide-result:fractional-double", 512, false);
         std::vector<double> ds; for (auto k : ks) ds.push_back(double(k) / 4096.0);
         for (std::size_t i = 0; i < n / 3; ++i) ds.push_back(ds[local.below(n)]);
         run_owning_generic<double, DoubleCmp>([&](std::size_t i) { return ds[i]; }, ds.size(), "wide-result:fractional-double", 512);
         C.count("wide_result_sequences", 2);
      }
   }
   for (int i = 0; i < 6; ++i) C.count(std::string("fixup_case_") + std::to_string(i), g_cases[i]);
   C.exhaustive(false);
   C.extra("exhaustive_subspaces", J().s("permutations", "all permutations of 1..n for n<=" + std::to_string(maxn) + " (both flavours, validated after every insertion)")
           .s("dup_sequences", std::string("all sequences over 5 symbols of length<=") + (C.thorough ? "7" : "6") + " and over 3 symbols of length<=" + (C.thorough ? "9" : "8") + " (owning)").str());
}

int main(int argc, char** argv) { return guarded_main(argc, argv, body); }
