// C06 -- category code, accept() and visitor defaults agree for every node class.
// Finite space: every interface category x every implementation class instance the library ships
// (reached through the all-factories sweep, the process-wide constants and their sub-objects).
#include "sweep_all.hpp"
#include "gen/categories.hpp"
#include "collect.hpp"
#include <typeinfo>
#include <memory>
#include <cstddef>
#include <type_traits>
#include <cxxabi.h>

using namespace vh;

enum Abs { ABS_NODE = 1000, ABS_EXPR, ABS_CLASSIC, ABS_NAME, ABS_TYPE, ABS_DIRECTIVE, ABS_STMT, ABS_DECL };

// (2) a visitor that overrides every overload: accept must call exactly the leaf hook of the node's own class
struct Hook_probe { };        // what a hook of ours throws when asked to fail
struct Recorder : Visitor {
   std::vector<std::pair<int, const void*>> calls;
   // what a client's visitor may legitimately do inside a hook: dispatch the same node on itself once more (a two-phase
   // visitor), or leave by an exception (as the library's own Missing_overrider visitors do)
   const Node* redispatch = nullptr;     // when set: the first hook reached calls redispatch->accept(*this) again
   bool fail_once = false;               // when set: the first hook reached throws Hook_probe
   void hit(int code, const void* p)
   {
      calls.emplace_back(code, p);
      if (redispatch) { const Node* n = redispatch; redispatch = nullptr; n->accept(*this); }
      if (fail_once) { fail_once = false; throw Hook_probe { }; }
   }
   void visit(const Node& n) override { hit(ABS_NODE, &n); }
   void visit(const Expr& n) override { hit(ABS_EXPR, &n); }
   void visit(const Classic& n) override { hit(ABS_CLASSIC, &n); }
   void visit(const Name& n) override { hit(ABS_NAME, &n); }
   void visit(const Type& n) override { hit(ABS_TYPE, &n); }
   void visit(const Directive& n) override { hit(ABS_DIRECTIVE, &n); }
   void visit(const Stmt& n) override { hit(ABS_STMT, &n); }
   void visit(const Decl& n) override { hit(ABS_DECL, &n); }
#define VH_X(C) void visit(const ipr::C& n) override { hit(int(Category_code::C), static_cast<const Node*>(&n)); }
   VH_LEAF_CATEGORIES(VH_X)
#undef VH_X
};

// accept() calls the node's own hook exactly once per call - also when the call is made from inside a hook of the same visitor
// on the same node, after a hook left by an exception, and by a new visitor living where an earlier one lived.
static void dispatch_histories(const Node& n, Ctx& C, const std::string& cls, const char* kind)
{
   const int k = int(n.category);
   auto all_own = [&](const Recorder& r, std::size_t want) {
      if (r.calls.size() != want) return false;
      for (auto& c : r.calls) if (c.first != k || c.second != &n) return false;
      return true;
   };
   {  Recorder r; r.redispatch = &n; n.accept(r); C.count("dispatch_histories");
      if (!all_own(r, 2)) C.viol(std::string("accept:re-dispatch-from-own-hook:") + kind, "accept() called from inside the hook accept() had just called (same visitor, same node) reached " + std::to_string(r.calls.size()) + " hook calls instead of 2 (class " + cls + ")"); }
   {  Recorder r; r.fail_once = true; bool thrown = false;
      try { n.accept(r); } catch (const Hook_probe&) { thrown = true; }
      if (!thrown) C.viol(std::string("accept:exception-swallowed:") + kind, "an exception thrown by the hook did not leave accept() (class " + cls + ")");
      n.accept(r); n.accept(r); C.count("dispatch_histories");
      if (!all_own(r, 3)) C.viol(std::string("accept:after-a-hook-threw:") + kind, "after a hook left accept() by an exception, two further accept() calls with the same visitor on the same node brought the total to " + std::to_string(r.calls.size()) + " hook calls instead of 3 (class " + cls + ")"); }
   for (int again = 0; again < 2; ++again) {      // a new visitor object where the previous ones lived
      Recorder r; n.accept(r); C.count("dispatch_histories");
      if (!all_own(r, 1)) C.viol(std::string("accept:new-visitor-in-reused-storage:") + kind, "accept() with a new visitor (built where an earlier visitor lived, whose hook had thrown) made " + std::to_string(r.calls.size()) + " hook calls (class " + cls + ")");
   }
}

// (3) a visitor that overrides only the pure sinks (+ Classic, which records and continues with the inherited default)
struct Defaults : Visitor {
   std::vector<int> chain;
   std::vector<const Node*> seen;       // the object each sink was handed
   void visit(const Node& n) override { chain.push_back(ABS_NODE); seen.push_back(&n); }
   void visit(const Expr& n) override { chain.push_back(ABS_EXPR); seen.push_back(&n); }
   void visit(const Classic& n) override { chain.push_back(ABS_CLASSIC); seen.push_back(&n); Visitor::visit(n); }
   void visit(const Name& n) override { chain.push_back(ABS_NAME); seen.push_back(&n); }
   void visit(const Type& n) override { chain.push_back(ABS_TYPE); seen.push_back(&n); }
   void visit(const Directive& n) override { chain.push_back(ABS_DIRECTIVE); seen.push_back(&n); }
   void visit(const Stmt& n) override { chain.push_back(ABS_STMT); seen.push_back(&n); }
   void visit(const Decl& n) override { chain.push_back(ABS_DECL); seen.push_back(&n); }
};

template<class T> static std::vector<int> expected_chain()
{
   if constexpr (std::is_base_of_v<Classic, T>) return { ABS_CLASSIC, ABS_EXPR };
   else if constexpr (std::is_base_of_v<Decl, T>) return { ABS_DECL };
   else if constexpr (std::is_base_of_v<Stmt, T>) return { ABS_STMT };
   else if constexpr (std::is_base_of_v<Directive, T>) return { ABS_DIRECTIVE };
   else if constexpr (std::is_base_of_v<Type, T>) return { ABS_TYPE };
   else if constexpr (std::is_base_of_v<Name, T>) return { ABS_NAME };
   else if constexpr (std::is_base_of_v<Expr, T>) return { ABS_EXPR };
   else return { ABS_NODE };
}
static const char* cat_name(int c)
{
   switch (c) {
#define VH_X(C) case int(Category_code::C): return #C;
   VH_LEAF_CATEGORIES(VH_X)
   VH_CODES_WITHOUT_CLASS(VH_X)
#undef VH_X
   case ABS_NODE: return "<Node>"; case ABS_EXPR: return "<Expr>"; case ABS_CLASSIC: return "<Classic>"; case ABS_NAME: return "<Name>";
   case ABS_TYPE: return "<Type>"; case ABS_DIRECTIVE: return "<Directive>"; case ABS_STMT: return "<Stmt>"; case ABS_DECL: return "<Decl>";
   case 0: return "Unknown";
   }
   return "?";
}
static std::vector<int> expected_chain_of(Category_code c)
{
   switch (c) {
#define VH_X(C) case Category_code::C: return expected_chain<ipr::C>();
   VH_LEAF_CATEGORIES(VH_X)
#undef VH_X
   default: return { -1 };
   }
}
// (4) view<J>(n) for every leaf J
static void all_views(const Node& n, Ctx& C, const std::string& cls)
{
   const int k = int(n.category);
#define VH_X(J) { auto p = util::view<ipr::J>(n); C.count("view_calls"); \
      if (int(Category_code::J) == k) { if (static_cast<const Node*>(p) != &n) C.viol(std::string("view:own-category-missed:") + #J, "view<" #J "> does not yield the node of category " #J " (class " + cls + ")"); } \
      else if (p != nullptr) C.viol(std::string("view:foreign-category-matched:") + cat_name(k) + "-as-" #J, std::string("view<" #J "> yields a node whose category is ") + cat_name(k) + " (class " + cls + ")"); }
   VH_LEAF_CATEGORIES(VH_X)
#undef VH_X
}

// Nodes of different categories given successive lifetimes in the SAME storage (what a recycled heap block does by itself):
// whatever lived at an address before must not show in what view<J>, accept() and the default hooks say about the node
// that lives there now.
static void address_reuse(Ctx& C, impl::Lexicon& lex)
{
   const Lexicon& L = lex;
   alignas(64) static std::byte storage[2048];
   auto& lit = *lex.make_literal(L.int_type(), u8"1");
   auto examine = [&](const Node& n, const char* cls, int want) {
      C.count("instances_in_reused_storage");
      if (int(n.category) != want) C.viol(std::string("reused-storage:category:") + cls, "a node built in storage that held another node reports a wrong category");
      Recorder r; n.accept(r);
      if (r.calls.size() != 1 || r.calls[0].first != want || r.calls[0].second != &n) C.viol(std::string("reused-storage:accept:") + cls, "accept() of a node built in storage that held another node does not call exactly its own leaf hook");
      all_views(n, C, std::string(cls) + " (in storage that held a node of another category)");
   };
   for (int round = 0; round < 3; ++round) {
#define VH_REUSE(Impl, Cat, ...) { static_assert(sizeof(impl::Impl) <= sizeof storage); auto* p = std::construct_at(reinterpret_cast<impl::Impl*>(storage) __VA_OPT__(,) __VA_ARGS__); examine(*p, #Impl, int(Category_code::Cat)); std::destroy_at(p); }
      VH_REUSE(Pointer, Pointer, L.int_type()) VH_REUSE(Reference, Reference, L.int_type()) VH_REUSE(Rvalue_reference, Rvalue_reference, L.char_type())
      VH_REUSE(Address, Address, lit) VH_REUSE(Not, Not, lit) VH_REUSE(Break, Break) VH_REUSE(Continue, Continue) VH_REUSE(Pointer, Pointer, L.bool_type())
      VH_REUSE(Not, Not, lit) VH_REUSE(Reference, Reference, L.int_type()) VH_REUSE(Continue, Continue) VH_REUSE(Address, Address, lit)
#undef VH_REUSE
   }
}

static void body(Ctx& C)
{
   C.rule("finite space: every leaf interface category (generated from <ipr/node-category>) x every implementation class instance "
          "reached (all-factories sweep, process-wide constants, sub-objects handed out by nodes); per instance: category code == code "
          "of the hook accept() calls; a full recording visitor sees exactly one call, the node's own leaf hook - also when accept() is called again from inside that hook, after a hook left by an exception, and by a new visitor built where an earlier one lived; a visitor overriding "
          "only the abstract sinks sees exactly the chain computed at compile time from the interface's base classes; view<J> for all "
          "leaf J yields the node for its own category only; a case = (dynamic class, category), distinct by that pair");
   C.assume("the chain expected from a default hook is derived from std::is_base_of on the interface classes: Classic->Expr, Decl, Stmt, Directive, Type, Name, Expr, else Node");
   std::map<std::string, int> classes;            // dynamic class -> category
   std::set<int> cats_seen;
   Rng seeds(C.seed);
   const int iters = C.thorough ? 60 : 3;
   for (int it = 0; it < iters; ++it) {
      Rng rng(seeds.next());
      impl::Lexicon lex; impl::Translation_unit unit { lex };
      const Lexicon& L = lex;
      Sweep S(lex, unit, rng);
      S.run_all();
      address_reuse(C, lex);
      Collector col;
      // first declarations and redeclarations (master() differs from the node itself) of every declaration kind
      {
         impl::Scope& sc = *unit.global_scope();
         impl::Warehouse<Type> w1; w1.push_back(L.int_type());
         auto& p1 = lex.get_product(w1); auto& ft = lex.get_function(p1, L.int_type()); auto& fa = lex.get_forall(p1, L.class_type());
         for (int rep = 0; rep < 3; ++rep) {
            col.add(*sc.make_var(lex.get_identifier(u8"rd_var"), L.int_type())); col.add(*sc.make_field(lex.get_identifier(u8"rd_field"), L.int_type()));
            { auto* b = sc.make_bitfield(lex.get_identifier(u8"rd_bitfield"), L.int_type()); b->length = lex.make_literal(L.int_type(), u8"3"); col.add(*b); }
            col.add(*sc.make_alias(lex.get_identifier(u8"rd_alias"), *lex.make_literal(L.int_type(), u8"0"))); col.add(*sc.make_typedecl(lex.get_identifier(u8"rd_type"), L.class_type()));
            col.add(*sc.make_fundecl(lex.get_identifier(u8"rd_fun"), ft)); col.add(*sc.make_primary_template(lex.get_identifier(u8"rd_primary"), fa)); col.add(*sc.make_secondary_template(lex.get_identifier(u8"rd_secondary"), fa));
            C.count("redeclarations_instantiated", rep ? 8 : 0);
         }
      }
      collect_roots(col, S);
      for (auto np : col.nodes) {
         const Node& n = *np;
         std::string cls = demangle(typeid(n).name());
         const int k = int(n.category);
         C.count("instances_checked");
         bool fresh = classes.emplace(cls, k).second;
         cats_seen.insert(k);
         C.eval(hash_mix(hash_bytes(cls), k), true);
         // (1)+(2)
         Recorder r; n.accept(r);
         if (r.calls.size() != 1) C.viol(std::string("accept:call-count:") + cat_name(k), "accept() made " + std::to_string(r.calls.size()) + " visitor calls (class " + cls + ")");
         else {
            if (r.calls[0].first != k) C.viol(std::string("accept:wrong-hook:") + cat_name(k) + "->" + cat_name(r.calls[0].first), std::string("a node whose category code is ") + cat_name(k) + " is handed by accept() to the hook for " + cat_name(r.calls[0].first) + " (class " + cls + ")");
            if (r.calls[0].second != &n) C.viol(std::string("accept:other-object:") + cat_name(k), "accept() hands another object to the visitor");
         }
         // (3)
         auto want = expected_chain_of(n.category);
         if (want.size() == 1 && want[0] == -1) C.viol(std::string("category:not-a-leaf-code:") + std::to_string(k), "a node carries a category code that has no interface class (class " + cls + ")");
         else {
            Defaults d; n.accept(d);
            for (auto p : d.seen) if (p != &n) { C.viol(std::string("default-hook:other-object:") + cat_name(k), std::string("the default hook of ") + cat_name(k) + " hands another object than the node visited to the super-category hook (class " + cls + ")"); break; }
            if (d.chain != want) {
               std::string got, exp; for (int x : d.chain) got += std::string(cat_name(x)) + " "; for (int x : want) exp += std::string(cat_name(x)) + " ";
               C.viol(std::string("default-hook:") + cat_name(k), std::string("the default hook of ") + cat_name(k) + " reaches [ " + got + "], expected [ " + exp + "] (class " + cls + ")");
            }
         }
         // (4)
         if (fresh || it == 0) all_views(n, C, cls);
         // (5) dispatch histories; views once more afterwards
         if (fresh || it == 0) { dispatch_histories(n, C, cls, cat_name(k)); if (fresh) all_views(n, C, cls); }
      }
   }
   // every leaf category must have been instantiated
   std::string missing;
#define VH_X(Cc) if (!cats_seen.count(int(Category_code::Cc))) missing += #Cc " ";
   VH_LEAF_CATEGORIES(VH_X)
#undef VH_X
   if (!missing.empty()) C.inconclusive("leaf categories never instantiated: " + missing);
   C.maxi("implementation_classes_seen", (long long)classes.size());
   C.maxi("leaf_categories_seen", (long long)cats_seen.size());
   std::string list = "[";
   for (auto& [cls, k] : classes) { if (list.size() > 1) list += ","; list += jstr(cls + " : " + cat_name(k)); }
   C.extra("implementation_classes", list + "]");
   int ns = 0;
   for (auto& [cls, k] : classes) { if (ns++ % 40 == 0) C.sample(J().s("dynamic_class", cls).s("category", cat_name(k)).str(), 6); }
   C.need("view_calls"); C.need("dispatch_histories"); C.need("instances_checked"); C.need("redeclarations_instantiated"); C.need("instances_in_reused_storage");
   C.exhaustive(missing.empty());
}

int main(int argc, char** argv) { return guarded_main(argc, argv, body); }
