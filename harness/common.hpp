// Common harness support: argument parsing, PRNG, JSON event log, violation recording,
// distinct-case hashing.  Header-only; no dependency on ipr.
#ifndef VERIF_COMMON_HPP
#define VERIF_COMMON_HPP

#include <cstdint>
#include <cstdio>
#include <cstdlib>
#include <cstring>
#include <string>
#include <string_view>
#include <vector>
#include <map>
#include <unordered_set>
#include <sstream>
#include <stdexcept>
#include <typeinfo>
#include <unistd.h>

namespace vh {

// -- PRNG (xoshiro256** seeded by splitmix64) ------------------------------------------
inline std::uint64_t splitmix64(std::uint64_t& x)
{
   std::uint64_t z = (x += 0x9E3779B97F4A7C15ull);
   z = (z ^ (z >> 30)) * 0xBF58476D1CE4E5B9ull;
   z = (z ^ (z >> 27)) * 0x94D049BB133111EBull;
   return z ^ (z >> 31);
}

struct Rng {
   std::uint64_t s[4];
   explicit Rng(std::uint64_t seed = 1) { reseed(seed); }
   void reseed(std::uint64_t seed) { for (auto& w : s) w = splitmix64(seed); }
   static std::uint64_t rotl(std::uint64_t x, int k) { return (x << k) | (x >> (64 - k)); }
   std::uint64_t next()
   {
      const std::uint64_t result = rotl(s[1] * 5, 7) * 9;
      const std::uint64_t t = s[1] << 17;
      s[2] ^= s[0]; s[3] ^= s[1]; s[1] ^= s[2]; s[0] ^= s[3];
      s[2] ^= t; s[3] = rotl(s[3], 45);
      return result;
   }
   // uniform in [0, n)
   std::uint64_t below(std::uint64_t n) { return n == 0 ? 0 : next() % n; }
   // uniform in [lo, hi]
   std::int64_t range(std::int64_t lo, std::int64_t hi) { return lo + std::int64_t(below(std::uint64_t(hi - lo + 1))); }
   bool chance(int percent) { return int(below(100)) < percent; }
   template<class C> auto& pick(C& c) { return c[below(c.size())]; }
   Rng fork() { return Rng{next()}; }
};

inline std::uint64_t hash_mix(std::uint64_t h, std::uint64_t v)
{
   h ^= v + 0x9E3779B97F4A7C15ull + (h << 6) + (h >> 2);
   std::uint64_t x = h;
   return splitmix64(x);
}
inline std::uint64_t hash_bytes(std::string_view s, std::uint64_t h = 0xcbf29ce484222325ull)
{
   for (unsigned char c : s) { h ^= c; h *= 0x100000001b3ull; }
   return h;
}

// -- JSON helpers -----------------------------------------------------------------------
inline std::string jstr(std::string_view s)
{
   std::string o = "\"";
   for (unsigned char c : s) {
      switch (c) {
      case '"': o += "\\\""; break;
      case '\\': o += "\\\\"; break;
      case '\n': o += "\\n"; break;
      case '\t': o += "\\t"; break;
      case '\r': o += "\\r"; break;
      default:
         if (c < 0x20 || c >= 0x7f) { char b[8]; std::snprintf(b, sizeof b, "\\u%04x", c); o += b; }
         else o += char(c);
      }
   }
   o += '"';
   return o;
}
inline std::string jstr(std::u8string_view s) { return jstr(std::string_view(reinterpret_cast<const char*>(s.data()), s.size())); }

// A tiny JSON object builder: J().s("k","v").n("k",3).raw("k","[1,2]").str()
struct J {
   std::string body;
   J& sep() { if (!body.empty()) body += ','; return *this; }
   J& s(const char* k, std::string_view v) { sep(); body += jstr(k) + ":" + jstr(v); return *this; }
   J& n(const char* k, long long v) { sep(); body += jstr(k) + ":" + std::to_string(v); return *this; }
   J& u(const char* k, unsigned long long v) { sep(); body += jstr(k) + ":" + std::to_string(v); return *this; }
   J& b(const char* k, bool v) { sep(); body += jstr(k) + (v ? ":true" : ":false"); return *this; }
   J& raw(const char* k, std::string_view v) { sep(); body += jstr(k) + ":"; body += v; return *this; }
   std::string str() const { return "{" + body + "}"; }
};
template<class It, class F>
inline std::string jarr(It b, It e, F f)
{
   std::string o = "[";
   bool first = true;
   for (; b != e; ++b) { if (!first) o += ','; first = false; o += f(*b); }
   return o + "]";
}

// -- Context: arguments, event log, counters, violations --------------------------------
struct Ctx {
   std::uint64_t seed = 1, base_seed = 1;
   bool thorough = false, verbose = false;
   int worker = 0, workers = 1;
   std::string out_path;
   FILE* out = nullptr;
   std::map<std::string, long long> ctrs;
   std::map<std::string, long long> maxs;
   std::map<std::string, int> viol_counts;
   std::unordered_set<std::uint64_t> distinct;
   std::size_t distinct_cap = 2'000'000;
   bool distinct_capped = false;
   int samples_emitted = 0;
   long long total_viols = 0;

   void parse(int argc, char** argv)
   {
      for (int i = 1; i < argc; ++i) {
         std::string a = argv[i];
         auto val = [&]() -> std::string { return i + 1 < argc ? argv[++i] : ""; };
         if (a == "--seed") seed = std::strtoull(val().c_str(), nullptr, 10);
         else if (a == "--base-seed") base_seed = std::strtoull(val().c_str(), nullptr, 10);
         else if (a == "--tier") thorough = (val() == "thorough");
         else if (a == "--worker") worker = std::atoi(val().c_str());
         else if (a == "--workers") workers = std::atoi(val().c_str());
         else if (a == "--out") out_path = val();
         else if (a == "--verbose") verbose = true;
      }
      if (!out_path.empty()) out = std::fopen(out_path.c_str(), "w");
      if (!out) out = stdout;
      std::setvbuf(out, nullptr, _IOLBF, 0);
   }

   void line(const std::string& s) { std::fputs(s.c_str(), out); std::fputc('\n', out); std::fflush(out); }

   // Record a violation.  `key` must be stable: no addresses, no seeds, no counts.
   void viol(const std::string& key, const std::string& msg, const std::string& replay_json = "{}")
   {
      ++total_viols;
      int& n = viol_counts[key];
      if (++n <= 3) {
         line(J().s("t", "viol").s("key", key).s("msg", msg).raw("replay", replay_json).str());
         if (verbose) std::fprintf(stderr, "VIOL %s: %s\n", key.c_str(), msg.c_str());
      }
   }
   void count(const std::string& k, long long v = 1) { ctrs[k] += v; }
   void maxi(const std::string& k, long long v) { auto& m = maxs[k]; if (v > m) m = v; }
   void need(const std::string& k, long long min = 1) { line(J().s("t", "need").s("k", k).n("min", min).str()); }
   void rule(const std::string& r) { line(J().s("t", "rule").s("v", r).str()); }
   void assume(const std::string& r) { line(J().s("t", "assume").s("v", r).str()); }
   void exhaustive(bool v) { line(J().s("t", "exhaustive").b("v", v).str()); }
   void inconclusive(const std::string& r) { line(J().s("t", "inconclusive").s("v", r).str()); }
   void extra(const std::string& k, const std::string& raw_json) { line(J().s("t", "extra").s("k", k).raw("v", raw_json).str()); }
   void sample(const std::string& raw_json, int cap = 4)
   {
      if (samples_emitted < cap) { ++samples_emitted; line(J().s("t", "sample").raw("v", raw_json).str()); }
   }
   // one evaluated case; `descriptor_hash` identifies it up to what the rule calls distinct; pass
   // nontrivial=false for cases the rule calls trivial.
   void eval(std::uint64_t descriptor_hash, bool nontrivial = true)
   {
      ++ctrs["evaluations"];
      if (nontrivial) {
         if (distinct.size() < distinct_cap) distinct.insert(descriptor_hash);
         else distinct_capped = true;
      }
   }
   void finish()
   {
      for (auto& [k, v] : ctrs) line(J().s("t", "ctr").s("k", k).n("v", v).str());
      for (auto& [k, v] : maxs) line(J().s("t", "max").s("k", k).n("v", v).str());
      for (auto& [k, v] : viol_counts) if (v > 3) line(J().s("t", "ctr").s("k", "viol_repeats:" + k).n("v", v - 3).str());
      if (!distinct.empty() && !out_path.empty()) {
         std::string hp = out_path + ".hashes";
         if (FILE* f = std::fopen(hp.c_str(), "wb")) {
            std::vector<std::uint64_t> v(distinct.begin(), distinct.end());
            std::fwrite(v.data(), 8, v.size(), f);
            std::fclose(f);
            line(J().s("t", "hashes").s("file", hp).str());
         }
      }
      if (distinct_capped) line(J().s("t", "extra").s("k", "distinct_capped_per_worker").n("v", (long long)distinct_cap).str());
      line("{\"t\":\"done\"}");
      std::fflush(out);
   }
};

inline Ctx& ctx() { static Ctx c; return c; }

// Run a harness body; an exception escaping it is recorded (stable key: its type and message) instead of
// terminating the process, so that it is matched against known findings like any other violation.
template<class F>
inline int guarded_main(int argc, char** argv, F body)
{
   auto& C = ctx();
   C.parse(argc, argv);
   try { body(C); }
   catch (const std::exception& e) {
      std::string what = e.what();
      for (auto& c : what) if (c >= '0' && c <= '9') c = '#';
      C.viol(std::string("unexpected-exception:") + typeid(e).name() + ":" + what.substr(0, 60), std::string("an exception escaped the harness body: ") + e.what());
   }
   catch (...) { C.viol("unexpected-exception:unknown", "a non-standard exception escaped the harness body"); }
   C.finish();
   return 0;
}

inline std::string hexaddr(const void* p) { char b[32]; std::snprintf(b, sizeof b, "%p", p); return b; }

} // namespace vh

#endif
