// C02 -- every factory-built node reports exactly the operands it was built from.
// C09 -- every node has the type its kind prescribes (same binary, -DVH_C09 selects the aspect).
#include "sweep_all.hpp"
#include <regex>

using namespace vh;

#ifdef VH_C09
static constexpr int ASPECTS = A_TYPE;
static constexpr const char* WHAT = "type";
#else
static constexpr int ASPECTS = A_OPERAND | A_IDENTITY;
static constexpr const char* WHAT = "operands";
#endif

static bool covers(const std::string& variant, const std::string& fn)
{
   auto pos = variant.find(fn);
   while (pos != std::string::npos) {
      bool left = pos == 0 || !(std::isalnum((unsigned char)variant[pos - 1]) || variant[pos - 1] == '_');
      std::size_t end = pos + fn.size();
      bool right = end == variant.size() || !(std::isalnum((unsigned char)variant[end]) || variant[end] == '_');
      if (left && right) return true;
      pos = variant.find(fn, pos + 1);
   }
   return false;
}

#ifdef VH_C09
// Sequence types: the type of a scope / parameter list / expression list is always the product of its
// current elements' types, also after additions made after the product reference was first obtained.
static void growth(Ctx& C, std::uint64_t seed)
{
   Rng rng(seed);
   impl::Lexicon lex; impl::Translation_unit unit { lex };
   Pools P(lex, unit, rng);
   const int n = rng.chance(10) ? 500 : int(rng.below(40));
   auto* xl = lex.make_expr_list();
   auto* map = lex.make_mapping(P.R(), Mapping_level{ 0 });
   auto* reg = P.R().make_subregion();
   auto* en = lex.make_enum(P.R(), Enum::Kind::Scoped);
   const Product& xt = xl->type(); const Product& pt = map->parameters().type(); const Type& st = reg->bindings().type(); const Type& et = en->region().bindings().type();
   std::vector<const Type*> xs, ps, ss;
   auto check = [&](const char* what, const Type& t, const std::vector<const Type*>& want, int step) {
      auto prod = util::view<Product>(t);
      C.count("sequence_type_checks");
      if (!prod) { C.viol(std::string("type:sequence:") + what + ":not-a-product", "the type of a sequence-like node is not a Product"); return; }
      if (prod->size() != want.size()) { C.viol(std::string("type:sequence:") + what + ":size", "the product type has " + std::to_string(prod->size()) + " components after " + std::to_string(step) + " additions"); return; }
      for (std::size_t i = 0; i < want.size(); ++i) if (&(*prod)[i] != want[i]) { C.viol(std::string("type:sequence:") + what + ":component", "component " + std::to_string(i) + " of the product type is not that member's type"); return; }
      if (&prod->type() != &static_cast<const Lexicon&>(lex).typename_type()) C.viol(std::string("type:sequence:") + what + ":not-typename", "a product type is not typed typename");
   };
   std::vector<const Type*> ets;
   std::vector<std::pair<std::size_t, impl::Id_expr*>> retypable;
   for (int i = 0; i <= n; ++i) {
      check("expr_list", xt, xs, i); check("expr_list", xl->type(), xs, i);
      check("parameter_list", pt, ps, i); check("parameter_list", map->parameters().type(), ps, i);
      check("scope", st, ss, i); check("scope", reg->bindings().type(), ss, i);
      check("enumeration", et, ets, i);
      if (i == n) break;
      // an element whose own type is supplied or replaced later (the documented way to complete a node): the list's type must
      // follow the element's current type, also for components that were already read
      if (!retypable.empty() && rng.chance(35)) {
         auto& [idx, ie] = retypable[rng.below(retypable.size())];
         const Type& nt = P.T(); ie->typing = &nt; xs[idx] = &nt;
         C.count("elements_retyped_after_the_list_type_was_read");
         check("expr_list(after retyping an element)", xt, xs, i); check("expr_list(after retyping an element)", xl->type(), xs, i);
      }
      if (rng.chance(30)) { auto& t0 = P.T(); auto* ie = lex.make_id_expr(*P.idents[i % 10], Optional<Type>(&t0)); xl->push_back(ie); xs.push_back(&t0); retypable.emplace_back(xs.size() - 1, ie); }
      else { auto& e = P.X(); xl->push_back(&e); xs.push_back(&e.type()); }
      auto& t = P.T(); map->param(*P.idents[i % 10], t); ps.push_back(&t);
      auto& t2 = P.T(); reg->declare_var(*P.idents[i % 7], t2); ss.push_back(&t2);
      en->add_member(*P.idents[i % 10]); ets.push_back(en);
   }
   C.count("growth_histories");
   C.eval(hash_mix(seed, n));
}
#endif

static void body(Ctx& C)
{
#ifdef VH_C09
   C.rule("a case = one factory call of the all-factories sweep (every linkable factory and member-adding operation of <ipr/impl>, "
          "every arity of optional arguments, every set/unset combination of post-construction links) with operands drawn so that the "
          "right type is distinguishable; the node's type() is compared with the rule of its kind: fixed (void/bool/kind type/typename/"
          "decltype(nullptr)), borrowed (from the designated sub-node), given (exactly the type passed; absent => logic_error), or "
          "sequence (product of the current members' types, re-checked after every later addition); distinct = distinct (factory variant, random draw)");
#else
   C.rule("a case = one factory call of the all-factories sweep (every linkable factory and member-adding operation of <ipr/impl>, "
          "every arity of optional arguments, every enumerator value, every set/unset combination of post-construction links) with "
          "pairwise distinguishable operands; every accessor the interface documents is compared with the operand it was given "
          "(identity for nodes, value for flags/enumerators/positions), absent parts must read as absent; distinct = distinct "
          "(factory variant, random draw)");
#endif
   C.assume("the hand-written shadow of each factory (harness/sweep_*.hpp) encodes the interface documentation; factories missing from the sweep are reported as inconclusive, not skipped");
   const int iters = C.thorough ? 2500 : 60;
   std::set<std::string> variants;
   Rng seeds(C.seed);
   for (int it = 0; it < iters; ++it) {
      Rng rng(seeds.next());
      impl::Lexicon lex;
      impl::Translation_unit unit { lex };
      Sweep S(lex, unit, rng);
      S.run_all();
      C.count("operand_twin_requests", S.twin_requests);
      // growth after the fact: sequence types must track later additions
      for (int pass = 0; pass < 3; ++pass) {
         // last pass: after every classic operation, cast and literal was told which user-supplied operation implements it
         if (pass == 2) C.count("implementations_recorded_after_construction", S.annotate_late());
         for (auto& m : S.made) {
            Ck ck;
            Sweep::run_check(m, ck);
            C.count("accessor_checks", ck.checks);
            if (pass == 0) { C.count("factory:" + m.factory); variants.insert(m.factory); C.eval(hash_mix(hash_bytes(m.factory), rng.next())); }
            for (auto& [aspect, acc, msg] : ck.fails)
               if (aspect & ASPECTS)
                  C.viol(std::string(WHAT) + ":" + m.factory + ":" + acc, m.factory + ": " + msg + (pass == 2 ? " (after an implementation() was recorded on the node)" : ""), J().s("factory", m.factory).s("accessor", acc).n("iteration", it).n("pass", pass).str());
         }
      }
      if (it == 0) {
         C.sample(J().s("factory", S.made[7].factory).s("kind", "sweep artifact").n("artifacts_in_one_sweep", (long long)S.made.size()).str());
         C.sample(J().s("factory", S.made[S.made.size() / 2].factory).s("kind", "sweep artifact").str());
      }
   }
#ifdef VH_C09
   C.need("sequence_type_checks"); C.need("elements_retyped_after_the_list_type_was_read");
   for (int g = 0; g < (C.thorough ? 3000 : 80); ++g) growth(C, seeds.next());
#endif
   C.need("operand_twin_requests");
   // every declared factory must have been exercised
   std::string missing;
   for (auto fn : declared_factories) {
      bool ok = false;
      for (auto& v : variants) if (covers(v, fn)) { ok = true; break; }
      if (!ok) missing += std::string(fn) + " ";
   }
   if (!missing.empty()) C.inconclusive("factories declared in <ipr/impl> but not exercised by the sweep: " + missing);
   C.count("factory_variants", 0);
   C.maxi("factory_variants_exercised", (long long)variants.size());
   C.maxi("declared_factories", (long long)(sizeof declared_factories / sizeof declared_factories[0]));
}

int main(int argc, char** argv) { return guarded_main(argc, argv, body); }
