// C01 -- types are unified: same constructor arguments give the same node, and only then.
// Monitor: history of type-constructor requests checked against an executable reference model
// (canonical request key -> node identity), plus structural/conservation invariants of the live
// unification tables read through the IPR_VERIF hook at quiescent points.
#include "common.hpp"
#include "inspect.hpp"
#include <tuple>
#include "successive.hpp"
#include <optional>
#include <ipr/impl>
#include <unordered_map>
#include <algorithm>

using namespace vh;
using namespace ipr;

enum Ctor { PTR, REF, RREF, ARRAY, QUAL, FN, PROD, SUM, FORALL, PTM, TOR, ASTYPE, ASTYPE_ID, XFER, XFER_LINK, XFER_CC, NCTOR };
static const char* ctor_name[] = {"pointer", "reference", "rvalue_reference", "array", "qualified", "function", "product", "sum",
                                  "forall", "ptr_to_member", "tor", "as_type", "as_type(identifier)", "transfer",
                                  "transfer_from_linkage", "transfer_from_convention"};

struct Req {
   int ctor = 0;
   const Type* t1 = nullptr; const Type* t2 = nullptr;
   const Expr* e = nullptr;            // array bound / throws / as_type operand
   std::uintptr_t bits = 0;
   std::vector<const Type*> seq;
   std::string link, cc;               // transfer spelling ("" "" = none given)
   bool has_xfer = false;
   std::string id;                     // as_type(identifier)
};

static void put(std::string& k, const void* p) { auto v = reinterpret_cast<std::uintptr_t>(p); k.append(reinterpret_cast<const char*>(&v), sizeof v); }
static void put(std::string& k, std::uintptr_t v) { k.append(reinterpret_cast<const char*>(&v), sizeof v); }
static void puts(std::string& k, const std::string& s) { put(k, std::uintptr_t(s.size())); k += s; }

// A sequence object owned by the client, refilled for every request: the same object (same address) spells a different
// request each time.  Only used to ask again for a product / sum that exists, so the Lexicon has no reason to keep it.
struct ScratchSeq final : Sequence<Type> {
   std::vector<const Type*> v;
   Index size() const override { return v.size(); }
   const Type& get(Index i) const override { return *v.at(i); }
};

struct Harness {
   ScratchSeq scratch;
   impl::Lexicon lex;
   impl::Translation_unit unit { lex };
   Rng rng;
   std::vector<const Type*> types;          // operand pool (grows)
   std::vector<const Product*> products;
   std::vector<const Sum*> sums;
   std::vector<const Expr*> exprs;
   std::vector<std::tuple<const Expr*, std::string, std::string>> with_transfer;   // as-types that carry a non-natural transfer
   std::vector<std::string> links { "C", "C++", "Java", "Fortran", "c", "C+" };
   std::vector<std::string> ccs { "", "cdecl", "stdcall", "fastcall", "C++" };
   std::vector<std::string> idents;
   std::vector<std::pair<std::string, const Type*>> builtin_by_name;
   std::vector<Req> history;
   // model
   std::unordered_map<std::string, const void*> fwd[NCTOR];
   std::unordered_map<const void*, std::string> rev[NCTOR];
   std::unordered_map<std::string, long long> last_seen[NCTOR];
   long long nreq = 0;
   long long warehouse_seqs_distinct = 0;
   std::unordered_map<std::string, int> warehouse_keys;
   std::map<std::string, long long> sub;      // distinct keys per sub-table (functions vs fun_xfers ...)

   explicit Harness(std::uint64_t seed) : rng(seed)
   {
      const Lexicon& L = lex;
      const Type* b[] = { &L.void_type(), &L.bool_type(), &L.char_type(), &L.schar_type(), &L.uchar_type(), &L.wchar_t_type(),
         &L.char8_t_type(), &L.char16_t_type(), &L.char32_t_type(), &L.short_type(), &L.ushort_type(), &L.int_type(), &L.uint_type(),
         &L.long_type(), &L.ulong_type(), &L.long_long_type(), &L.ulong_long_type(), &L.float_type(), &L.double_type(),
         &L.long_double_type(), &L.ellipsis_type(), &L.typename_type(), &L.class_type(), &L.union_type(), &L.enum_type(),
         &L.namespace_type() };
      for (auto t : b) {
         types.push_back(t);
         auto& id = *util::check(util::view<Identifier>(t->name()));
         auto w = id.string().characters();
         builtin_by_name.emplace_back(std::string(reinterpret_cast<const char*>(w.data()), w.size()), t);
      }
      builtin_by_name.emplace_back("auto", &L.default_value().type());
      auto& greg = *unit.global_region();
      types.push_back(lex.make_class(greg));
      types.push_back(lex.make_class(greg));
      types.push_back(lex.make_union(greg));
      types.push_back(lex.make_enum(greg, Enum::Kind::Scoped));
      types.push_back(lex.make_namespace(greg));
      types.push_back(lex.make_closure(greg));
      types.push_back(&lex.get_auto());
      types.push_back(&lex.get_auto());
      exprs.push_back(&L.true_value());
      exprs.push_back(&L.false_value());
      exprs.push_back(&L.nullptr_value());
      for (int i = 0; i < 12; ++i) {
         std::string s = std::to_string(i * 7);
         exprs.push_back(lex.make_literal(L.int_type(), std::u8string_view(reinterpret_cast<const char8_t*>(s.data()), s.size())));
      }
      for (int i = 0; i < 4; ++i) exprs.push_back(lex.make_phantom());
      for (int i = 0; i < 6; ++i) {
         std::string s = "v" + std::to_string(i);
         exprs.push_back(lex.make_id_expr(lex.get_identifier(std::u8string_view(reinterpret_cast<const char8_t*>(s.data()), s.size()))));
      }
      types.push_back(&lex.get_decltype(*exprs[5]));
      types.push_back(&lex.get_decltype(*exprs[5]));   // decltype is generative: a distinct operand
      for (auto& [n, t] : builtin_by_name) idents.push_back(n);
      for (auto s : { "T", "size_type", "Int", "in", "intt", "unsigned", "long  long", "Void", "" , "x1", "x2", "x3" }) idents.push_back(s);
   }

   static std::u8string_view u8v(const std::string& s) { return { reinterpret_cast<const char8_t*>(s.data()), s.size() }; }

   const Type& pick_type() { return *types[rng.below(types.size())]; }

   // Types are expressions: the canonical "empty" nodes (the product and the sum of nothing), a one-element sum and product, a
   // built-in and a user-defined type join the pool that array bounds, exception specifications and as-type operands are drawn
   // from (`throw()` is a function type's exception specification spelled as the empty sum).
   void types_as_expressions()
   {
      const Lexicon& L = lex;
      Req p0; p0.ctor = PROD; Req s0; s0.ctor = SUM; Req s1; s1.ctor = SUM; s1.seq.push_back(&L.int_type()); Req p1; p1.ctor = PROD; p1.seq.push_back(&L.char_type());
      for (auto r : { &p0, &s0, &s1, &p1 }) { exprs.push_back(static_cast<const Type*>(execute(*r, 0))); ctx().count("types_offered_as_expression_operands"); }
      exprs.push_back(&L.int_type()); exprs.push_back(types[types.size() / 2]);
   }

   // Declarations are expressions too.  A name declared twice in one scope (same name, same type) gives two declaration nodes that
   // share a master: as operands they are different arguments.  Every declaration kind the scopes make joins the pool, each
   // declared two or three times, in the global scope and in a namespace.
   void declarations_as_expressions()
   {
      const Lexicon& L = lex;
      impl::Namespace* ns = lex.make_namespace(*unit.global_region());
      impl::Scope* scopes[] = { unit.global_scope(), &ns->body.scope };
      Req p0; p0.ctor = PROD; Req fr; fr.ctor = FN; fr.t1 = static_cast<const Type*>(execute(p0, 0)); fr.t2 = &L.void_type();      // through the model
      auto& ft = *static_cast<const Function*>(static_cast<const Type*>(execute(fr, 0)));
      int k = 0;
      for (auto sc : scopes) {
         auto nm = [&](const char* stem) -> const Name& { std::string s = std::string(stem) + std::to_string(k); return lex.get_identifier(u8v(s)); };
         for (int rep = 0; rep < 3; ++rep) {
            exprs.push_back(sc->make_typedecl(nm("S"), L.class_type()));
            exprs.push_back(sc->make_typedecl(nm("E"), L.enum_type()));
            exprs.push_back(sc->make_var(nm("x"), L.int_type()));
            exprs.push_back(sc->make_fundecl(nm("f"), ft));
            exprs.push_back(sc->make_alias(nm("A"), static_cast<const Expr&>(L.int_type())));
            exprs.push_back(sc->make_field(nm("m"), L.char_type()));
            ctx().count("declarations_offered_as_expression_operands", 6);
            if (rep) ctx().count("redeclarations_offered_as_expression_operands", 6);
         }
         ++k;
      }
   }

   const Product& some_product()
   {
      if (products.empty() || rng.chance(30)) {
         Req r; r.ctor = PROD; int n = int(rng.below(4)); for (int i = 0; i < n; ++i) r.seq.push_back(&pick_type());
         return static_cast<const Product&>(*static_cast<const Type*>(execute(r, 0)));
      }
      return *products[rng.below(products.size())];
   }
   const Sum& some_sum()
   {
      if (sums.empty() || rng.chance(30)) {
         Req r; r.ctor = SUM; int n = int(rng.below(3)); for (int i = 0; i < n; ++i) r.seq.push_back(&pick_type());
         return static_cast<const Sum&>(*static_cast<const Type*>(execute(r, 0)));
      }
      return *sums[rng.below(sums.size())];
   }

   Req fresh()
   {
      Req r;
      r.ctor = int(rng.below(NCTOR));
      switch (r.ctor) {
      case PTR: case REF: case RREF: r.t1 = &pick_type(); break;
      case ARRAY: r.t1 = &pick_type(); r.e = exprs[rng.below(exprs.size())]; break;
      case QUAL: {
         r.t1 = &pick_type();
         r.bits = 1 + rng.below(7);
         if (rng.chance(15)) r.bits |= std::uintptr_t(1) << (3 + rng.below(20));
         if (rng.chance(3)) r.bits |= std::uintptr_t(1) << 63;
         break;
      }
      case FN: {
         r.t1 = &some_product(); r.t2 = &pick_type();
         if (rng.chance(50)) r.e = exprs[rng.below(exprs.size())];
         if (rng.chance(50)) { r.has_xfer = true; r.link = rng.pick(links); r.cc = rng.pick(ccs); if (rng.chance(40)) { r.link = "C++"; r.cc = ""; } }
         break;
      }
      case PROD: case SUM: {
         int n = rng.chance(3) ? 200 : int(rng.below(13));
         for (int i = 0; i < n; ++i) r.seq.push_back(&pick_type());
         if (rng.chance(30) && !r.seq.empty() && !history.empty()) {
            // a proper prefix / extension of an earlier sequence
            for (int tries = 0; tries < 8; ++tries) {
               auto& h = history[rng.below(history.size())];
               if ((h.ctor == PROD || h.ctor == SUM) && !h.seq.empty()) {
                  r.seq = h.seq;
                  if (rng.chance(50)) r.seq.pop_back(); else r.seq.push_back(&pick_type());
                  break;
               }
            }
         }
         break;
      }
      case FORALL: r.t1 = &some_product(); r.t2 = &pick_type(); break;
      case PTM: r.t1 = &pick_type(); r.t2 = &pick_type(); break;
      case TOR: r.t1 = &some_product(); r.t2 = &some_sum(); break;
      case ASTYPE: {
         r.e = rng.chance(70) ? exprs[rng.below(exprs.size())] : static_cast<const Expr*>(&pick_type());
         if (rng.chance(40)) { r.has_xfer = true; r.link = rng.pick(links); r.cc = rng.pick(ccs); if (rng.chance(40)) { r.link = "C++"; r.cc = ""; } }
         // an as-type over an earlier as-type that already carries a transfer: with the very same transfer, with another one, with none
         if (!with_transfer.empty() && rng.chance(15)) {
            auto& w = with_transfer[rng.below(with_transfer.size())];
            r.e = std::get<0>(w);
            switch (rng.below(3)) { case 0: r.has_xfer = true; r.link = std::get<1>(w); r.cc = std::get<2>(w); break; case 1: r.has_xfer = true; r.link = rng.pick(links); r.cc = rng.pick(ccs); break; default: r.has_xfer = false; break; }
            ctx().count("as_type_over_an_as_type_with_transfer");
         }
         break;
      }
      case ASTYPE_ID: r.id = rng.pick(idents); break;
      case XFER: r.link = rng.pick(links); r.cc = rng.pick(ccs); break;
      case XFER_LINK: r.link = rng.pick(links); break;
      case XFER_CC: r.cc = rng.pick(ccs); break;
      }
      return r;
   }

   const Transfer& spell_transfer(const Req& r, int variant)
   {
      if (r.link == "C++" && r.cc.empty()) {
         switch (variant % 3) {
         case 0: return impl::cxx_transfer();
         case 1: return lex.get_transfer(static_cast<const Lexicon&>(lex).cxx_linkage(), lex.get_calling_convention(u8""));
         default: return lex.get_transfer(lex.get_linkage(u8"C++"), lex.get_calling_convention(u8""));
         }
      }
      auto& l = (variant & 1) ? lex.get_linkage(lex.get_string(u8v(r.link))) : lex.get_linkage(u8v(r.link));
      return lex.get_transfer(l, lex.get_calling_convention(u8v(r.cc)));
   }

   // Execute a request, returning the node; checks against the model.
   const void* execute(const Req& r, int variant)
   {
      ++nreq;
      std::string key;
      const void* node = nullptr;
      const Node* asnode = nullptr;
      Category_code expect_cat = Category_code::Unknown;
      const bool natural = !r.has_xfer || (r.link == "C++" && r.cc.empty());
      switch (r.ctor) {
      case PTR: { auto& n = lex.get_pointer(*r.t1); put(key, r.t1); node = static_cast<const Type*>(&n); asnode = &n; expect_cat = Category_code::Pointer;
                  if (&n.points_to() != r.t1) bad_operand(r); break; }
      case REF: { auto& n = lex.get_reference(*r.t1); put(key, r.t1); node = static_cast<const Type*>(&n); asnode = &n; expect_cat = Category_code::Reference;
                  if (&n.refers_to() != r.t1) bad_operand(r); break; }
      case RREF: { auto& n = lex.get_rvalue_reference(*r.t1); put(key, r.t1); node = static_cast<const Type*>(&n); asnode = &n; expect_cat = Category_code::Rvalue_reference;
                  if (&n.refers_to() != r.t1) bad_operand(r); break; }
      case ARRAY: { auto& n = lex.get_array(*r.t1, *r.e); put(key, r.t1); put(key, r.e); node = static_cast<const Type*>(&n); asnode = &n; expect_cat = Category_code::Array;
                  if (&n.element_type() != r.t1 || &n.bound() != r.e) bad_operand(r); break; }
      case QUAL: {
         auto& n = lex.get_qualified(Qualifiers(r.bits), *r.t1);
         // documented normal form: qualifiers of an already qualified operand are merged
         std::uintptr_t bits = r.bits; const Type* main = r.t1;
         while (main->category == Category_code::Qualified) {
            auto& q = static_cast<const Qualified&>(*main);
            bits |= std::uintptr_t(q.qualifiers()); main = &q.main_variant();
         }
         put(key, bits); put(key, main); node = static_cast<const Type*>(&n); asnode = &n; expect_cat = Category_code::Qualified;
         if (std::uintptr_t(n.qualifiers()) != bits || &n.main_variant() != main) bad_operand(r);
         break;
      }
      case FN: {
         auto& src = static_cast<const Product&>(*r.t1);
         const Expr& thr = r.e ? *r.e : static_cast<const Expr&>(static_cast<const Lexicon&>(lex).false_value());
         const Function* f = nullptr;
         // choose an overload able to express this request; `variant` selects among equivalent spellings
         std::vector<int> ok;
         if (!r.e && !r.has_xfer) ok = {0, 1, 2, 3};
         else if (!r.e && natural) ok = {1, 3, 0, 2};       // explicit natural transfer == omitted
         else if (!r.e) ok = {1, 3};
         else if (!r.has_xfer) ok = {2, 3};
         else if (natural) ok = {3, 2};
         else ok = {3};
         int ov = ok[variant % ok.size()];
         Req nat = r; nat.link = "C++"; nat.cc = "";
         switch (ov) {
         case 0: f = &lex.get_function(src, *r.t2); break;
         case 1: f = &lex.get_function(src, *r.t2, spell_transfer(r.has_xfer ? r : nat, variant / 4)); break;
         case 2: f = &lex.get_function(src, *r.t2, thr); break;
         default: f = &lex.get_function(src, *r.t2, thr, spell_transfer(r.has_xfer ? r : nat, variant / 4)); break;
         }
         ctx().count(std::string("fn_overload_") + std::to_string(ov));
         put(key, r.t1); put(key, r.t2); put(key, &thr);
         if (natural) { puts(key, "C++"); puts(key, ""); } else { puts(key, r.link); puts(key, r.cc); }
         node = static_cast<const Type*>(f); asnode = f; expect_cat = Category_code::Function;
         if (&f->source() != &src || &f->target() != r.t2 || &f->throws() != &thr) bad_operand(r);
         if (!xfer_is(f->transfer(), natural ? "C++" : r.link, natural ? "" : r.cc)) bad_operand(r);
         break;
      }
      case PROD: case SUM: {
         const bool prod = r.ctor == PROD;
         for (auto t : r.seq) put(key, t);
         const Type* res = nullptr;
         // entry point: Warehouse (copies) or a Lexicon-owned sequence of an existing node with this key
         auto it = fwd[r.ctor].find(key);
         if (it != fwd[r.ctor].end() && (variant & 3) == 3) {
            scratch.v.assign(r.seq.begin(), r.seq.end());
            res = prod ? static_cast<const Type*>(&lex.get_product(scratch)) : static_cast<const Type*>(&lex.get_sum(scratch));
            ctx().count("seq_entry_point_client_scratch_sequence");
         } else if (it != fwd[r.ctor].end() && (variant & 1)) {
            if (prod) { auto& ex = *static_cast<const Product*>(static_cast<const Type*>(it->second)); res = &lex.get_product(ex.elements()); }
            else { auto& ex = *static_cast<const Sum*>(static_cast<const Type*>(it->second)); res = &lex.get_sum(ex.elements()); }
            ctx().count("seq_entry_point_sequence");
         } else {
            impl::Warehouse<Type> w;
            for (auto t : r.seq) w.push_back(*t);
            res = prod ? static_cast<const Type*>(&lex.get_product(w)) : static_cast<const Type*>(&lex.get_sum(w));
            ctx().count("seq_entry_point_warehouse");
            if (warehouse_keys.emplace(key, 1).second) ++warehouse_seqs_distinct;
            // the Warehouse dies here: the node must not depend on its storage (ASan would see it later)
         }
         node = res; asnode = res; expect_cat = prod ? Category_code::Product : Category_code::Sum;
         const Sequence<Type>& els = prod ? static_cast<const Product*>(res)->elements() : static_cast<const Sum*>(res)->elements();
         if (els.size() != r.seq.size()) bad_operand(r);
         else { std::size_t i = 0; for (auto& t : els) { if (&t != r.seq[i]) { bad_operand(r); break; } ++i; } }
         break;
      }
      case FORALL: { auto& n = lex.get_forall(static_cast<const Product&>(*r.t1), *r.t2); put(key, r.t1); put(key, r.t2); node = static_cast<const Type*>(&n); asnode = &n; expect_cat = Category_code::Forall;
                  if (&n.source() != r.t1 || &n.target() != r.t2) bad_operand(r); break; }
      case PTM: { auto& n = lex.get_ptr_to_member(*r.t1, *r.t2); put(key, r.t1); put(key, r.t2); node = static_cast<const Type*>(&n); asnode = &n; expect_cat = Category_code::Ptr_to_member;
                  if (&n.containing_type() != r.t1 || &n.member_type() != r.t2) bad_operand(r); break; }
      case TOR: { auto& n = lex.get_tor(static_cast<const Product&>(*r.t1), static_cast<const Sum&>(*r.t2)); put(key, r.t1); put(key, r.t2); node = static_cast<const Type*>(&n); asnode = &n; expect_cat = Category_code::Tor;
                  if (&n.source() != r.t1 || &n.throws() != r.t2) bad_operand(r); break; }
      case ASTYPE: {
         const As_type* n = nullptr;
         if (!r.has_xfer) n = &lex.get_as_type(*r.e);
         else n = &lex.get_as_type(*r.e, spell_transfer(r, variant));
         if (!r.has_xfer && natural && (variant & 2)) n = &lex.get_as_type(*r.e, impl::cxx_transfer());
         put(key, r.e);
         if (natural) { puts(key, "C++"); puts(key, ""); } else { puts(key, r.link); puts(key, r.cc); }
         node = static_cast<const Type*>(n); asnode = n; expect_cat = Category_code::As_type;
         if (&n->expr() != r.e) bad_operand(r);
         if (!xfer_is(n->transfer(), natural ? "C++" : r.link, natural ? "" : r.cc)) bad_operand(r);
         if (!natural && with_transfer.size() < 200) with_transfer.emplace_back(static_cast<const Expr*>(n), r.link, r.cc);
         break;
      }
      case ASTYPE_ID: {
         auto& id = (variant & 1) ? lex.get_identifier(lex.get_string(u8v(r.id))) : lex.get_identifier(u8v(r.id));
         auto& n = lex.get_as_type(id);
         puts(key, r.id); node = static_cast<const Type*>(&n); asnode = &n; expect_cat = Category_code::As_type;
         for (auto& [bn, bt] : builtin_by_name)
            if (bn == r.id && bt != &n)
               ctx().viol("as_type(identifier):builtin-lookalike", "get_as_type(get_identifier(\"" + r.id + "\")) is not the built-in type of that name", describe(r));
         if (&n.name() != &id) bad_operand(r);
         break;
      }
      case XFER: {
         auto& l = (variant & 1) ? lex.get_linkage(lex.get_string(u8v(r.link))) : lex.get_linkage(u8v(r.link));
         auto& n = lex.get_transfer(l, lex.get_calling_convention(u8v(r.cc)));
         puts(key, r.link); puts(key, r.cc); node = &n;
         if (!xfer_is(n, r.link, r.cc)) bad_operand(r);
         break;
      }
      case XFER_LINK: { auto& n = lex.get_transfer_from_linkage(lex.get_linkage(u8v(r.link))); puts(key, r.link); node = &n; if (!xfer_is(n, r.link, "")) bad_operand(r); break; }
      case XFER_CC: { auto& n = lex.get_transfer_from_convention(lex.get_calling_convention(u8v(r.cc))); puts(key, r.cc); node = &n; if (!xfer_is(n, "C++", r.cc)) bad_operand(r); break; }
      }
      if (asnode && asnode->category != expect_cat)
         ctx().viol(std::string(ctor_name[r.ctor]) + ":category", "returned node has the wrong category code", describe(r));
      // -- the model ------------------------------------------------------------------
      auto& F = fwd[r.ctor]; auto& R = rev[r.ctor];
      auto it = F.find(key);
      if (it == F.end()) {
         auto rit = R.find(node);
         if (rit != R.end())
            ctx().viol(std::string(ctor_name[r.ctor]) + ":wrongly-shared", "a request with new arguments returned the node of different arguments", describe(r));
         else { F.emplace(key, node); R.emplace(node, key); }
         if (r.ctor == FN) ++sub[natural ? "functions" : "fun_xfers"];
         if (r.ctor == ASTYPE) ++sub[natural ? "type_refs" : "type_xfers"];
         if (r.ctor == ASTYPE_ID) { bool bi = false; for (auto& [bn, bt] : builtin_by_name) { (void)bt; if (bn == r.id) bi = true; } if (!bi) ++sub["extendeds"]; }
         ctx().count(std::string("distinct_keys:") + ctor_name[r.ctor]);
      } else {
         ctx().count(std::string("re_requests:") + ctor_name[r.ctor]);
         long long dist = nreq - last_seen[r.ctor][key];
         ctx().maxi("max_re_request_distance", dist);
         ctx().count(dist < 10 ? "re_request_distance:<10" : dist < 1000 ? "re_request_distance:<1000" : dist < 100000 ? "re_request_distance:<100000" : "re_request_distance:>=100000");
         if (it->second != node)
            ctx().viol(std::string(ctor_name[r.ctor]) + ":not-shared", "the same arguments returned a different node than before", describe(r));
      }
      last_seen[r.ctor][key] = nreq;
      ctx().eval(hash_bytes(key, r.ctor + 1), true);
      // feed pools
      if (asnode) {
         auto t = static_cast<const Type*>(node);
         if (r.ctor == PROD) { if (products.size() < 400) products.push_back(static_cast<const Product*>(t)); }
         else if (r.ctor == SUM) { if (sums.size() < 200) sums.push_back(static_cast<const Sum*>(t)); }
         if (it == F.end() && types.size() < 3000 && rng.chance(60)) types.push_back(t);
      }
      return node;
   }

   static std::string words(util::word_view w) { return std::string(reinterpret_cast<const char*>(w.data()), w.size()); }
   bool xfer_is(const Transfer& x, const std::string& link, const std::string& cc)
   {
      return words(x.linkage().language().what().characters()) == link && words(x.convention().name().what().characters()) == cc;
   }
   void bad_operand(const Req& r)
   {
      ctx().viol(std::string(ctor_name[r.ctor]) + ":operands", "returned node does not report the arguments it was requested with", describe(r));
   }
   std::string describe(const Req& r)
   {
      return J().s("ctor", ctor_name[r.ctor]).n("request_no", nreq).u("bits", r.bits).n("seq_len", (long long)r.seq.size())
         .s("link", r.link).s("cc", r.cc).b("has_xfer", r.has_xfer).b("has_throws", r.e != nullptr).s("id", r.id).str();
   }

   // -- live-table invariants through the hook -----------------------------------------
   template<class T, class Cmp>
   void table(const char* name, const util::rb_tree::container<T>& t, Cmp cmp, long long expect)
   {
      long long sz = 0; int h = 0;
      std::string e = check_table(t, cmp, &sz, &h);
      ctx().count("table_validations");
      ctx().maxi(std::string("table_size:") + name, sz);
      ctx().maxi(std::string("table_height:") + name, h);
      if (!e.empty()) ctx().viol(std::string("table:") + name + ":" + e.substr(0, 48), std::string("live table ") + name + ": " + e);
      if (expect >= 0 && sz != expect)
         ctx().viol(std::string("table:") + name + ":conservation", std::string("live table ") + name + " holds " + std::to_string(sz) + " nodes but " + std::to_string(expect) + " distinct keys were requested");
   }
   template<class S> static int cmp_seq(const S& a, const S& b)
   {
      auto i = a.begin(), ie = a.end(); auto j = b.begin(), je = b.end();
      for (; i != ie && j != je; ++i, ++j) if (int c = cmp_addr(&*i, &*j)) return c;
      return i == ie ? (j == je ? 0 : -1) : 1;
   }
   static int cmp_xfer(const Transfer& a, const Transfer& b)
   {
      if (int c = cmp_words(a.linkage().language().what().characters(), b.linkage().language().what().characters())) return c;
      return cmp_words(a.convention().name().what().characters(), b.convention().name().what().characters());
   }
   void quiescent()
   {
      const impl::type_factory& tf = lex;
      auto un = [](auto& a, auto& b) { return cmp_addr(&a.operand(), &b.operand()); };
      auto bin = [](auto& a, auto& b) { if (int c = cmp_addr(&a.first(), &b.first())) return c; return cmp_addr(&a.second(), &b.second()); };
      table("pointers", Inspector::pointers(tf), un, (long long)fwd[PTR].size());
      table("references", Inspector::references(tf), un, (long long)fwd[REF].size());
      table("refrefs", Inspector::refrefs(tf), un, (long long)fwd[RREF].size());
      table("arrays", Inspector::arrays(tf), bin, (long long)fwd[ARRAY].size());
      table("qualifieds", Inspector::qualifieds(tf), [](auto& a, auto& b) {
         auto x = std::uintptr_t(a.first()), y = std::uintptr_t(b.first());
         if (x != y) return x < y ? -1 : 1;
         return cmp_addr(&a.second(), &b.second()); }, (long long)fwd[QUAL].size());
      auto tern = [](auto& a, auto& b) { if (int c = cmp_addr(&a.first(), &b.first())) return c; if (int c = cmp_addr(&a.second(), &b.second())) return c; return cmp_addr(&a.third(), &b.third()); };
      table("functions", Inspector::functions(tf), tern, sub["functions"]);
      table("fun_xfers", Inspector::fun_xfers(tf), [&](auto& a, auto& b) { if (int c = tern(a, b)) return c; return cmp_xfer(a.transfer(), b.transfer()); }, sub["fun_xfers"]);
      table("products", Inspector::products(tf), [](auto& a, auto& b) { return cmp_seq(a.operand(), b.operand()); }, (long long)fwd[PROD].size());
      table("sums", Inspector::sums(tf), [](auto& a, auto& b) { return cmp_seq(a.operand(), b.operand()); }, (long long)fwd[SUM].size());
      table("type_seqs", Inspector::type_seqs(tf), [](auto& a, auto& b) { return cmp_seq(a, b); }, warehouse_seqs_distinct);
      table("foralls", Inspector::foralls(tf), bin, (long long)fwd[FORALL].size());
      table("member_ptrs", Inspector::member_ptrs(tf), bin, (long long)fwd[PTM].size());
      table("tors", Inspector::tors(tf), bin, (long long)fwd[TOR].size());
      table("type_refs", Inspector::type_refs(tf), un, sub["type_refs"]);
      table("type_xfers", Inspector::type_xfers(tf), [](auto& a, auto& b) { if (int c = cmp_addr(&a.operand(), &b.operand())) return c; return cmp_xfer(a.transfer(), b.transfer()); }, sub["type_xfers"]);
      table("extendeds", Inspector::extendeds(tf), [](auto& a, auto& b) { return cmp_addr(&a.name(), &b.name()); }, sub["extendeds"]);
      table("xfer_links", Inspector::xfer_links(tf), [](auto& a, auto& b) { return cmp_xfer(a, b); }, -1);
      table("xfer_ccs", Inspector::xfer_ccs(tf), [](auto& a, auto& b) { return cmp_xfer(a, b); }, -1);
      table("xfers", Inspector::xfers(tf), [](auto& a, auto& b) { return cmp_xfer(a, b); }, -1);
   }
};

static void random_history(std::uint64_t seed, long long nrequests, int hist_no)
{
   Harness H(seed);
   H.types_as_expressions();
   H.declarations_as_expressions();
   for (long long i = 0; i < nrequests; ++i) {
      if (!H.history.empty() && H.rng.chance(40)) {
         // re-request an earlier key, uniformly chosen, possibly through an equivalent spelling
         Req r = H.history[H.rng.below(H.history.size())];
         H.execute(r, int(H.rng.below(64)));
      } else {
         Req r = H.fresh();
         H.execute(r, int(H.rng.below(64)));
         H.history.push_back(r);
      }
      if ((i + 1) % 4096 == 0) H.quiescent();
   }
   H.quiescent();
   if (hist_no == 0) {
      auto& r = H.history[H.history.size() / 2];
      ctx().sample(J().s("kind", "random-history").n("requests", nrequests).raw("a_request", H.describe(r)).n("distinct_keys_pointer", (long long)H.fwd[PTR].size()).str());
   }
}

// Structured histories: the same set of keys requested in orders that are adversarial for an
// address-ordered tree (ascending / descending / organ-pipe by operand address), then all again reversed,
// and one key repeated between all others.
static void structured_history(std::uint64_t seed, long long nkeys, const char* order)
{
   Harness H(seed);
   H.types_as_expressions();
   H.declarations_as_expressions();
   std::vector<Req> reqs;
   for (long long i = 0; i < nkeys; ++i) { Req r = H.fresh(); if (r.ctor == PROD || r.ctor == SUM || r.ctor == FN || r.ctor == TOR || r.ctor == FORALL) { r = Req{}; r.ctor = PTR; r.t1 = &H.pick_type(); } H.execute(r, 0); reqs.push_back(r); }
   // now build a fresh layer of keys over the pool, in controlled operand-address order
   std::vector<const Type*> ops(H.types.begin(), H.types.end());
   std::sort(ops.begin(), ops.end(), [](auto a, auto b) { return std::less<const void*>()(a, b); });
   ops.erase(std::unique(ops.begin(), ops.end()), ops.end());
   std::vector<const Type*> seq;
   std::string o = order;
   if (o == "ascending") seq = ops;
   else if (o == "descending") seq.assign(ops.rbegin(), ops.rend());
   else { for (std::size_t i = 0; i < ops.size(); ++i) seq.push_back(i % 2 ? ops[ops.size() - 1 - i / 2] : ops[i / 2]); }
   const Type& pinned = *ops[ops.size() / 2];
   for (int pass = 0; pass < 2; ++pass) {
      for (auto t : seq) {
         for (int c : { PTR, REF, RREF, PTM }) { Req r; r.ctor = c; r.t1 = t; r.t2 = &pinned; H.execute(r, 0); }
         Req q; q.ctor = QUAL; q.bits = 1; q.t1 = t; H.execute(q, 0);
         Req p; p.ctor = PTR; p.t1 = &pinned; H.execute(p, 0);      // one key repeated between every other request
      }
      std::reverse(seq.begin(), seq.end());
      H.quiescent();
   }
   ctx().count(std::string("structured_histories:") + order);
   ctx().sample(J().s("kind", "structured-history").s("operand_address_order", order).n("operands", (long long)ops.size()).str(), 6);
}

static void body(Ctx& C)
{
   C.rule("a case = one type-constructor request (constructor, canonical key of its arguments); distinct cases = distinct "
          "(constructor,key) pairs; requests are drawn at random over 16 constructors with operands from a growing pool "
          "(26 built-ins, auto, class/union/enum/namespace/closure, decltype, every earlier result), 40% of requests re-ask a "
          "uniformly chosen earlier key through a randomly chosen equivalent spelling (overload, explicit natural transfer, "
          "explicit default noexcept, Warehouse vs Sequence entry point); every answer is checked against a key->node model; "
          "live tables are validated (red-black shape, key order, size == distinct keys) every 4096 requests");
   C.assume("node identity (address) is the observable; keys use addresses for equality only");
   C.assume("get_product/get_sum(const Sequence&) are given sequences owned by the Lexicon, or - only for a product/sum that already exists - one client-owned sequence object refilled for every such request");
   for (int c = 0; c < NCTOR; ++c) { C.need(std::string("distinct_keys:") + ctor_name[c]); C.need(std::string("re_requests:") + ctor_name[c]); }
   C.need("seq_entry_point_sequence"); C.need("seq_entry_point_client_scratch_sequence"); C.need("types_offered_as_expression_operands"); C.need("redeclarations_offered_as_expression_operands"); C.need("seq_entry_point_warehouse"); C.need("table_validations"); C.need("successive_lexicons_in_one_slot"); C.need("as_type_over_an_as_type_with_transfer"); C.need("mirror_requests");
   for (int i = 0; i < 4; ++i) C.need(std::string("fn_overload_") + std::to_string(i));

   const int histories = C.thorough ? 12 : 3;
   const long long nreq = C.thorough ? 150000 : 6000;
   Rng seeds(C.seed);
   for (int h = 0; h < histories; ++h) random_history(seeds.next(), nreq, h);
   const char* orders[] = {"ascending", "descending", "organ-pipe"};
   structured_history(seeds.next(), C.thorough ? 20000 : 1500, orders[C.worker % 3]);
   if (C.thorough) for (auto o : orders) structured_history(seeds.next(), 60000, o);
   // Lexicons that follow one another in ONE storage slot on this thread; each opens and closes with the same requests over
   // process-wide operands, so that every constructor's first request of a new Lexicon equals its last request of the previous
   // one: the answer must come from the new Lexicon's own table (same node when asked again) and be a live node
   {
      std::optional<impl::Lexicon> slot;
      long long made = 0;
      for (int round = 0; round < (C.thorough ? 200 : 24); ++round) {
         slot.emplace();
         auto rep = [&](const std::string& k, const std::string& m) { C.viol(k, m + " (Lexicon number " + std::to_string(round + 1) + " in one storage slot)"); };
         made += mirror_requests(*slot, rep);
         Rng r(seeds.next());
         for (int k = 0; k < 40; ++k) { auto& t = k % 2 ? static_cast<const Lexicon&>(*slot).long_type() : static_cast<const Lexicon&>(*slot).double_type(); slot->get_pointer(slot->get_reference(t)); slot->get_qualified(Qualifiers(1 + r.below(7)), t); }
         made += mirror_requests(*slot, rep);
         C.count("successive_lexicons_in_one_slot"); C.eval(hash_mix(0x51077, std::uint64_t(round)));
      }
      C.count("mirror_requests", made);
   }
}

int main(int argc, char** argv) { return guarded_main(argc, argv, body); }
