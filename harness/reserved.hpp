// The 56 reserved words of the library (src/impl.cxx known_words) and the built-in type spellings,
// committed as the oracle table for C03/C04/C10/C13.
#ifndef VERIF_RESERVED_HPP
#define VERIF_RESERVED_HPP
#include <string_view>
#include <string>
namespace vh {
inline constexpr std::u8string_view reserved_words[] = {
   u8"...", u8"=0", u8"C", u8"C++", u8"auto", u8"bool", u8"char", u8"char16_t", u8"char32_t", u8"char8_t", u8"class",
   u8"const", u8"consteval", u8"constexpr", u8"constinit", u8"default", u8"delete", u8"double", u8"enum", u8"explicit",
   u8"export", u8"extern", u8"false", u8"float", u8"friend", u8"inline", u8"int", u8"long", u8"long double", u8"long long",
   u8"mutable", u8"namespace", u8"nullptr", u8"private", u8"protected", u8"public", u8"register", u8"restrict", u8"short",
   u8"signed char", u8"static", u8"this", u8"thread_local", u8"true", u8"typedef", u8"typename", u8"union",
   u8"unsigned char", u8"unsigned int", u8"unsigned long", u8"unsigned long long", u8"unsigned short", u8"virtual",
   u8"void", u8"volatile", u8"wchar_t",
};
inline constexpr std::u8string_view basic_specifier_words[] = {
   u8"=0", u8"export", u8"public", u8"protected", u8"private", u8"consteval", u8"constexpr", u8"constinit", u8"explicit",
   u8"extern", u8"friend", u8"inline", u8"mutable", u8"register", u8"static", u8"thread_local", u8"typedef", u8"virtual",
};
inline constexpr std::u8string_view basic_qualifier_words[] = { u8"const", u8"volatile", u8"restrict" };
inline std::string narrow(std::u8string_view w) { return std::string(reinterpret_cast<const char*>(w.data()), w.size()); }
inline std::u8string_view widen(const std::string& s) { return { reinterpret_cast<const char8_t*>(s.data()), s.size() }; }
}
#endif
