// Construction programs: data describing how to build an IPR graph, so that the same graph can be built in several
// Lexicons (different addresses, different step order, unrelated allocations in between), serialised, and printed.
// A program is a list of steps; operands name the results of earlier steps.  Steps that mutate a container (add a
// statement to a block, declare into a scope, add a parameter ...) additionally depend on the previous mutation of the
// same container, so any topological re-ordering builds an isomorphic graph.
// Shared by C17, C18, C19, C20, C05.
#ifndef VERIF_PROGS_HPP
#define VERIF_PROGS_HPP
#include "common.hpp"
#include "reserved.hpp"
#include <ipr/impl>
#include <ipr/io>
#include <deque>
#include <set>
#include <functional>

namespace vh {
using namespace ipr;

enum Op : std::uint8_t {
   N_IDENT, N_OPERATOR, N_CONVERSION, N_CTOR, N_DTOR, N_SUFFIX, N_TEMPLATE_ID, N_TYPE_ID,
   T_BUILTIN, T_POINTER, T_REFERENCE, T_RVREF, T_ARRAY, T_QUALIFIED, T_PRODUCT, T_FUNCTION, T_FUNCTION_THROWS, T_PTR_TO_MEMBER, T_FORALL,
   T_CLASS, T_UNION, T_ENUM, T_NAMESPACE, T_AS_TYPE, T_DECLTYPE, T_AUTO, T_SUM,
   X_LITERAL, X_ID_EXPR, X_ID_DECL, X_SYMBOL, X_UNARY, X_BINARY, X_CONDITIONAL, X_XLIST, X_CALL, X_CAST, X_ENCLOSURE, X_CONSTRUCTION, X_MEMBER_INIT, X_NEW,
   X_PHANTOM, X_UNSUPPORTED,
   S_EXPR, S_BLOCK, S_ADD, S_HANDLER, S_HADD, S_IF, S_IF_ELSE, S_WHILE, S_DO, S_SWITCH, S_FOR, S_FOR_IN, S_RETURN, S_BREAK, S_CONTINUE, S_GOTO, S_LABELED, S_CTOR_BODY,
   D_VAR, D_FIELD, D_BITFIELD, D_ALIAS, D_TYPEDECL, D_FUNDECL, D_TEMPLATE, D_ENUMERATOR, D_BASE,
   M_MAPPING, M_PARAM, M_BODY,
   L_LOCATE, R_SUBREGION, NOISE,
   OP_COUNT
};
inline const char* op_name(int o)
{
   static const char* n[] = { "ident", "operator", "conversion", "ctor", "dtor", "suffix", "template-id", "type-id",
      "builtin", "pointer", "reference", "rvref", "array", "qualified", "product", "function", "function-throws", "ptr-to-member", "forall",
      "class", "union", "enum", "namespace", "as-type", "decltype", "auto", "sum",
      "literal", "id-expr", "id-decl", "symbol", "unary", "binary", "conditional", "xlist", "call", "cast", "enclosure", "construction", "member-init", "new",
      "phantom", "unsupported",
      "expr-stmt", "block", "add-stmt", "handler", "handler-add", "if", "if-else", "while", "do", "switch", "for", "for-in", "return", "break", "continue", "goto", "labeled", "ctor-body",
      "var", "field", "bitfield", "alias", "typedecl", "fundecl", "template", "enumerator", "base",
      "mapping", "param", "mapping-body", "locate", "subregion", "noise" };
   return o >= 0 && o < OP_COUNT ? n[o] : "?";
}

struct Step {
   Op op;
   int a = -1, b = -1, c = -1, d = -1, e = -1;   // operand steps (-1: absent)
   int after = -1;                               // ordering dependency: previous mutation of the same container
   std::vector<int> list;                        // operand list (products, expression lists)
   std::string str;                              // spelling
   long long num = 0, num2 = 0, num3 = 0;        // enumerator / qualifier bits / location
};

struct Prog {
   std::vector<Step> steps;
   std::vector<int> top;          // steps whose results are printed as top-level items (besides the unit itself)
   std::string describe(std::size_t limit = 40) const
   {
      std::string s;
      for (std::size_t i = 0; i < steps.size() && i < limit; ++i) {
         auto& st = steps[i];
         s += std::to_string(i) + ":" + op_name(st.op);
         if (st.a >= 0) s += "(" + std::to_string(st.a) + (st.b >= 0 ? "," + std::to_string(st.b) : "") + (st.c >= 0 ? "," + std::to_string(st.c) : "") + ")";
         s += " ";
      }
      if (steps.size() > limit) s += "... (" + std::to_string(steps.size()) + " steps)";
      return s;
   }
};

// --- unary / binary / cast tables ------------------------------------------------------------------------------
using UnaryFn = const Expr* (*)(impl::Lexicon&, const Expr&);
using BinaryFn = const Expr* (*)(impl::Lexicon&, const Expr&, const Expr&);
using CastFn = const Expr* (*)(impl::Lexicon&, const Type&, const Expr&);
#define VH_UF(fn) [](impl::Lexicon& l, const Expr& e) -> const Expr* { return l.fn(e); }
#define VH_BF(fn) [](impl::Lexicon& l, const Expr& a, const Expr& b) -> const Expr* { return l.fn(a, b); }
#define VH_CF(fn) [](impl::Lexicon& l, const Type& t, const Expr& e) -> const Expr* { return l.fn(t, e); }
inline const UnaryFn unary_table[] = { VH_UF(make_address), VH_UF(make_complement), VH_UF(make_deref), VH_UF(make_sizeof), VH_UF(make_args_cardinality), VH_UF(make_typeid),
   VH_UF(make_not), VH_UF(make_post_increment), VH_UF(make_post_decrement), VH_UF(make_pre_increment), VH_UF(make_pre_decrement), VH_UF(make_throw),
   VH_UF(make_unary_minus), VH_UF(make_unary_plus), VH_UF(make_noexcept), VH_UF(make_delete), VH_UF(make_array_delete) };
inline constexpr int n_unary = sizeof unary_table / sizeof unary_table[0];
inline const BinaryFn binary_table[] = { VH_BF(make_and), VH_BF(make_assign), VH_BF(make_bitand), VH_BF(make_bitand_assign), VH_BF(make_bitor), VH_BF(make_bitor_assign),
   VH_BF(make_bitxor), VH_BF(make_bitxor_assign), VH_BF(make_comma), VH_BF(make_div), VH_BF(make_div_assign), VH_BF(make_equal), VH_BF(make_greater), VH_BF(make_greater_equal),
   VH_BF(make_less), VH_BF(make_less_equal), VH_BF(make_lshift), VH_BF(make_lshift_assign), VH_BF(make_minus), VH_BF(make_minus_assign), VH_BF(make_modulo), VH_BF(make_modulo_assign),
   VH_BF(make_mul), VH_BF(make_mul_assign), VH_BF(make_not_equal), VH_BF(make_or), VH_BF(make_plus), VH_BF(make_plus_assign), VH_BF(make_rshift), VH_BF(make_rshift_assign),
   VH_BF(make_array_ref), VH_BF(make_arrow), VH_BF(make_arrow_star), VH_BF(make_dot), VH_BF(make_dot_star), VH_BF(make_scope_ref) };
inline constexpr int n_binary = sizeof binary_table / sizeof binary_table[0];
inline const CastFn cast_table[] = { VH_CF(make_cast), VH_CF(make_const_cast), VH_CF(make_dynamic_cast), VH_CF(make_reinterpret_cast), VH_CF(make_static_cast) };
inline constexpr int n_cast = 5;
// expression kinds no printer level handles (they must be refused with logic_error, identically everywhere)
inline const UnaryFn unsupported_table[] = {
   [](impl::Lexicon& l, const Expr& e) -> const Expr* { return l.make_demotion(e, static_cast<const Lexicon&>(l).int_type()); },
   [](impl::Lexicon& l, const Expr& e) -> const Expr* { return l.make_promotion(e, static_cast<const Lexicon&>(l).long_type()); },
   [](impl::Lexicon& l, const Expr& e) -> const Expr* { return l.make_read(e, static_cast<const Lexicon&>(l).int_type()); },
   VH_UF(make_alignof), VH_UF(make_expansion), VH_UF(make_restriction) };
inline constexpr int n_unsupported = sizeof unsupported_table / sizeof unsupported_table[0];
#undef VH_UF
#undef VH_BF
#undef VH_CF

// --- interpreter -------------------------------------------------------------------------------------------------
struct Val {
   const Expr* e = nullptr;          // the result as an expression (types, statements and declarations included)
   const Name* n = nullptr;
   const Type* t = nullptr;
   impl::Region* region = nullptr;   // where members of this entity go (udts, blocks, sub-regions)
   void* impl = nullptr;             // the implementation object, for later mutation
   bool is_stmt = false, is_decl = false;
};

struct Exec {
   impl::Lexicon& lex;
   impl::Translation_unit& unit;
   std::vector<Val> vals;
   std::vector<char> done;
   std::deque<impl::Warehouse<Type>> warehouses;     // kept alive: get_product copies, but be safe
   long long executed = 0;
   std::function<void(int)> between;                 // called between steps (noise injection)

   Exec(impl::Lexicon& l, impl::Translation_unit& u) : lex(l), unit(u) { }

   impl::Region& region_of(int i) { return i < 0 ? *unit.global_region() : *vals[std::size_t(i)].region; }
   impl::Scope& scope_of(int i) { return region_of(i).scope; }
   const Expr& X(int i) { return *util::check(vals[std::size_t(i)].e); }
   const Type& T(int i) { return *util::check(vals[std::size_t(i)].t); }
   const Name& N(int i) { return *util::check(vals[std::size_t(i)].n); }

   template<class S> void locate(S* s, const Step& st)
   {
      s->src_locus.file = File_index(std::uint32_t(st.num)); s->src_locus.line = Line_number(std::uint32_t(st.num2)); s->src_locus.column = Column_number(std::uint32_t(st.num3));
   }

   void run_step(const Prog& p, int i)
   {
      const Step& st = p.steps[std::size_t(i)];
      const Lexicon& L = lex;
      Val v;
      auto as_type = [&](const Type& t) { v.t = &t; v.e = &t; };
      auto as_stmt = [&](auto* s) { v.e = s; v.impl = s; v.is_stmt = true; };
      auto as_decl = [&](auto* d) { v.e = d; v.impl = d; v.is_stmt = true; v.is_decl = true; };
      switch (st.op) {
      case N_IDENT: v.n = &lex.get_identifier(widen(st.str)); break;
      case N_OPERATOR: v.n = &lex.get_operator(widen(st.str)); break;
      case N_CONVERSION: v.n = &lex.get_conversion(T(st.a)); break;
      case N_CTOR: v.n = &lex.get_ctor_name(T(st.a)); break;
      case N_DTOR: v.n = &lex.get_dtor_name(T(st.a)); break;
      case N_SUFFIX: v.n = &lex.get_suffix(*static_cast<const Identifier*>(&N(st.a))); break;
      case N_TEMPLATE_ID: v.n = &lex.get_template_id(X(st.a), *static_cast<const Expr_list*>(&X(st.b))); break;
      case N_TYPE_ID: v.n = &T(st.a).name(); break;         // a compound type names itself by its type-id
      case T_BUILTIN: {
         const Type* b[] = { &L.void_type(), &L.bool_type(), &L.char_type(), &L.int_type(), &L.uint_type(), &L.long_type(), &L.double_type(), &L.float_type(), &L.short_type(),
                             &L.wchar_t_type(), &L.long_long_type(), &L.uchar_type(), &L.typename_type(), &L.class_type(), &L.ellipsis_type() };
         as_type(*b[std::size_t(st.num) % 15]); break; }
      case T_POINTER: as_type(lex.get_pointer(T(st.a))); break;
      case T_REFERENCE: as_type(lex.get_reference(T(st.a))); break;
      case T_RVREF: as_type(lex.get_rvalue_reference(T(st.a))); break;
      case T_ARRAY: as_type(lex.get_array(T(st.a), X(st.b))); break;
      case T_QUALIFIED: as_type(lex.get_qualified(Qualifiers(std::uintptr_t(st.num)), T(st.a))); break;
      case T_PRODUCT: { warehouses.emplace_back(); auto& w = warehouses.back(); for (int k : st.list) w.push_back(T(k)); as_type(lex.get_product(w)); break; }
      case T_SUM: { warehouses.emplace_back(); auto& w = warehouses.back(); for (int k : st.list) w.push_back(T(k)); as_type(lex.get_sum(w)); break; }
      case T_FUNCTION: as_type(lex.get_function(static_cast<const Product&>(T(st.a)), T(st.b))); break;
      case T_FUNCTION_THROWS: as_type(lex.get_function(static_cast<const Product&>(T(st.a)), T(st.b), X(st.c))); break;
      case T_PTR_TO_MEMBER: as_type(lex.get_ptr_to_member(T(st.a), T(st.b))); break;
      case T_FORALL: as_type(lex.get_forall(static_cast<const Product&>(T(st.a)), T(st.b))); break;
      case T_CLASS: { auto* u = lex.make_class(region_of(st.a)); if (st.b >= 0) u->id = &N(st.b); as_type(*u); v.region = &u->body; v.impl = u; break; }
      case T_UNION: { auto* u = lex.make_union(region_of(st.a)); if (st.b >= 0) u->id = &N(st.b); as_type(*u); v.region = &u->body; v.impl = u; break; }
      case T_NAMESPACE: { auto* u = lex.make_namespace(region_of(st.a)); if (st.b >= 0) u->id = &N(st.b); as_type(*u); v.region = &u->body; v.impl = u; break; }
      case T_ENUM: { auto* u = lex.make_enum(region_of(st.a), st.num ? Enum::Kind::Scoped : Enum::Kind::Legacy); if (st.b >= 0) u->id = &N(st.b); as_type(*u); v.impl = u; break; }
      case T_AS_TYPE: as_type(lex.get_as_type(X(st.a))); break;
      case T_DECLTYPE: as_type(lex.get_decltype(X(st.a))); break;
      case T_AUTO: as_type(lex.get_auto()); break;
      case X_LITERAL: v.e = lex.make_literal(T(st.a), widen(st.str)); break;
      case X_ID_EXPR: v.e = lex.make_id_expr(N(st.a), st.b >= 0 ? Optional<Type>(&T(st.b)) : Optional<Type>()); break;
      case X_ID_DECL: v.e = lex.make_id_expr(*util::check(dynamic_cast<const Decl*>(&X(st.a)))); break;
      case X_SYMBOL: v.e = &lex.get_symbol(N(st.a), T(st.b)); break;
      case X_UNARY: v.e = unary_table[std::size_t(st.num) % n_unary](lex, X(st.a)); break;
      case X_BINARY: v.e = binary_table[std::size_t(st.num) % n_binary](lex, X(st.a), X(st.b)); break;
      case X_CONDITIONAL: v.e = lex.make_conditional(X(st.a), X(st.b), X(st.c)); break;
      case X_XLIST: { auto* l = lex.make_expr_list(); for (int k : st.list) l->push_back(&X(k)); v.e = l; v.impl = l; break; }
      case X_CALL: v.e = lex.make_call(X(st.a), *static_cast<const Expr_list*>(&X(st.b))); break;
      case X_CAST: v.e = cast_table[std::size_t(st.num) % n_cast](lex, T(st.a), X(st.b)); break;
      case X_ENCLOSURE: v.e = lex.make_enclosure(Delimiter(int(st.num)), X(st.a)); break;
      case X_CONSTRUCTION: v.e = lex.make_construction(T(st.a), *static_cast<const Enclosure*>(&X(st.b))); break;
      case X_MEMBER_INIT: v.e = lex.make_member_init(X(st.a), X(st.b)); break;
      case X_NEW: v.e = lex.make_new(st.b >= 0 ? Optional<Expr_list>(static_cast<const Expr_list*>(&X(st.b))) : Optional<Expr_list>(), *static_cast<const Construction*>(&X(st.a))); break;
      case X_PHANTOM: v.e = lex.make_phantom(); break;
      case X_UNSUPPORTED: v.e = unsupported_table[std::size_t(st.num) % n_unsupported](lex, X(st.a)); break;
      case S_EXPR: as_stmt(lex.make_expr_stmt(X(st.a))); break;
      case S_BLOCK: { auto* b = lex.make_block(region_of(st.a)); as_stmt(b); v.region = &b->lexical_region; break; }
      case S_ADD: { auto* b = static_cast<impl::Block*>(vals[std::size_t(st.a)].impl); b->add_stmt(X(st.b)); v = vals[std::size_t(st.a)]; break; }
      case S_HANDLER: { auto* b = static_cast<impl::Block*>(vals[std::size_t(st.a)].impl); auto* h = b->new_handler(N(st.b), T(st.c)); as_stmt(h); v.region = &h->body().lexical_region; break; }
      case S_HADD: { auto* h = static_cast<impl::Handler*>(vals[std::size_t(st.a)].impl); h->body().add_stmt(X(st.b)); v = vals[std::size_t(st.a)]; break; }
      case S_IF: as_stmt(lex.make_if(X(st.a), X(st.b))); break;
      case S_IF_ELSE: as_stmt(lex.make_if(X(st.a), X(st.b), X(st.c))); break;
      case S_WHILE: { auto* s = lex.make_while(); s->control = &X(st.a); s->stmt = &X(st.b); as_stmt(s); break; }
      case S_DO: { auto* s = lex.make_do(); s->control = &X(st.a); s->stmt = &X(st.b); as_stmt(s); break; }
      case S_SWITCH: { auto* s = lex.make_switch(); s->control = &X(st.a); s->stmt = &X(st.b); as_stmt(s); break; }
      case S_FOR: { auto* s = lex.make_for(); s->init = &X(st.a); s->cond = &X(st.b); s->inc = &X(st.c); s->stmt = static_cast<const ipr::Stmt*>(&X(st.d)); as_stmt(s); break; }
      case S_FOR_IN: { auto* s = lex.make_for_in(); s->var = static_cast<const Var*>(&X(st.a)); s->seq = &X(st.b); s->stmt = static_cast<const ipr::Stmt*>(&X(st.c)); as_stmt(s); break; }
      case S_RETURN: as_stmt(lex.make_return(X(st.a))); break;
      case S_BREAK: as_stmt(lex.make_break()); break;
      case S_CONTINUE: as_stmt(lex.make_continue()); break;
      case S_GOTO: as_stmt(lex.make_goto(X(st.a))); break;
      case S_LABELED: as_stmt(lex.make_labeled_stmt(X(st.a), X(st.b))); break;
      case S_CTOR_BODY: as_stmt(lex.make_ctor_body(*static_cast<const Expr_list*>(&X(st.a)), *static_cast<const Block*>(&X(st.b)))); break;
      case D_VAR: { auto* d = scope_of(st.a).make_var(N(st.b), T(st.c)); if (st.d >= 0) d->init = &X(st.d); d->specifiers(Specifiers(std::uintptr_t(st.num))); as_decl(d); break; }
      case D_FIELD: { auto* d = scope_of(st.a).make_field(N(st.b), T(st.c)); if (st.d >= 0) d->init = &X(st.d); d->specifiers(Specifiers(std::uintptr_t(st.num))); as_decl(d); break; }
      case D_BITFIELD: { auto* d = scope_of(st.a).make_bitfield(N(st.b), T(st.c)); d->length = &X(st.d); as_decl(d); break; }
      case D_ALIAS: { auto* d = scope_of(st.a).make_alias(N(st.b), X(st.c)); as_decl(d); break; }
      case D_TYPEDECL: { auto* d = scope_of(st.a).make_typedecl(N(st.b), T(st.c)); if (st.d >= 0) d->init = &T(st.d); as_decl(d); break; }
      case D_FUNDECL: { auto* d = scope_of(st.a).make_fundecl(N(st.b), static_cast<const Function&>(T(st.c)));
                        d->data.emplace<1>(static_cast<impl::Mapping*>(vals[std::size_t(st.d)].impl)); d->specifiers(Specifiers(std::uintptr_t(st.num))); as_decl(d); break; }
      case D_TEMPLATE: { auto* d = scope_of(st.a).make_primary_template(N(st.b), static_cast<const Forall&>(T(st.c))); d->init = static_cast<impl::Mapping*>(vals[std::size_t(st.d)].impl); as_decl(d); break; }
      case D_ENUMERATOR: { auto* en = static_cast<impl::Enum*>(vals[std::size_t(st.a)].impl); auto* d = en->add_member(N(st.b)); if (st.c >= 0) d->init = &X(st.c); as_decl(d); break; }
      case D_BASE: { auto* k = static_cast<impl::Class*>(vals[std::size_t(st.a)].impl); auto* d = k->declare_base(T(st.b)); as_decl(d); break; }
      case M_MAPPING: { auto* m = lex.make_mapping(region_of(st.a), Mapping_level(std::size_t(st.num))); if (st.b >= 0) m->typing = &T(st.b); v.e = m; v.impl = m; break; }
      case M_PARAM: { auto* m = static_cast<impl::Mapping*>(vals[std::size_t(st.a)].impl); auto* p = m->param(N(st.b), T(st.c)); if (st.d >= 0) p->init = &X(st.d); as_decl(p); break; }
      case M_BODY: { auto* m = static_cast<impl::Mapping*>(vals[std::size_t(st.a)].impl); m->body = &X(st.b); v = vals[std::size_t(st.a)]; break; }
      case L_LOCATE: {
         // statements and declarations made by this interpreter all derive from impl::Stmt<...>: set the location through the kind
         v = vals[std::size_t(st.a)];
         set_location(v, st);
         break; }
      case R_SUBREGION: { auto* r = region_of(st.a).make_subregion(); v.region = r; v.impl = r; break; }
      case NOISE: { // unrelated creations: nodes that take part in no printed structure
         for (int k = 0; k < int(st.num); ++k) { lex.get_string(widen("noise" + std::to_string(st.num2 + k))); lex.get_pointer(lex.get_pointer(L.char_type())); lex.make_phantom(); }
         break; }
      default: throw std::runtime_error("bad op");
      }
      vals[std::size_t(i)] = v;
      done[std::size_t(i)] = 1;
      ++executed;
   }

   // location setter: dispatch on the category to reach the implementation class
   void set_location(Val& v, const Step& st)
   {
      if (!v.e) return;
      const Source_location loc { { Line_number(std::uint32_t(st.num2)), Column_number(std::uint32_t(st.num3)) }, File_index(std::uint32_t(st.num)) };
      switch (v.e->category) {
#define VH_LOC(Cat, Impl) case Category_code::Cat: static_cast<impl::Impl*>(v.impl)->src_locus = loc; break;
      VH_LOC(Expr_stmt, Expr_stmt) VH_LOC(Block, Block) VH_LOC(If, If) VH_LOC(While, While) VH_LOC(Do, Do) VH_LOC(Switch, Switch) VH_LOC(For, For) VH_LOC(For_in, For_in)
      VH_LOC(Return, Return) VH_LOC(Break, Break) VH_LOC(Continue, Continue) VH_LOC(Goto, Goto) VH_LOC(Labeled_stmt, Labeled_stmt) VH_LOC(Handler, Handler) VH_LOC(Ctor_body, Ctor_body)
      VH_LOC(Var, Var) VH_LOC(Field, Field) VH_LOC(Bitfield, Bitfield) VH_LOC(Alias, Alias) VH_LOC(Typedecl, Typedecl) VH_LOC(Fundecl, Fundecl) VH_LOC(Template, Template)
      VH_LOC(Enumerator, Enumerator) VH_LOC(Base_type, Base_type) VH_LOC(Parameter, Parameter)
#undef VH_LOC
      default: break;
      }
   }

   // straightforward order
   void run(const Prog& p)
   {
      vals.assign(p.steps.size(), Val{}); done.assign(p.steps.size(), 0);
      for (int i = 0; i < int(p.steps.size()); ++i) { run_step(p, i); if (between) between(i); }
   }
   // a random topological order of the dependency graph (operands + container order)
   void run_shuffled(const Prog& p, Rng& rng)
   {
      const int n = int(p.steps.size());
      vals.assign(p.steps.size(), Val{}); done.assign(p.steps.size(), 0);
      std::vector<std::vector<int>> users(p.steps.size());
      std::vector<int> missing(p.steps.size(), 0);
      for (int i = 0; i < n; ++i) {
         auto& st = p.steps[std::size_t(i)];
         std::set<int> deps;
         for (int d : { st.a, st.b, st.c, st.d, st.e, st.after }) if (d >= 0) deps.insert(d);
         for (int d : st.list) deps.insert(d);
         missing[std::size_t(i)] = int(deps.size());
         for (int d : deps) users[std::size_t(d)].push_back(i);
      }
      std::vector<int> ready;
      for (int i = 0; i < n; ++i) if (missing[std::size_t(i)] == 0) ready.push_back(i);
      int ran = 0;
      while (!ready.empty()) {
         // bias towards late steps first so that the order really differs
         std::size_t k = rng.chance(60) ? ready.size() - 1 - rng.below(std::min<std::size_t>(ready.size(), 4)) : rng.below(ready.size());
         int i = ready[k]; ready.erase(ready.begin() + long(k));
         run_step(p, i); ++ran;
         if (between) between(i);
         for (int u : users[std::size_t(i)]) if (--missing[std::size_t(u)] == 0) ready.push_back(u);
      }
      if (ran != n) throw std::runtime_error("construction program has a dependency cycle");
   }
};

// --- generator: printable fragment ------------------------------------------------------------------------------
struct GenOptions {
   int size = 60;                 // approximate number of statements / declarations
   int max_depth = 6;             // statement nesting
   bool locations = false;        // attach source locations to a random subset
   bool unsupported = false;      // include constructs the printer must refuse
   bool control_bytes = false;    // literals with arbitrary bytes
   bool unnamed_udts = false;     // user-defined types without a name (printing one as a type must be refused)
   bool noise = false;            // NOISE steps
   std::uint32_t file_base = 7001;
};

struct Gen {
   Rng& rng;
   GenOptions o;
   Prog p;
   std::vector<int> names, idents, types, exprs, udt_types, var_decls;
   std::map<int, int> last_mutation;     // container step -> last mutating step
   int serial = 0;
   int located = 0;

   Gen(Rng& r, const GenOptions& opt) : rng(r), o(opt) { }

   int push(Step s) { p.steps.push_back(std::move(s)); return int(p.steps.size()) - 1; }
   int mutate(int container, Step s)
   {
      auto it = last_mutation.find(container);
      s.after = it == last_mutation.end() ? container : it->second;
      int i = push(std::move(s));
      last_mutation[container] = i;
      return i;
   }
   int pick(const std::vector<int>& v) { return v[rng.below(v.size())]; }

   int ident(const std::string& s) { Step st { N_IDENT }; st.str = s; int i = push(st); names.push_back(i); idents.push_back(i); return i; }
   int fresh_ident() { return ident("v" + std::to_string(serial++)); }

   void seed_pools()
   {
      for (int k = 0; k < 8; ++k) { Step st { T_BUILTIN }; st.num = k; types.push_back(push(st)); }
      for (int k = 0; k < 6; ++k) fresh_ident();
      for (auto op : { "+", "()", "new[]", "<=>", "co_await" }) { Step st { N_OPERATOR }; st.str = op; names.push_back(push(st)); }
      { Step st { N_CONVERSION }; st.a = types[1]; names.push_back(push(st)); }
      { Step st { N_SUFFIX }; st.a = idents[0]; names.push_back(push(st)); }
      // constructor / destructor names, a compound type's own type-id: declarations are named by them, expressions mention them
      { Step st { N_CTOR }; st.a = types[3]; names.push_back(push(st)); }
      { Step st { N_DTOR }; st.a = types[3]; names.push_back(push(st)); }
      { Step pt { T_POINTER }; pt.a = types[2]; int q = push(pt); Step st { N_TYPE_ID }; st.a = q; names.push_back(push(st)); }
      for (int k = 0; k < 6; ++k) exprs.push_back(literal());
      for (int k = 0; k < 4; ++k) { Step st { X_ID_EXPR }; st.a = pick(idents); st.b = rng.chance(50) ? pick(types) : -1; exprs.push_back(push(st)); }
      // template-ids: the name printer accepts one whose template is written as a qualified name (scope-ref); one whose
      // template is a plain id-expression, or another template-id, must be refused wherever it is mentioned
      { Step l { X_XLIST }; l.list = { types[3], types[6], exprs[0] }; int args = push(l);
        Step q { X_BINARY }; q.num = n_binary - 1 /* make_scope_ref */; q.a = exprs[6]; q.b = exprs[7]; int sr = push(q);
        Step st { N_TEMPLATE_ID }; st.a = sr; st.b = args; names.push_back(push(st));
        Step l0 { X_XLIST }; int none = push(l0); Step s0 { N_TEMPLATE_ID }; s0.a = sr; s0.b = none; names.push_back(push(s0));
        if (o.unsupported) { Step s2 { N_TEMPLATE_ID }; s2.a = exprs[8]; s2.b = args; names.push_back(push(s2)); } }
   }
   int literal()
   {
      Step st { X_LITERAL }; st.a = pick(types);
      if (o.control_bytes && rng.chance(12)) {
         // a spelling that fills its storage granules exactly (8, 24, 40 bytes) and ends in a byte the printer escapes (or a digit),
         // followed in program order by a word whose length reads as an ASCII digit when taken for a character: what lies behind
         // the spelling in the Lexicon's string storage differs between two constructions of the same program
         const std::size_t n = 8 + 16 * rng.below(3);
         for (std::size_t k = 0; k + 1 < n; ++k) st.str += char('a' + rng.below(26));
         st.str += char(rng.chance(80) ? rng.below(4) : ('0' + rng.below(10)));
         int lit = push(st);
         Step nb { N_IDENT }; nb.str = "n" + std::to_string(serial++); nb.str.resize(48 + rng.below(10), 'z'); push(nb);
         return lit;
      }
      if (o.control_bytes && rng.chance(40)) { int n = 1 + int(rng.below(6)); for (int k = 0; k < n; ++k) st.str += char(rng.chance(60) ? rng.below(32) : rng.below(256)); }
      else st.str = std::to_string(rng.below(1000));
      return push(st);
   }
   int type(int depth = 0)
   {
      if (depth > 3 || rng.chance(35)) return pick(types);
      Step st { T_POINTER };
      switch (rng.below(9)) {
      case 0: st.op = T_POINTER; st.a = type(depth + 1); break;
      case 1: st.op = T_REFERENCE; st.a = type(depth + 1); break;
      case 2: st.op = T_RVREF; st.a = type(depth + 1); break;
      case 3: st.op = T_ARRAY; st.a = type(depth + 1); st.b = pick(exprs); break;
      case 4: st.op = T_QUALIFIED; st.a = type(depth + 1); st.num = 1 + (long long)rng.below(7); break;
      case 5: { int prod = product(depth + 1); st.op = rng.chance(30) ? T_FUNCTION_THROWS : T_FUNCTION; st.a = prod; st.b = type(depth + 1); if (st.op == T_FUNCTION_THROWS) st.c = rng.chance(30) ? pick(types) /* throw(T) */ : rng.chance(45) ? sum(depth + 1) /* throw(A, B, ...) */ : pick(exprs); break; }
      case 6: if (!udt_types.empty()) { st.op = T_PTR_TO_MEMBER; st.a = pick(udt_types); st.b = type(depth + 1); break; } [[fallthrough]];
      case 7: if (o.unsupported && rng.chance(30)) { st.op = rng.chance(50) ? T_DECLTYPE : T_AUTO; if (st.op == T_DECLTYPE) st.a = pick(exprs); break; } [[fallthrough]];
      default: st.op = T_AS_TYPE; st.a = pick(exprs); break;
      }
      int i = push(st);
      if (rng.chance(50)) types.push_back(i);
      return i;
   }
   int compound_non_udt_type()
   {
      Step st { T_POINTER }; st.op = rng.chance(50) ? T_POINTER : T_REFERENCE; st.a = types[rng.below(8)];
      return push(st);
   }
   // a sum of 0..4 alternatives, compound types among them (their relative addresses differ from one construction to the next),
   // an alternative given twice now and then
   int sum(int depth)
   {
      Step st { T_SUM }; int n = int(rng.below(5)); for (int k = 0; k < n; ++k) st.list.push_back(rng.chance(60) ? compound_non_udt_type() : type(depth + 1));
      if (n >= 2 && rng.chance(25)) st.list.push_back(st.list[0]);
      return push(st);
   }
   int product(int depth)
   {
      Step st { T_PRODUCT }; int n = int(rng.below(4)); for (int k = 0; k < n; ++k) st.list.push_back(type(depth + 1));
      return push(st);
   }
   int expr(int depth = 0)
   {
      if (depth > 4 || rng.chance(30)) return rng.chance(20) ? literal() : pick(exprs);
      Step st { X_UNARY };
      switch (rng.below(12)) {
      case 0: case 1: st.op = X_UNARY; st.num = (long long)rng.below(n_unary); st.a = expr(depth + 1); break;
      case 2: case 3: case 4: st.op = X_BINARY; st.num = (long long)rng.below(n_binary); st.a = expr(depth + 1); st.b = expr(depth + 1); break;
      case 5: st.op = X_CONDITIONAL; st.a = expr(depth + 1); st.b = expr(depth + 1); st.c = expr(depth + 1); break;
      case 6: { int l = xlist(depth + 1); st.op = X_CALL; st.a = expr(depth + 1); st.b = l; break; }
      case 7: st.op = X_CAST; st.num = (long long)rng.below(n_cast); st.a = type(); st.b = expr(depth + 1); break;
      case 8: st.op = X_ENCLOSURE; st.num = 1 + (long long)rng.below(4); st.a = rng.chance(50) ? xlist(depth + 1) : expr(depth + 1); break;
      case 9: { Step en { X_ENCLOSURE }; en.num = 1 + (long long)rng.below(2); en.a = xlist(depth + 1); int e = push(en); st.op = X_CONSTRUCTION; st.a = type(); st.b = e;
                if (rng.chance(30)) { int c = push(st); Step nw { X_NEW }; nw.a = c; nw.b = rng.chance(40) ? xlist(depth + 1) : -1; return push(nw); }
                break; }
      case 10: if (!var_decls.empty() && rng.chance(50)) { st.op = X_ID_DECL; st.a = pick(var_decls); }
               else { st.op = X_SYMBOL; st.a = pick(names); st.b = pick(types); }
               break;
      default:
         if (o.unsupported && rng.chance(25)) { st.op = X_UNSUPPORTED; st.num = (long long)rng.below(n_unsupported); st.a = expr(depth + 1); }
         else { st.op = X_ID_EXPR; st.a = pick(names); st.b = rng.chance(50) ? pick(types) : -1; }
         break;
      }
      int i = push(st);
      if (rng.chance(25)) exprs.push_back(i);
      return i;
   }
   int xlist(int depth)
   {
      Step st { X_XLIST }; int n = int(rng.below(4)); for (int k = 0; k < n; ++k) st.list.push_back(expr(depth + 1));
      return push(st);
   }
   long long last_location[3] = { 0, 0, 0 };
   void maybe_locate(int stmt)
   {
      if (!o.locations || !rng.chance(45)) return;
      Step st { L_LOCATE }; st.a = stmt; st.num = o.file_base + (located % 5); st.num2 = 1 + (long long)rng.below(3000); st.num3 = rng.chance(70) ? 1 + (long long)rng.below(200) : 0;
      // several statements on one source line (or a front end that records lines only): the location of the statement located last
      if (located > 0 && rng.chance(30)) { st.num = last_location[0]; st.num2 = last_location[1]; st.num3 = last_location[2]; }
      last_location[0] = st.num; last_location[1] = st.num2; last_location[2] = st.num3;
      ++located;
      mutate(stmt, st);
   }
   // a statement; `scope` = step whose region receives local declarations (-1: global)
   int stmt(int scope, int depth)
   {
      Step st { S_EXPR };
      int r = int(rng.below(depth >= o.max_depth ? 6 : 16));
      int i = -1;
      switch (r) {
      case 0: case 1: st.op = S_EXPR; st.a = expr(); i = push(st); break;
      case 2: st.op = S_RETURN; st.a = expr(); i = push(st); break;
      case 3: st.op = rng.chance(50) ? S_BREAK : S_CONTINUE; i = push(st); break;
      case 4: st.op = S_GOTO; st.a = pick(exprs); i = push(st); break;
      case 5: i = decl(scope, depth); break;
      case 6: case 7: i = block(scope, depth + 1); break;
      case 8: st.op = S_IF; st.a = expr(); st.b = stmt(scope, depth + 1); i = push(st); break;
      case 9: st.op = S_IF_ELSE; st.a = expr(); st.b = stmt(scope, depth + 1); st.c = stmt(scope, depth + 1); i = push(st); break;
      case 10: st.op = S_WHILE; st.a = expr(); st.b = stmt(scope, depth + 1); i = push(st); break;
      case 11: st.op = S_DO; st.a = expr(); st.b = stmt(scope, depth + 1); i = push(st); break;
      case 12: st.op = S_SWITCH; st.a = expr(); st.b = block(scope, depth + 1); i = push(st); break;
      case 13: st.op = S_FOR; st.a = expr(); st.b = expr(); st.c = expr(); st.d = block(scope, depth + 1); i = push(st); break;
      case 14: st.op = S_LABELED; st.a = pick(exprs); st.b = stmt(scope, depth + 1); i = push(st); break;
      default: { int var = var_decl(scope); st.op = S_FOR_IN; st.a = var; st.b = expr(); st.c = block(scope, depth + 1); i = push(st); break; }
      }
      maybe_locate(i);
      return i;
   }
   int block(int scope, int depth)
   {
      Step st { S_BLOCK }; st.a = scope;
      int b = push(st);
      int n = depth >= o.max_depth ? 1 : int(rng.below(4));
      for (int k = 0; k < n; ++k) { int s = stmt(b, depth); Step ad { S_ADD }; ad.a = b; ad.b = s; mutate(b, ad); }
      if (rng.chance(25)) {
         int nh = 1 + int(rng.below(2));
         for (int k = 0; k < nh; ++k) {
            Step h { S_HANDLER }; h.a = b; h.b = pick(idents); h.c = pick(types);
            int hi = mutate(b, h);
            int m = int(rng.below(3));
            for (int j = 0; j < m; ++j) { int s = stmt(hi, std::max(depth, o.max_depth - 1)); Step ad { S_HADD }; ad.a = hi; ad.b = s; mutate(hi, ad); }
         }
      }
      maybe_locate(b);
      return b;
   }
   int var_decl(int scope)
   {
      Step st { D_VAR }; st.a = scope; st.b = rng.chance(70) ? fresh_ident() : pick(names); st.c = type(); st.d = rng.chance(50) ? expr() : -1; st.num = rng.chance(30) ? (long long)(rng.below(8)) : 0;
      if (st.d >= 0 && rng.chance(8)) st.d = (!var_decls.empty() && rng.chance(40)) ? pick(var_decls) : type();      // initializers that are types or declarations
      int i = mutate(scope < 0 ? -2 : scope, st);
      var_decls.push_back(i);
      return i;
   }
   int decl(int scope, int depth)
   {
      Step st { D_VAR };
      int i = -1;
      switch (rng.below(10)) {
      case 0: case 1: case 2: i = var_decl(scope); break;
      case 3: st.op = D_ALIAS; st.a = scope; st.b = fresh_ident(); st.c = rng.chance(50) ? type() : literal(); /* an alias takes the type of its initializer: it must have one */ i = mutate(scope < 0 ? -2 : scope, st); break;
      case 4: i = udt(scope, depth); break;
      case 5: case 6: i = fundecl(scope, depth); break;
      case 7: i = templ(scope); break;
      case 8: st.op = D_TYPEDECL; st.a = scope; st.b = fresh_ident(); st.c = pick(types);
              if (rng.chance(40)) { if (rng.chance(35)) { Step dt { T_DECLTYPE }; dt.a = pick(exprs); st.d = push(dt); } else st.d = type(); }
              i = mutate(scope < 0 ? -2 : scope, st); break;
      default: i = var_decl(scope); break;
      }
      maybe_locate(i);
      return i;
   }
   // a user-defined type with members, introduced by a Typedecl whose initializer is the type
   int udt(int scope, int depth)
   {
      const int kind = int(rng.below(4));
      Step st { kind == 0 ? T_CLASS : kind == 1 ? T_UNION : kind == 2 ? T_NAMESPACE : T_ENUM };
      st.a = scope; st.num = (long long)rng.below(2);
      const int name = fresh_ident();
      st.b = (o.unnamed_udts && rng.chance(30)) ? -1 : name;
      int u = push(st);
      if (st.b >= 0) { udt_types.push_back(u); if (kind != 2) types.push_back(u); }
      else if (kind != 2 && rng.chance(60)) types.push_back(u);      // an unnamed type used as the type of later declarations, below pointers, in parameter lists: whatever the printer does with it, it does the same in every construction
      int n = int(rng.below(5));
      for (int k = 0; k < n; ++k) {
         if (kind == 3) { Step e { D_ENUMERATOR }; e.a = u; e.b = fresh_ident(); e.c = rng.chance(40) ? expr() : -1; mutate(u, e); }
         else if (kind == 2) { if (depth < o.max_depth) decl(u, depth + 1); }
         else if (rng.chance(20)) { Step f { D_BITFIELD }; f.a = u; f.b = fresh_ident(); f.c = pick(types); f.d = literal(); mutate(u, f); }
         else if (rng.chance(25) && depth < o.max_depth) fundecl(u, depth + 1);
         else { Step f { D_FIELD }; f.a = u; f.b = fresh_ident(); f.c = type(); f.d = rng.chance(30) ? expr() : -1; f.num = rng.chance(30) ? (long long)rng.below(8) : 0; maybe_locate(mutate(u, f)); }
      }
      if (kind == 0 && !udt_types.empty()) { int nb = int(rng.below(3)); for (int k = 0; k < nb; ++k) { Step b { D_BASE }; b.a = u; b.b = pick(udt_types); mutate(u, b); } }
      Step td { D_TYPEDECL }; td.a = scope; td.b = name;
      { Step kt { T_BUILTIN }; kt.num = kind == 2 ? 12 : 13; td.c = push(kt); }
      td.d = u;
      return mutate(scope < 0 ? -2 : scope, td);
   }
   int fundecl(int scope, int depth)
   {
      // mapping with parameters and a block body
      Step pr { T_PRODUCT };
      std::vector<int> ptypes; int np = int(rng.below(4));
      for (int k = 0; k < np; ++k) { ptypes.push_back(type()); pr.list.push_back(ptypes.back()); }
      int prod = push(pr);
      Step ft { T_FUNCTION }; ft.a = prod; ft.b = pick(types); int fty = push(ft);
      Step mp { M_MAPPING }; mp.a = scope; mp.b = fty; mp.num = (long long)rng.below(3);
      int m = push(mp);
      for (int k = 0; k < np; ++k) { Step pa { M_PARAM }; pa.a = m; pa.b = fresh_ident(); pa.c = ptypes[std::size_t(k)]; pa.d = rng.chance(30) ? expr() : -1; mutate(m, pa); }
      int body = depth < o.max_depth ? block(scope, depth + 1) : literal();
      if (rng.chance(6)) body = (!var_decls.empty() && rng.chance(50)) ? pick(var_decls) : type();      // mapping results of every super-kind
      { Step mb { M_BODY }; mb.a = m; mb.b = body; mutate(m, mb); }
      Step fd { D_FUNDECL }; fd.a = scope; fd.b = rng.chance(70) ? fresh_ident() : pick(names); fd.c = fty; fd.d = m; fd.e = last_mutation[m]; fd.num = rng.chance(30) ? (long long)rng.below(16) : 0;
      return mutate(scope < 0 ? -2 : scope, fd);
   }
   int templ(int scope)
   {
      Step pr { T_PRODUCT }; { Step kt { T_BUILTIN }; kt.num = 12; int tn = push(kt); pr.list.push_back(tn); }
      int prod = push(pr);
      Step fa { T_FORALL }; fa.a = prod; fa.b = pick(types); int fty = push(fa);
      Step mp { M_MAPPING }; mp.a = scope; mp.b = fty; mp.num = 1; int m = push(mp);
      { Step pa { M_PARAM }; pa.a = m; pa.b = fresh_ident(); pa.c = pr.list[0]; mutate(m, pa); }
      // the result of a template is printed as a definition: never a user-defined type (it may be the one being defined
      // around this template, and a graph that is cyclic through definition positions has no finite rendering)
      { Step mb { M_BODY }; mb.a = m; mb.b = rng.chance(50) ? types[rng.below(8)] : expr();
        if (rng.chance(20)) mb.b = (!var_decls.empty() && rng.chance(50)) ? pick(var_decls) : compound_non_udt_type();
        mutate(m, mb); }
      Step td { D_TEMPLATE }; td.a = scope; td.b = fresh_ident(); td.c = fty; td.d = m; td.e = last_mutation[m];
      return mutate(scope < 0 ? -2 : scope, td);
   }

   Prog generate()
   {
      seed_pools();
      int budget = o.size;
      while (budget-- > 0) {
         if (o.noise && rng.chance(15)) { Step n { NOISE }; n.num = 1 + (long long)rng.below(5); n.num2 = serial * 10; push(n); }
         const std::size_t before = p.steps.size();
         int d = decl(-1, 0);
         (void)d;
         budget -= int((p.steps.size() - before) / 12);
      }
      // free-standing statements and expressions offered to the printer directly
      for (int k = 0; k < 3; ++k) p.top.push_back(stmt(-1, 1));
      return std::move(p);
   }
};
inline Prog generate_program(Rng& rng, const GenOptions& o) { Gen g(rng, o); return g.generate(); }

} // namespace vh
#endif
