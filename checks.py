# Table of checks (exec'd by vcheck).  check(id, source, flavour, lib, workers=(quick,thorough), wall=(quick,thorough) seconds)
check("C08", "harness/c08_rbtree.cxx", lib=False, opt="-O1", workers=(8, 16), wall=(40, 1200),
      title="ordered-set utility stays a valid balanced search tree")
check("C01", "harness/c01_types.cxx", workers=(8, 16), wall=(20, 600),
      title="types are unified")
check("C04", "harness/c04_names.cxx", workers=(8, 16), wall=(20, 600),
      title="names and atoms are unified; single Identifier per spelling")
check("C11", "harness/c11_qualified.cxx", workers=(8, 16), wall=(10, 120),
      title="qualified types are in normal form")
check("C10", "harness/c10_specifiers.cxx", opt="-O1", workers=(8, 16), wall=(15, 180),
      title="specifier and qualifier sets are a Boolean algebra with exact decomposition")
check("C13", "harness/c13_constants.cxx", workers=(2, 4), wall=(5, 30),
      title="Lexicon constants are distinct, correctly spelled, self-describing, process-wide")
check("C03", "harness/c03_words.cxx", opt="-O1", workers=(8, 16), wall=(20, 600),
      title="words are interned; content preserved")
check("C07", "harness/c07_scopes.cxx", workers=(8, 16), wall=(20, 600),
      title="scopes, overload sets and declaration sets are mutually consistent")
check("C16", "harness/c16_subst.cxx", workers=(8, 16), wall=(10, 200),
      title="substitutions behave as finite maps")
check("C02", "harness/c02_operands.cxx", workers=(8, 16), wall=(20, 400),
      title="every factory-built node reports exactly the operands it was built from")
check("C09", "harness/c09_types.cxx", workers=(8, 16), wall=(20, 400),
      title="every node has the type its kind prescribes")
check("C06", "harness/c06_categories.cxx", workers=(2, 8), wall=(10, 120),
      title="category code, accept() and visitor defaults agree")
check("C15", "harness/c15_derived.cxx", workers=(4, 16), wall=(10, 200),
      title="derived interface operations agree with the primitives they are defined from")
check("C12", "harness/c12_regions.cxx", workers=(8, 16), wall=(15, 300),
      title="regions form a tree rooted at the global region; owners and positions are right")
check("C17", "harness/c17_print_determinism.cxx", workers=(8, 16), wall=(20, 400),
      title="printed text depends only on graph structure and printer options")
check("C18", "harness/c18_printer.cxx", workers=(8, 16), wall=(60, 900), asan_extra="detect_stack_use_after_return=0",
      title="printing terminates and leaves the stream and the printer as it found them")
MEMCHECK = ["valgrind", "--tool=memcheck", "--leak-check=full", "--show-leak-kinds=definite,indirect,possible",
            "--errors-for-leak-kinds=definite,indirect,possible", "--num-callers=30", "--error-exitcode=0"]
check("C19", "harness/c19_leaks.cxx", workers=(8, 16), wall=(40, 900), leaks=True,
      aux=[dict(name="memcheck", flavour="plain", tiers=("thorough",), workers=2, wall=400, env={"VERIF_VALGRIND_MODE": "1"}, prefix=MEMCHECK)],
      title="destroying a Lexicon frees all its memory; live use never touches dead storage")
HELGRIND = ["valgrind", "--tool=helgrind", "--num-callers=30", "--error-exitcode=0", "--history-level=approx",
            "--suppressions=" + os.path.join(VERIF, "tools", "helgrind.supp")]
check("C20", "harness/c20_isolation.cxx", flavour="tsan", workers=(4, 6), wall=(60, 900),
      aux=[dict(name="helgrind", flavour="plain", tiers=("thorough",), workers=2, wall=600, prefix=HELGRIND)],
      title="Lexicons are isolated: independent instances can be used from different threads")
check("C14", "harness/c14_accessors.cxx", workers=(2, 16), wall=(60, 900), asan_extra="detect_stack_use_after_return=0",
      aux=[dict(name="memcheck", flavour="plain", tiers=("thorough",), workers=1, wall=900, prefix=["valgrind", "--tool=memcheck", "--leak-check=no", "--num-callers=30", "--error-exitcode=0", "--child-silent-after-fork=no", "--trace-children=no"])],
      title="missing or out-of-range data raises a logic error, never undefined behaviour")
check("C05", "harness/c05_stability.cxx", workers=(8, 16), wall=(40, 900),
      title="node identity is stable: nodes never move, never silently change, never alias")
