# Table of checks (exec'd by vcheck).  check(id, source, flavour, lib, workers=(quick,thorough), wall=(quick,thorough) seconds)
check("C08", "harness/c08_rbtree.cxx", lib=False, workers=(8, 16), wall=(20, 300),
      title="ordered-set utility stays a valid balanced search tree")
