# Table of checks (exec'd by vcheck).  check(id, source, flavour, lib, workers=(quick,thorough), wall=(quick,thorough) seconds)
check("C08", "harness/c08_rbtree.cxx", lib=False, workers=(8, 16), wall=(20, 300),
      title="ordered-set utility stays a valid balanced search tree")
check("C01", "harness/c01_types.cxx", workers=(8, 16), wall=(20, 600),
      title="types are unified")
check("C04", "harness/c04_names.cxx", workers=(8, 16), wall=(20, 600),
      title="names and atoms are unified; single Identifier per spelling")
