#!/usr/bin/env python3
"""gen_results.py: rewrite the generated tables of DESIGN.md (between the BEGIN/END markers) from seeded/*/meta.json,
mutants/*/*.patch and build/mutants.log (the latest verdict per patch and property)."""
import glob, json, os, re
VERIF = os.path.dirname(os.path.dirname(os.path.abspath(__file__)))
def latest_mutant_verdicts():
    res = {}
    p = os.path.join(VERIF, "build", "mutants.log")
    if os.path.exists(p):
        for l in open(p):
            m = re.match(r"(\S+)\s+(\S+)\s+(\S+)\s+(.*)", l)
            if m and m.group(3).startswith("mutants/"):
                res[(m.group(3), m.group(2))] = (m.group(1), m.group(4))
    return res
def seeded_table():
    rows = ["| change | property | what it does | needs | caught by (quick tier) |", "|---|---|---|---|---|"]
    for d in sorted(glob.glob(os.path.join(VERIF, "seeded", "*"))):
        mp = os.path.join(d, "meta.json")
        if not os.path.exists(mp):
            continue
        m = json.load(open(mp))
        c = m.get("confirmed", {})
        q = c.get("quick_checks", {})
        caught = ", ".join("%s (%s)" % (k, "; ".join(x.replace("key=", "").split(" occurrences")[0] for x in v.get("keys", [])[:2])) if v["verdict"] == "CAUGHT" else "%s: %s" % (k, v["verdict"]) for k, v in sorted(q.items()))
        if m.get("history"):
            caught += " — " + m["history"]
        rq = (m.get("rechecked") or {}).get("quick_checks")
        if rq:
            caught += " — after the strengthening (/verif %s): " % m["rechecked"].get("verif_commit", "?") + ", ".join(
                "%s %s%s" % (k, v["verdict"], (" (%s)" % "; ".join(x.replace("key=", "").split(" occurrences")[0] for x in v.get("keys", [])[:2])) if v["verdict"] == "CAUGHT" else "")
                for k, v in sorted(rq.items()))
        def cut(s, n):
            s = s.replace("|", "/").replace("\n", " ")
            return s if len(s) <= n else s[:n - 1] + "…"
        rows.append("| `seeded/%s` | %s | %s | %s | %s |" % (os.path.basename(d), m["property"], cut(m["summary"], 260), cut(m["needs"], 220), caught or "not yet run"))
    return "\n".join(rows)
def mutant_table():
    v = latest_mutant_verdicts()
    rows = ["| mutant | property | verdict (quick tier) | first keys |", "|---|---|---|---|"]
    for p in sorted(glob.glob(os.path.join(VERIF, "mutants", "*", "*.patch"))):
        rel = os.path.relpath(p, VERIF)
        pid = rel.split("/")[1]
        verdict, detail = v.get((rel, pid), ("not yet run", ""))
        keys = "; ".join(k.split(" occurrences")[0] for k in re.findall(r"key=([^;]+)", detail)[:2])
        rows.append("| `%s` | %s | %s | %s |" % (rel, pid, verdict, keys.replace("|", "/")))
    return "\n".join(rows)
dp = os.path.join(VERIF, "DESIGN.md")
s = open(dp).read()
for name, gen in (("seeded-table", seeded_table), ("mutant-table", mutant_table)):
    b, e = "<!-- BEGIN %s -->" % name, "<!-- END %s -->" % name
    if b in s and e in s:
        s = s[:s.index(b) + len(b)] + "\n" + gen() + "\n" + s[s.index(e):]
open(dp, "w").write(s)
print("DESIGN.md tables regenerated")
