#!/usr/bin/env python3
"""seed_prompt.py <ID>: print the brief given to an independent sub-agent that seeds a property-breaking change."""
import json, sys
pid = sys.argv[1]
rnd = int(sys.argv[2]) if len(sys.argv) > 2 else 1
p = [json.loads(l) for l in open('/verif/properties.jsonl') if json.loads(l)['id'] == pid][0]
wt = "/tmp/seed-%s" % pid if rnd == 1 else "/tmp/seed%d-%s" % (rnd, pid)
# earlier rounds' ideas (one line each), so that a new round explores something else; nothing about how anything is checked
import glob, os
earlier = []
for d in sorted(glob.glob('/verif/seeded/%s-*' % pid)):
    try:
        earlier.append(json.load(open(os.path.join(d, 'meta.json')))['summary'])
    except Exception:
        pass
avoid = ""
if earlier:
    avoid = "\nEarlier attempts already used the following ideas; do something DIFFERENT (another site, another mechanism, another trigger condition):\n" + "\n".join("  - " + e for e in earlier) + "\n"
print(f"""You are helping test a verification effort for the C++ library GabrielDosReis/ipr (IPR: a compiler-neutral, hash-consed internal representation of C++ programs: node factories, string interning, visitors, pretty-printer).

You have your own scratch git worktree of the library at {wt} (a checkout of the current tree). Work ONLY inside {wt}. Do not read or touch /repo, /verif or any other directory outside {wt} (system headers/compilers are fine). There is no network.

Here is one semantic property that the library is supposed to satisfy (full record):

{json.dumps(p, indent=1)}

Your task: produce ONE realistic change (a plausible bug a maintainer could introduce during a refactor or optimisation, 1-25 changed lines, in include/ipr/* and/or src/*) that BREAKS this property, while
  (a) the library and its unit tests still compile, and all 17 existing unit tests still pass unedited, and
  (b) the breakage needs something specific to manifest -- a particular multi-step sequence of operations, an unusual input (boundary size, particular byte values, particular operand kind, a particular one among many factories/overloads/node kinds), a particular ordering or amount of earlier activity (e.g. only after a table/pool/sequence grew past some size), or two cooperating sites that each look fine alone -- NOT something that ordinary simple use (or the first call of the main API) would expose at once. Avoid trivial "always wrong" changes and avoid changes that crash immediately in basic use.

How to build and test (takes ~30 s):
  cd {wt} && cmake -G Ninja -S . -B _build -DCMAKE_BUILD_TYPE=Release >/dev/null && cmake --build _build -j8 && ctest --test-dir _build -j8
A demonstration program can be compiled against the library directly, e.g.:
  g++ -std=c++20 -I{wt}/include demo.cxx {wt}/src/*.cxx -o demo      (about 1 min; or link against _build/libipr.a)
The public API is in include/ipr/interface (abstract node classes), include/ipr/impl (implementation classes and factories: impl::Lexicon, impl::Translation_unit, ...), include/ipr/io (Printer), include/ipr/utility. tests/unit-tests/*.cxx show typical use.

Deliverables, all inside {wt}/_seed/ (create the directory):
  1. patch.diff  -- `git -C {wt} diff` of your change to the library sources only (no test or _seed files in it).
  2. demo.cxx    -- a small stand-alone program (main returns 0 = property held, non-zero = property violated, printing what it observed) that uses only the public headers; it must return non-zero WITH your change and 0 WITHOUT it (verify both by actually building and running it against the patched and the unpatched sources; to get the unpatched sources use `git diff > _seed/patch.diff; git apply -R _seed/patch.diff; ...; git apply _seed/patch.diff` -- NEVER use `git stash`: the stash is shared with other worktrees of this repository that other people are using concurrently).
  3. meta.json   -- {{"property": "{pid}", "summary": "<one sentence: what the change does>", "needs": "<what specific condition is needed for it to manifest>", "files": [...], "ran": ["<commands you ran and their outcome: build, 17 tests pass, demo fails with change, demo passes without>"]}}
Leave the worktree with your change APPLIED at the end (uncommitted), with _build containing the passing test build. Do not commit anything.

{avoid}
Important: be independent and creative -- choose a failure mode that you think a thorough runtime-monitoring harness might plausibly MISS (rare path, specific overload, boundary condition, late-history effect). Report back briefly: the summary, the condition it needs, and confirmation of (a), and of the demo failing/passing.
""")
