// find, for popular cheap 32-bit string hashes, ordinary words (a-z0-9_) with the same length and digest as a reserved word
#include <cstdint>
#include <cstdio>
#include <cstring>
#include <string>
#include <vector>
#include <unordered_map>
#include <thread>
#include <mutex>
#include <atomic>
static const char* reserved[] = { "...", "=0", "C", "C++", "auto", "bool", "char", "char16_t", "char32_t", "char8_t", "class", "const", "consteval", "constexpr", "constinit", "default", "delete", "double", "enum", "explicit",
  "export", "extern", "false", "float", "friend", "inline", "int", "long", "long double", "long long", "mutable", "namespace", "nullptr", "private", "protected", "public", "register", "restrict", "short",
  "signed char", "static", "this", "thread_local", "true", "typedef", "typename", "union", "unsigned char", "unsigned int", "unsigned long", "unsigned long long", "unsigned short", "virtual", "void", "volatile", "wchar_t" };
using H = std::uint32_t (*)(const char*, std::size_t);
static std::uint32_t fnv1a(const char* s, std::size_t n) { std::uint32_t h = 2166136261u; for (std::size_t i = 0; i < n; ++i) { h ^= (unsigned char)s[i]; h *= 16777619u; } return h; }
static std::uint32_t fnv1(const char* s, std::size_t n) { std::uint32_t h = 2166136261u; for (std::size_t i = 0; i < n; ++i) { h *= 16777619u; h ^= (unsigned char)s[i]; } return h; }
static std::uint32_t djb2(const char* s, std::size_t n) { std::uint32_t h = 5381; for (std::size_t i = 0; i < n; ++i) h = h * 33 + (unsigned char)s[i]; return h; }
static std::uint32_t djb2x(const char* s, std::size_t n) { std::uint32_t h = 5381; for (std::size_t i = 0; i < n; ++i) h = (h * 33) ^ (unsigned char)s[i]; return h; }
static std::uint32_t sdbm(const char* s, std::size_t n) { std::uint32_t h = 0; for (std::size_t i = 0; i < n; ++i) h = (unsigned char)s[i] + (h << 6) + (h << 16) - h; return h; }
static std::uint32_t java31(const char* s, std::size_t n) { std::uint32_t h = 0; for (std::size_t i = 0; i < n; ++i) h = h * 31 + (unsigned char)s[i]; return h; }
int main(int argc, char** argv) {
  struct F { const char* name; H h; } fs[] = { {"fnv1a32", fnv1a}, {"fnv1_32", fnv1}, {"djb2", djb2}, {"djb2xor", djb2x}, {"sdbm", sdbm}, {"java31", java31} };
  const char alpha[] = "abcdefghijklmnopqrstuvwxyz0123456789_";
  const double budget = argc > 1 ? atof(argv[1]) : 60;      // seconds per hash function
  for (auto& f : fs) {
    std::mutex m; std::vector<std::pair<std::string, std::string>> found; std::atomic<bool> stop { false };
    std::vector<std::thread> th;
    for (int t = 0; t < 14; ++t) th.emplace_back([&, t] {
      std::uint64_t x = 0x9E3779B97F4A7C15ull * (t + 1);
      std::unordered_map<std::uint64_t, const char*> target;     // (len << 32 | digest) -> reserved word
      for (auto r : reserved) { std::size_t n = std::strlen(r); if (n >= 4 && n <= 9) target[(std::uint64_t(n) << 32) | f.h(r, n)] = r; }
      char buf[16];
      auto t0 = std::chrono::steady_clock::now();
      for (std::uint64_t it = 0; !stop; ++it) {
        x ^= x << 13; x ^= x >> 7; x ^= x << 17;
        std::size_t n = 4 + (x >> 60) % 6; std::uint64_t y = x;
        for (std::size_t i = 0; i < n; ++i) { buf[i] = alpha[y % 37]; y /= 37; }
        auto itf = target.find((std::uint64_t(n) << 32) | f.h(buf, n));
        if (itf != target.end() && std::strncmp(buf, itf->second, n) != 0) { std::lock_guard<std::mutex> g(m); found.emplace_back(std::string(buf, n), itf->second); }
        if ((it & 0xfffff) == 0 && std::chrono::duration<double>(std::chrono::steady_clock::now() - t0).count() > budget) break;
      }
    });
    for (auto& t : th) t.join();
    for (auto& [w, r] : found) std::printf("%s\t%s\t%s\n", f.name, w.c_str(), r);
    std::fflush(stdout);
  }
}
