#!/usr/bin/env python3
"""Developer tool: run quick checks against mutated copies of /repo.

  vcheck mutants                 every patch under mutants/<ID>/*.patch and seeded/<id>/patch.diff
  vcheck mutants C01 C07         only patches for those properties
  vcheck mutants path/to.patch:C05   one patch against one property

For each patch: copy /repo (without .git and _build) to a scratch directory under /tmp, apply the patch,
run `vcheck run <ID> --tier quick` with IPR_SRC pointing at the copy, report caught (exit 1) / missed (exit 0) /
error (exit 2), remove the copy.  With --tests also builds the copy with CMake and runs the unit tests.
Results are appended to build/mutants.log; nothing under /repo is touched.
"""
import glob, json, os, shutil, subprocess, sys, tempfile, time

VERIF = os.path.dirname(os.path.dirname(os.path.abspath(__file__)))

def targets(args):
    out = []
    only = set(a for a in args if not a.startswith("-") and ":" not in a)
    for a in args:
        if ":" in a:
            p, pid = a.rsplit(":", 1)
            out.append((os.path.abspath(p), [pid]))
    if out:
        return out
    for p in sorted(glob.glob(os.path.join(VERIF, "mutants", "*", "*.patch"))):
        pid = os.path.basename(os.path.dirname(p))
        if not only or pid in only:
            out.append((p, [pid]))
    for d in sorted(glob.glob(os.path.join(VERIF, "seeded", "*"))):
        meta = os.path.join(d, "meta.json")
        patch = os.path.join(d, "patch.diff")
        if os.path.exists(meta) and os.path.exists(patch):
            m = json.load(open(meta))
            pids = m.get("detect_with") or [m["property"]]
            pids = [p for p in pids if not only or p in only]
            if pids:
                out.append((patch, pids))
    return out

def main(args):
    with_tests = "--tests" in args
    tier = "thorough" if "--thorough" in args else "quick"
    res = []
    for patch, pids in targets(args):
        scratch = tempfile.mkdtemp(prefix="vmut-", dir="/tmp")
        try:
            subprocess.run(["rsync", "-a", "--exclude", ".git", "--exclude", "_build", "/repo/", scratch + "/"], check=True)
            r = subprocess.run(["patch", "-p1", "-s", "--binary", "-d", scratch, "-i", patch], capture_output=True, text=True)
            if r.returncode != 0:
                res.append((patch, ",".join(pids), "PATCH-FAILED", r.stdout[-300:] + r.stderr[-300:]))
                continue
            env = dict(os.environ, IPR_SRC=scratch)
            if with_tests:
                t = subprocess.run([os.path.join(VERIF, "vcheck"), "baseline-off"], env=env, capture_output=True, text=True)
                res.append((patch, "tests", "PASS" if t.returncode == 0 else "FAIL(rc=%d)" % t.returncode, ""))
            for pid in pids:
                t0 = time.time()
                r = subprocess.run([os.path.join(VERIF, "vcheck"), "run", pid, "--tier", tier], env=env, capture_output=True, text=True)
                verdict = {0: "MISSED", 1: "CAUGHT", 2: "ERROR"}.get(r.returncode, "rc=%d" % r.returncode)
                keys = [l.strip() for l in r.stdout.splitlines() if l.strip().startswith("key=")]
                if tier == "thorough":
                    keys = [k for k in keys if k.startswith("key=helgrind") or k.startswith("key=memcheck")] + keys
                detail = "; ".join(keys[:4]) if verdict == "CAUGHT" else r.stdout[-400:].replace("\n", " | ")
                res.append((patch, pid, verdict, "%.0fs %s" % (time.time() - t0, detail)))
        finally:
            shutil.rmtree(scratch, ignore_errors=True)
    os.makedirs(os.path.join(VERIF, "build"), exist_ok=True)
    with open(os.path.join(VERIF, "build", "mutants.log"), "a") as f:
        for patch, pid, verdict, detail in res:
            line = "%-8s %-6s %s  %s" % (verdict, pid, os.path.relpath(patch, VERIF), detail)
            print(line)
            f.write(line + "\n")
    return 0 if all(v in ("CAUGHT", "PASS") for _, _, v, _ in res) else 1

if __name__ == "__main__":
    sys.exit(main(sys.argv[1:]))
