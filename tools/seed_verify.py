#!/usr/bin/env python3
"""seed_verify.py <seeded/NAME> [--from /tmp/seed-XXX]: confirm a seeded property-breaking change ourselves.

With --from, first copies _seed/{patch.diff,demo.cxx,meta.json} of a sub-agent's worktree into the directory.
Then, on a scratch copy of /repo (outside /repo and /verif, removed afterwards):
  1. the patch applies, the repository builds with its own CMake and the 17 unit tests pass;
  2. demo.cxx returns non-zero against the patched sources and 0 against the unpatched ones;
  3. (unless --no-checks) the quick check(s) named in meta.json["detect_with"] (default: the property) run against
     the patched copy (IPR_SRC); verdict CAUGHT / MISSED recorded.
Results are written into meta.json under "confirmed".
"""
import json, os, shutil, subprocess, sys, tempfile, time

VERIF = os.path.dirname(os.path.dirname(os.path.abspath(__file__)))

def run(cmd, **kw):
    return subprocess.run(cmd, capture_output=True, text=True, **kw)

def build_demo(src_tree, demo, out):
    # link against freshly compiled sources (plain -O1; the demo is the sub-agent's oracle, not ours)
    objs = []
    procs = []
    for tu in ("interface", "impl", "io", "traversal", "utility"):
        o = "%s.%s.o" % (out, tu)
        objs.append(o)
        procs.append(subprocess.Popen(["g++", "-std=c++20", "-O1", "-w", "-I" + os.path.join(src_tree, "include"), "-c",
                                       os.path.join(src_tree, "src", tu + ".cxx"), "-o", o]))
    procs.append(subprocess.Popen(["g++", "-std=c++20", "-O1", "-w", "-I" + os.path.join(src_tree, "include"), "-c", demo, "-o", out + ".demo.o"]))
    if any(p.wait() != 0 for p in procs):
        return False
    return run(["g++", out + ".demo.o"] + objs + ["-o", out]).returncode == 0

def main(argv):
    d = os.path.abspath(argv[1])
    src = None
    if "--from" in argv:
        src = argv[argv.index("--from") + 1]
        os.makedirs(d, exist_ok=True)
        for f in ("patch.diff", "demo.cxx", "meta.json"):
            shutil.copy(os.path.join(src, "_seed", f), os.path.join(d, f))
    meta = json.load(open(os.path.join(d, "meta.json")))
    if "--detect" in argv:
        meta["detect_with"] = argv[argv.index("--detect") + 1].split(",")
    patch = os.path.join(d, "patch.diff")
    demo = os.path.join(d, "demo.cxx")
    scratch = tempfile.mkdtemp(prefix="vseed-", dir="/tmp")
    conf = dict(at=time.strftime("%Y-%m-%d %H:%M:%S"))
    try:
        tree = os.path.join(scratch, "tree")
        subprocess.run(["rsync", "-a", "--exclude", ".git", "--exclude", "_build", "/repo/", tree + "/"], check=True)
        r = run(["patch", "-p1", "-s", "--binary", "-d", tree, "-i", patch])
        conf["patch_applies"] = (r.returncode == 0)
        if r.returncode != 0:
            print("PATCH FAILED", r.stdout, r.stderr)
        else:
            t = run([os.path.join(VERIF, "vcheck"), "baseline-off"], env=dict(os.environ, IPR_SRC=tree))
            conf["builds_and_17_tests_pass"] = (t.returncode == 0 and "17 passed" in t.stdout)
            ok1 = build_demo(tree, demo, os.path.join(scratch, "demo_patched"))
            ok0 = build_demo("/repo", demo, os.path.join(scratch, "demo_clean"))
            if ok1 and ok0:
                try:
                    r1 = run([os.path.join(scratch, "demo_patched")], timeout=600)
                    r0 = run([os.path.join(scratch, "demo_clean")], timeout=600)
                    conf["demo_rc_with_change"] = r1.returncode
                    conf["demo_rc_without_change"] = r0.returncode
                    conf["demo_output_with_change"] = (r1.stdout + r1.stderr)[-600:]
                except subprocess.TimeoutExpired:
                    conf["demo"] = "timeout"
            else:
                conf["demo"] = "did not compile (patched ok=%s, clean ok=%s)" % (ok1, ok0)
            if "--no-checks" not in argv:
                res = {}
                for pid in meta.get("detect_with") or [meta["property"]]:
                    t0 = time.time()
                    r = run([os.path.join(VERIF, "vcheck"), "run", pid, "--tier", "quick"], env=dict(os.environ, IPR_SRC=tree))
                    keys = [l.strip() for l in r.stdout.splitlines() if l.strip().startswith("key=")]
                    res[pid] = dict(verdict={0: "MISSED", 1: "CAUGHT", 2: "ERROR"}.get(r.returncode, str(r.returncode)),
                                    seconds=round(time.time() - t0), keys=keys[:5], tail=r.stdout[-300:] if r.returncode != 1 else "")
                conf["quick_checks"] = res
    finally:
        shutil.rmtree(scratch, ignore_errors=True)
    meta["confirmed"] = conf
    json.dump(meta, open(os.path.join(d, "meta.json"), "w"), indent=1)
    print(json.dumps(conf, indent=1))
    good = conf.get("builds_and_17_tests_pass") and conf.get("demo_rc_with_change", 0) != 0 and conf.get("demo_rc_without_change", 1) == 0
    return 0 if good else 1

if __name__ == "__main__":
    sys.exit(main(sys.argv))
