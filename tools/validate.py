#!/opt/veriftools/pyvenv/bin/python
"""Validate MANIFEST.json and every evidence file against the schemas."""
import json, sys, glob, jsonschema
ok = True
m = json.load(open('/verif/MANIFEST.json'))
try:
    jsonschema.validate(m, json.load(open('/root/.vp/MANIFEST.schema.json'))); print("MANIFEST ok")
except Exception as e:
    ok = False; print("MANIFEST INVALID", e)
es = json.load(open('/root/.vp/EVIDENCE.schema.json'))
for c in m['checks']:
    p = c['evidence_file']
    try:
        jsonschema.validate(json.load(open(p)), es); print(p, "ok")
    except Exception as e:
        ok = False; print(p, "INVALID", str(e)[:300])
sys.exit(0 if ok else 1)
