#!/usr/bin/env python3
"""mkmutant.py <ID> <name> <file-relative-to-repo> <old> <new> [<old2> <new2> ...]: write mutants/<ID>/<name>.patch
(replacing the single occurrence of <old> by <new> in /repo's current file)."""
import sys, os, subprocess, tempfile, shutil
pid, name, rel = sys.argv[1:4]
pairs = sys.argv[4:]
src = os.path.join("/repo", rel)
s = open(src, newline='').read()
for i in range(0, len(pairs), 2):
    old, new = pairs[i], pairs[i + 1]
    if s.count(old) != 1:
        sys.exit("pattern occurs %d times: %r" % (s.count(old), old))
    s = s.replace(old, new)
d = tempfile.mkdtemp()
os.makedirs(os.path.join(d, "a", os.path.dirname(rel))); os.makedirs(os.path.join(d, "b", os.path.dirname(rel)))
shutil.copy(src, os.path.join(d, "a", rel)); open(os.path.join(d, "b", rel), "w", newline='').write(s)
out = subprocess.run(["diff", "-u", os.path.join("a", rel), os.path.join("b", rel)], cwd=d, capture_output=True).stdout
verif = os.path.dirname(os.path.dirname(os.path.abspath(__file__)))
os.makedirs(os.path.join(verif, "mutants", pid), exist_ok=True)
open(os.path.join(verif, "mutants", pid, name + ".patch"), "wb").write(out)
shutil.rmtree(d)
print("wrote mutants/%s/%s.patch (%d lines)" % (pid, name, out.count(b"\n")))
