#!/usr/bin/env python3
"""seed_recheck.py [--all-checks] <seeded/NAME> ...: run the *current* quick checks against seeded changes again.

For every named directory: copy /repo to a scratch directory (outside /repo and /verif, removed afterwards), apply
patch.diff, run the quick tier of the checks named in meta.json["detect_with"] (default: the property's own check)
against it (IPR_SRC) and record the verdicts in meta.json under "rechecked" (with the /verif commit they were made at).
"confirmed.quick_checks" (the first verdict) is left alone.  Exit status 0 when every change was caught by the check
of its own property, 1 otherwise.
"""
import json, os, shutil, subprocess, sys, tempfile, time

VERIF = os.path.dirname(os.path.dirname(os.path.abspath(__file__)))

def run(cmd, **kw):
    return subprocess.run(cmd, capture_output=True, text=True, **kw)

def main(argv):
    names = [a for a in argv[1:] if not a.startswith("--")]
    head = run(["git", "-C", VERIF, "rev-parse", "--short", "HEAD"]).stdout.strip()
    dirty = bool(run(["git", "-C", VERIF, "status", "--porcelain", "--", "harness", "vcheck", "checks.py", "tools"]).stdout.strip())
    bad = 0
    for n in names:
        d = os.path.abspath(n)
        meta = json.load(open(os.path.join(d, "meta.json")))
        scratch = tempfile.mkdtemp(prefix="vrechk-", dir="/tmp")
        res = {}
        try:
            tree = os.path.join(scratch, "tree")
            subprocess.run(["rsync", "-a", "--exclude", ".git", "--exclude", "_build", "/repo/", tree + "/"], check=True)
            r = run(["patch", "-p1", "-s", "--binary", "-d", tree, "-i", os.path.join(d, "patch.diff")])
            if r.returncode != 0:
                print(n, "PATCH FAILED", r.stdout, r.stderr)
                bad += 1
                continue
            pids = meta.get("detect_with") or [meta["property"]]
            if meta["property"] not in pids:
                pids = [meta["property"]] + pids
            for pid in pids:
                t0 = time.time()
                r = run([os.path.join(VERIF, "vcheck"), "run", pid, "--tier", "quick"], env=dict(os.environ, IPR_SRC=tree))
                keys = [l.strip() for l in r.stdout.splitlines() if l.strip().startswith("key=")]
                res[pid] = dict(verdict={0: "MISSED", 1: "CAUGHT", 2: "ERROR"}.get(r.returncode, str(r.returncode)),
                                seconds=round(time.time() - t0), keys=keys[:5], tail=r.stdout[-300:] if r.returncode != 1 else "")
        finally:
            shutil.rmtree(scratch, ignore_errors=True)
        meta["rechecked"] = dict(at=time.strftime("%Y-%m-%d %H:%M:%S"), verif_commit=head + ("+uncommitted" if dirty else ""), quick_checks=res)
        json.dump(meta, open(os.path.join(d, "meta.json"), "w"), indent=1)
        own = res.get(meta["property"], {}).get("verdict")
        print("%s  %s" % (os.path.basename(d), "  ".join("%s=%s(%ss)" % (k, v["verdict"], v["seconds"]) for k, v in res.items())), flush=True)
        if own != "CAUGHT":
            bad += 1
    return 1 if bad else 0

if __name__ == "__main__":
    sys.exit(main(sys.argv))
