#!/usr/bin/env python3
"""Regenerate /verif/MANIFEST.json from checks.py + tools/manifest_meta.py and validate it."""
import json, os, sys, subprocess
VERIF = os.path.dirname(os.path.dirname(os.path.abspath(__file__)))
CHECKS = {}
def check(pid, src, **kw):
    CHECKS[pid] = dict(src=src, **kw)
exec(open(os.path.join(VERIF, "checks.py")).read())
META = {}
exec(open(os.path.join(VERIF, "tools", "manifest_meta.py")).read())
props = [json.loads(l) for l in open(os.path.join(VERIF, "properties.jsonl"))]
repo_commits = []
try:
    out = subprocess.run(["git", "-C", "/repo", "log", "--format=%H %s"], capture_output=True, text=True).stdout
    repo_commits = [l.split()[0] for l in out.splitlines() if "IPR_VERIF" in l]
except Exception:
    pass
checks, na = [], []
for p in props:
    pid = p["id"]
    if pid in CHECKS and pid in META:
        m = META[pid]
        checks.append(dict(
            property_id=pid,
            quick_cmd="./vcheck run %s --tier quick" % pid,
            thorough_cmd="./vcheck run %s --tier thorough" % pid,
            evidence_file="/verif/evidence/%s.json" % pid,
            replay_cmd_template="./vcheck replay {path}",
            engine="vcheck",
            level_claimed=dict(category="exploration", text=m["text"], design_ref=m.get("design_ref", "DESIGN.md section 4, " + pid)),
            level_note=m["note"],
            technique=m["technique"]))
    else:
        na.append(dict(property_id=pid, reason=NOT_APPLICABLE.get(pid, "check not built yet (work in progress; see DESIGN.md section 4)")))
man = dict(
    version=1,
    setup_cmd="./vcheck setup",
    hooks=dict(guard="IPR_VERIF",
               enable="every check compiles /repo/src/*.cxx itself with g++ -std=c++20 -DIPR_VERIF -I/repo/include (plus the sanitizer flags of its flavour); hooks are friend declarations only",
               baseline_off_cmd="./vcheck baseline-off",
               source_commits=repo_commits,
               add_only=True),
    engines=[dict(name="vcheck", path="/verif/vcheck", serves_properties=[c["property_id"] for c in checks],
                  kind_free_text="python driver: rebuilds /repo sources per sanitizer flavour (ASan+UBSan / TSan / plain), runs one monitor binary per property in N worker processes, folds event logs and sanitizer logs into verdict + evidence")],
    checks=checks,
    notes="Runtime monitoring and sanitizers only. Every verdict is 'held on the executions described in the evidence file'. See DESIGN.md.",
    not_applicable=na)
json.dump(man, open(os.path.join(VERIF, "MANIFEST.json"), "w"), indent=1)
print("MANIFEST.json: %d checks, %d not_applicable" % (len(checks), len(na)))
