# Per-property wording for MANIFEST.json (exec'd by gen_manifest.py)
NOT_APPLICABLE = {}
META["C08"] = dict(
    technique="runtime structural-invariant monitor (red-black/BST/parent-link/height/size/membership validator) over exhaustive-to-bound and adversarial insertion sequences, under ASan+UBSan",
    text="The real rb_tree::chain and rb_tree::container templates are driven through every permutation of up to 8 (quick) / 9 (thorough) keys, every duplicate-bearing sequence up to a bound, and long random/sorted/reversed/organ-pipe/zig-zag/sawtooth sequences with integer, address and lexicographic comparators; a validator walks the live tree after every insertion. Holds on the executions produced; exhaustive only up to the stated bounds.",
    note="Trusts the harness's validator and its std::set membership model; comparators are total orders supplied by the harness; ASan/UBSan instrumentation of the template code as compiled into the harness.")
