#!/usr/bin/env python3
"""coverage.py [--tier quick|thorough] [ID ...]: which lines and functions of the repository do the monitors' workloads reach?

Developer-facing (not a registered check, decides nothing): builds the library and every harness a second time with
`g++ -O0 --coverage` into build/cov/, runs each harness exactly as `vcheck run` would (same worker seeds and arguments, no
sanitizer), then folds the gcov counters of all translation units into one table per repository file:
build/cov/report.txt (per file: lines reached / instrumented, functions never entered, line ranges never executed) and
build/cov/summary.json.  Used to find behaviour no workload drives; what it finds is answered by extending a workload.
"""
import glob, gzip, json, os, re, shutil, subprocess, sys, time
VERIF = os.path.dirname(os.path.dirname(os.path.abspath(__file__)))
sys.argv_saved = list(sys.argv)
src = open(os.path.join(VERIF, "vcheck")).read()
# reuse the driver's check table and seed derivation
ns = {"__name__": "vcheck_import", "__file__": os.path.join(VERIF, "vcheck")}
exec(compile(src.split("# ----------------------------------------------------------------------------------------\ndef splitmix")[0], "vcheck", "exec"), ns)
CHECKS, SRC, COMMON = ns["CHECKS"], ns["SRC"], ns["COMMON"]
def splitmix(x):
    x = (x + 0x9E3779B97F4A7C15) & 0xFFFFFFFFFFFFFFFF
    z = x
    z = ((z ^ (z >> 30)) * 0xBF58476D1CE4E5B9) & 0xFFFFFFFFFFFFFFFF
    z = ((z ^ (z >> 27)) * 0x94D049BB133111EB) & 0xFFFFFFFFFFFFFFFF
    return z ^ (z >> 31)
COV = os.path.join(VERIF, "build", "cov")
FLAGS = COMMON + ["-O0", "--coverage", "-DVERIF_COVERAGE"]

def par(cmds, n=16):
    running, fails = [], []
    cmds = list(cmds)
    while cmds or running:
        while cmds and len(running) < n:
            label, argv, kw = cmds.pop(0)
            running.append((label, subprocess.Popen(argv, stdout=subprocess.PIPE, stderr=subprocess.STDOUT, **kw)))
        time.sleep(0.05)
        for label, p in list(running):
            if p.poll() is not None:
                running.remove((label, p))
                out = p.stdout.read().decode(errors="replace")
                if p.returncode != 0:
                    fails.append((label, p.returncode, out[-2000:]))
    return fails

def main(argv):
    tier = "quick"
    ids = []
    i = 1
    while i < len(argv):
        if argv[i] == "--tier":
            tier = argv[i + 1]; i += 2
        else:
            ids.append(argv[i]); i += 1
    ids = ids or sorted(CHECKS)
    if "--keep" not in argv:
        shutil.rmtree(COV, ignore_errors=True)
    os.makedirs(COV, exist_ok=True)
    subprocess.run([sys.executable, os.path.join(VERIF, "tools", "gen_all.py"), SRC, os.path.join(VERIF, "harness", "gen")], check=True)
    jobs = []
    for tu in ns["LIB_TUS"]:
        o = os.path.join(COV, "lib_" + tu.replace(".cxx", ".o"))
        if not os.path.exists(o):
            jobs.append((tu, ["g++"] + FLAGS + ["-I" + os.path.join(SRC, "include"), "-c", os.path.join(SRC, "src", tu), "-o", o], {}))
    for pid in ids:
        c = CHECKS[pid]
        o = os.path.join(COV, pid + ".o")
        if not os.path.exists(o):
            jobs.append((pid, ["g++"] + FLAGS + list(c.get("defs", ())) + ["-I" + os.path.join(SRC, "include"), "-I" + os.path.join(VERIF, "harness"), "-c", os.path.join(VERIF, c["src"]), "-o", o], {}))
    t0 = time.time()
    f = par(jobs)
    if f:
        print("compile failed:", f[0][0], f[0][2]); return 2
    libobjs = [os.path.join(COV, "lib_" + tu.replace(".cxx", ".o")) for tu in ns["LIB_TUS"]]
    f = par([(pid, ["g++"] + FLAGS + ["-rdynamic", os.path.join(COV, pid + ".o")] + (libobjs if CHECKS[pid]["lib"] else []) + ["-ldl", "-o", os.path.join(COV, pid + ".bin")], {}) for pid in ids])
    if f:
        print("link failed:", f[0][0], f[0][2]); return 2
    print("built in %.0fs" % (time.time() - t0), flush=True)
    ti = 0 if tier == "quick" else 1
    for pid in ids:
        c = CHECKS[pid]
        out = os.path.join(COV, "out", pid)
        shutil.rmtree(out, ignore_errors=True); os.makedirs(out)
        n = c["workers"][ti]
        env = dict(os.environ, VERIF_OUTDIR=out, VERIF_BINS="{}")
        env.update(c["env"])
        t1 = time.time()
        runs = []
        for w in range(n):
            wseed = splitmix(1 * 1000003 + w) & 0x7FFFFFFFFFFFFFFF
            runs.append(("%s/%d" % (pid, w), [os.path.join(COV, pid + ".bin"), "--seed", str(wseed), "--tier", tier, "--worker", str(w), "--workers", str(n),
                         "--out", os.path.join(out, "events-%d.jsonl" % w), "--base-seed", "1"], dict(env=env, cwd=VERIF)))
        f = par(runs)
        print("%s ran %d workers in %.0fs%s" % (pid, n, time.time() - t1, (" FAILURES: %s" % [(a, b) for a, b, _ in f]) if f else ""), flush=True)
    # fold
    lines = {}      # file -> line -> count
    funcs = {}      # file -> (name, start) -> count
    for gcda in sorted(glob.glob(os.path.join(COV, "*.gcda"))):
        r = subprocess.run(["gcov", "-j", "-t", gcda], capture_output=True, cwd=COV)
        if r.returncode != 0:
            print("gcov failed on", gcda); continue
        data = r.stdout
        try:
            doc = json.loads(data)
        except Exception:
            doc = json.loads(gzip.decompress(data))
        for fl in doc.get("files", []):
            fn = os.path.normpath(fl["file"])
            if not fn.startswith(os.path.realpath(SRC) + "/") and not fn.startswith(SRC + "/"):
                continue
            rel = os.path.relpath(fn, SRC)
            L = lines.setdefault(rel, {})
            for l in fl.get("lines", []):
                L[l["line_number"]] = L.get(l["line_number"], 0) + l["count"]
            F = funcs.setdefault(rel, {})
            for fu in fl.get("functions", []):
                k = (fu.get("demangled_name") or fu["name"], fu["start_line"])
                F[k] = F.get(k, 0) + fu["execution_count"]
    rep = []
    summary = {}
    for rel in sorted(lines):
        L = lines[rel]
        hit = sum(1 for v in L.values() if v > 0)
        F = funcs.get(rel, {})
        # template instantiations: a source-level function counts as entered if any instantiation at that line was
        by_line = {}
        for (name, start), cnt in F.items():
            e = by_line.setdefault(start, [0, name, 0, 0])
            e[0] += cnt; e[2] += 1; e[3] += 1 if cnt == 0 else 0
        never = sorted((start, e[1], e[2]) for start, e in by_line.items() if e[0] == 0)
        summary[rel] = dict(lines_instrumented=len(L), lines_reached=hit, functions=len(by_line), functions_never_entered=len(never))
        rep.append("== %s: %d/%d lines reached (%.1f%%); %d/%d source-level functions never entered" % (rel, hit, len(L), 100.0 * hit / max(1, len(L)), len(never), len(by_line)))
        for start, name, ninst in never:
            rep.append("   never entered  %s:%d  %s" % (rel, start, name[:200]))
        miss = sorted(n for n, v in L.items() if v == 0)
        rng = []
        for n in miss:
            if rng and n == rng[-1][1] + 1:
                rng[-1][1] = n
            else:
                rng.append([n, n])
        rep.append("   lines never executed: " + " ".join("%d-%d" % (a, b) if a != b else str(a) for a, b in rng))
    open(os.path.join(COV, "report.txt"), "w").write("\n".join(rep) + "\n")
    json.dump(dict(tier=tier, checks=ids, files=summary), open(os.path.join(COV, "summary.json"), "w"), indent=1)
    for rel in sorted(summary):
        s = summary[rel]
        print("%-28s lines %5d/%5d  functions never entered %4d/%4d" % (rel, s["lines_reached"], s["lines_instrumented"], s["functions_never_entered"], s["functions"]))
    return 0

if __name__ == "__main__":
    sys.exit(main(sys.argv))
